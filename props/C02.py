"""C02: solve() reports exactly the facts common to all solutions."""
PROP = "C02"
LEVEL = "exploration"
ENGINE = "pyvc+bounded"
HARNESS_MODULES = []


def bounded(tier, seed, rep):
    from bounded import sugar
    sugar.run_c02(rep, tier, seed)


def replay(payload):
    from bounded import sugar
    return sugar.replay_c02(payload)


RULE = ("seeded random programs through the public API (<= 4 variables, depth <= 3) x answer-key subsets (all subsets up to 3 "
        "variables, none/all/6 random beyond) x both routes: own refinement loop over z3 and over the `sugar` stub executable; "
        "back-end deduction mode over sugar_extended / csugar / enigma_csp / cspuz_core stubs (reference implementation of the "
        "deduction mode); oracle: the brute-force solution set -> common value or None per key; distinct = (program, keys, back end)")
TECHNIQUE = "pyvc (proved): loop-by-loop contracts of Solver.solve and the model-theoretic lemma over them (ghost sort of models: a reported value holds in EVERY model, None is reported only when two models disagree, False only when no model exists) under the back-end contract proved for Z3Backend.solve / the deduction-mode protocol; plus contract on Solver.solve (True iff satisfiable; key.sol = v iff every model has v, None iff two models disagree) evaluated end to end against brute force over the reference semantics, both refinement routes; bounded"
LEVEL_TEXT = "exploration: the refinement route is proved from the loop contracts to the statement (lemma over an uninterpreted sort of models) ASSUMING the back end decides the constraints it was given and that the refuting clause denotes what its literals say (per-operator contracts of C01); that assumption chain and the native deduction route are exercised end to end against brute force (bounded), so the check as a whole stays exploration"
LEVEL_NOTE = "trusted: specs/den.py, specs/sugar_ref.py (deduction mode of the external solver), z3; scope: <= 4 variables, domains <= 4 values"
TRUSTED = ["specs/den.py", "specs/sugar_ref.py", "z3 through cspuz's own back end"]
ASSUMPTIONS = ["external solvers replaced by the reference implementation"]
HARNESS_MODULES = ["contracts.c02_refinement", "contracts.c01_z3_backend", "contracts.c03_sugar"]
# the refinement proof assumes the back-end contract "solve() decides the constraints added so far and leaves a model in
# sol"; its z3 half is the contract proved by C01/solve, the text back ends' deduction-mode half by C03/solve_irrefutably_protocol
EXTRA_HARNESSES = [("C01", "solve"), ("C01", "add_constraint"), ("C03", "solve_irrefutably_protocol")]
