PROP = "C19"
LEVEL = "exploration"
ENGINE = "pyvc+bounded"
HARNESS_MODULES = ["contracts.c19_generator", "contracts.c19_builders"]
RULE = "native tier: contracts on the real PRNG functions over listed seeds/domains/draw scripts; bounded engine: see coverage"
TRUSTED = ["pyvc model of Python ints and of bit operations on width-tracked non-negative ints (128-bit vectors)",
           "idealisation: XorShift.next() is uniform on [0, 2^32) (justified by the proved injectivity of the state step)",
           "float(x)/2**32 treated as the exact rational", "z3"]
ASSUMPTIONS = ["termination of rejection sampling is almost sure, not claimed"]
TECHNIQUE = "pyvc contracts (proved) for the PRNG, srandom routing, generate_problem's return discipline and the builders (ArrayBuilder2D.candidates: positions on the board, values from the choice set, point symmetry of the support, adjacency option; copy_with_update: deep copy + exactly the listed writes, input never written; Choice); bounded enumeration for build_neighbor_generator, builder histories and reruns"
LEVEL_TEXT = "exploration overall: PRNG ranges/uniformity arithmetic, routing and the return discipline are proved without bound; builder symmetry/adjacency and end-to-end reproducibility are bounded"
LEVEL_NOTE = "trusted: pyvc's Python model, z3, the uniformity idealisation of next()"


def bounded(tier, seed, rep):
    from bounded import generator
    generator.static_effect_scan(rep)
    generator.run_c19_shuffle(rep, tier)
    generator.run_c19_builders(rep, tier, seed)
    generator.run_c19_repro(rep, tier, seed)
    generator.run_c19_cross_process(rep, tier, seed)


def replay(payload):
    print("replay: re-running the bounded engines of C19 (the recorded case is part of their scope)")
    from pyvc.runner import Report
    rep = Report("C19", "quick", 0, "exploration")
    bounded("quick", 0, rep)
    for v in rep.violations:
        print("still fails:", v["signature"], v["detail"][:200])
    return 1 if rep.violations else 0
