"""C08 (bounded emission contract; see bounded/graphprops.py and bounded/emission.py)."""
import sys
from bounded import emission, graphprops

PROP = "C08"
LEVEL = "exploration"
ENGINE = "pyvc+bounded"
HARNESS_MODULES = ['contracts.c04_graph_plumbing']
EXTRA_HARNESSES = [('C04', 'graph_add_edge'), ('C04', 'grid_graph')]
MOD = "props.C08"
instantiate = graphprops.inst_C08
descs = graphprops.descs_C08


def bounded(tier, seed, rep):
    emission.run_parallel(rep, PROP, MOD, list(graphprops.with_builds(list(descs(tier)) + graphprops.deep_descs(PROP, tier))))


def replay(payload):
    return emission.replay(sys.modules[__name__], payload)


RULE = ("emission contract evaluated on the real active_vertices_not_adjacent, active_vertices_not_adjacent_and_not_segmenting (graph form and specialised grid form): all 2^n patterns on every simple graph n<=4 (5) and on grids incl. 1xN / Nx1 up to 1x5, 3x3, 2x4 (quick) / 4x4, 1x8 (thorough); grid form and explicit-graph form on the same grid graph are both compared with the BFS oracle; every pattern is decided by one z3 query with the "
        "hidden variables existential; plus 'deep' instances too large to enumerate (paths/cycles up to 13 vertices, grids up to "
        "7x5 / 9x6, frames up to 3x3 / 4x3) with structured assignments needing deep rank certificates (all-active paths, snakes, "
        "border-rooted zig-zag diagonal chains, perimeter loops) and their single-variable mutations; every explicit graph also with edges handed to add_edge in the other orientation / mixed / with the Graph object USED once when half built ('grown'); plus history sequences (all "
        "instances again in one process, forwards/backwards, each grid followed by its transpose); distinct = distinct instances")
TECHNIQUE = ("pyvc (proved, all sizes): explicit-graph form of active_vertices_not_adjacent: exactly not(x_u and x_v) per edge, nothing else (the first sentence of the property, given the operator meaning of C01/C12); Graph.add_edge, _grid_graph; the encoder itself: bounded stand-in for a contract on the real emitter (precondition / postcondition against a graph "
             "predicate / frame), decided exhaustively inside the stated scope with z3 over the reference semantics "
             "specs/den.py; never counted as proved")
LEVEL_TEXT = ("exploration: the integer/list plumbing around the encoder is proved by pyvc (see technique); the encoder (bounded-exhaustive): the encoder's contract quantifies over all graphs and needs an induction "
              "over graphs about rank certificates that no installed deductive tool can do on the Python text; the same "
              "contract is therefore decided for every small structure and ALL assignments of the caller's variables")
LEVEL_NOTE = ("trusted: specs/den.py, specs/graphpred.py, z3 on the per-pattern queries, documented operand layout of "
              "the native graph operators; none beyond the scope; scope as in coverage.rule")
TRUSTED = ["specs/den.py", "specs/graphpred.py", "z3 (per-pattern satisfiability)", "operand layout of the native graph operators"]
ASSUMPTIONS = ["bounded scope (see rule)", "none beyond the scope"]
