"""C01: find_answer decides satisfiability and leaves a genuine model in .sol."""
PROP = "C01"
LEVEL = "exploration"
ENGINE = "pyvc+bounded"
HARNESS_MODULES = ["contracts.c01_z3_convert", "contracts.c01_z3_backend"]


def bounded(tier, seed, rep):
    from bounded import programs
    programs.run_c01(rep, tier, seed)


def replay(payload):
    from bounded import programs
    return programs.replay_c01(payload)


RULE = ("programs are built through the public API only: (i) the complete one-operator matrix (every operator form x operand "
        "kind variable/literal x arity 0..3, incl. empty and constant-only count_true/fold_and/fold_or/alldifferent); (ii) "
        "seeded random programs of nesting depth <= 3 over <= 2 booleans and <= 2 integers with negative, singleton and wider "
        "domains; (iii) incremental sessions (declare / ensure / find_answer interleaved, every prefix checked); (iv) large programs with one model (chains, ladders, blocks over 130 / 257 variables) and single n-ary operator nodes with 2 .. 129 (257) operands in which one operand at the first / middle / last position decides the value; (v) constants and domains around 2**31, 2**32, 2**63, 2**64, 10**30 and their negatives (one-model programs). Oracle: brute "
        "force over all assignments with specs/den.py; distinct = distinct generated programs")
TECHNIQUE = "contract on Solver.find_answer (returns True iff a model exists; sol is a model) evaluated end to end against brute force over the reference semantics; bounded"
LEVEL_TEXT = "exploration: end-to-end contract of find_answer on generated programs against brute force; the per-operator translation contracts (pyvc) are added as they are proved"
LEVEL_NOTE = "trusted: specs/den.py (reference semantics), z3 deciding the translated constraints; scope: <= 4 variables, domains of <= 4 values"
TRUSTED = ["specs/den.py", "z3 through cspuz's own back end"]
ASSUMPTIONS = ["well-typed programs only (built through the public API)"]
