"""C11 (bounded): bundled puzzle solvers vs. independent rule checkers on small boards."""
from bounded import puzzles

PROP = "C11"
LEVEL = "exploration"
ENGINE = "bounded"


def bounded(tier, seed, rep):
    puzzles.run(rep, tier, seed)


def replay(payload):
    return puzzles.replay(payload)


RULE = ("for every puzzle with a validated oracle (coverage.puzzles_covered): every instance of the oracle's small-board "
        "scope is solved by the real solve_<puzzle> (default z3 back end) and by brute force from the published rules; "
        "satisfiability and the decided cells must agree; distinct = distinct (puzzle, instance)")
TECHNIQUE = ("bounded stand-in for the contract 'is_sat <=> a rule-obeying grid exists, decided cells = cells all such "
             "grids agree on' on the real solve_<puzzle> functions: exhaustive/sampled small boards against independent "
             "brute-force rule checkers (specs/rules); never counted as proved")
LEVEL_TEXT = ("exploration: the postcondition quantifies over the solutions of a program built through the whole DSL and the "
              "specification is a rule text, so no deductive route exists; the contract is evaluated on small boards. Only "
              "the puzzles listed in coverage.puzzles_covered are claimed; the others are listed as not covered")
LEVEL_NOTE = ("trusted: my transcription of each puzzle's published rules (each oracle is first validated on an example "
              "recorded in the repository), z3 through cspuz's own back end; boards of at most ~12 cells / edges")
TRUSTED = ["specs/rules/*.py (rule transcriptions)", "brute-force enumeration"]
ASSUMPTIONS = ["small boards only", "puzzles without a validated oracle are not covered (listed in the evidence)"]
