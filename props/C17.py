"""C17 (bounded; see bounded/codecs.py)."""
PROP = "C17"
LEVEL = "exploration"
ENGINE = "pyvc+bounded"
HARNESS_MODULES = ["contracts.c17_decoders", "contracts.c13_array_index"]
EXTRA_HARNESSES = [("C13", "lemma_row_major")]   # lemma proved here too because grid_decoder_safety uses an instance of it


def bounded(tier, seed, rep):
    from bounded import codecs
    codecs.run_c17(rep, tier, seed)


def replay(payload):
    from pyvc.runner import Report
    from bounded import codecs
    rep = Report("C17", "quick", 0, "exploration")
    codecs.run_c17(rep, "quick", 0)
    for v in rep.violations:
        print("still fails:", v["signature"], v["detail"][:200])
    return 1 if rep.violations else 0


TRUSTED = ["bounded/codecs.py value generators", "specs/pzpr.py (independent pzpr decoder, validated on the URL/problem pairs recorded in the repository)"]
ASSUMPTIONS = ["bounded scope (see rule)", "unique decodability: a DecInt is never directly followed by digit-leading text, Dict 'after' strings are prefix-free"]
RULE = ("every puzzle decoder on: malformed URLs; ALL bodies up to length 2 (quick: +1500 of length 3; thorough: all up to length 4) "
        "over the alphabet '0145 9afgz-+.' plus non-ASCII digits for boards 1x1..3x3; seeded mutations (truncate/replace/insert/"
        "resize) of valid URLs; one-room boards up to 40x40 (64x64) for the room codecs; every library combinator term through "
        "deserialize_problem on the same strings. Outcome must be None, ValueError or a problem of the declared size that "
        "re-encodes and decodes to itself")
TECHNIQUE = ("pyvc: exception-safety contracts of the library combinators' deserialize methods proved for all strings and offsets "
             "(abstract method contract used modularly); bounded: exhaustive short strings and seeded fuzz on every puzzle decoder")
LEVEL_TEXT = ("exploration overall. Proved without bound (135 obligations): FixStr, Dict, Spaces, DecInt, HexInt, IntSpaces, MultiDigit, "
              "OneOf, Tupl, Seq, Grid (both asserts, every d2[i*width+j] in range) and deserialize_problem return None / raise only "
              "ValueError / return a well-formed (n, items) with idx+n inside the text, for ALL strings and offsets, given sub-"
              "combinators that satisfy the same contract. Bounded: Rooms/ValuedRooms (closures, flood fill), the puzzle wrappers, "
              "dimensions, re-encoding and idempotence")
LEVEL_NOTE = "trusted: none beyond the scope; hangs on absurd declared sizes are not judged"
