"""C04 — active_vertices_connected holds exactly for connected (or tree) active sets (bounded)."""
from bounded import emission
from bounded.common import simple_graphs, grid_edges, load_repo
from specs import graphpred

PROP = "C04"
LEVEL = "exploration"
ENGINE = "pyvc+bounded"
HARNESS_MODULES = ['contracts.c04_graph_plumbing', 'contracts.c04_emission']
EXTRA_HARNESSES = []
MOD = "props.C04"


def instantiate(d):
    load_repo()
    from cspuz import graph as G
    from cspuz.array import BoolArray2D
    if "grid" in d:
        h, w = d["grid"]
        n, edges = h * w, grid_edges(h, w)
    else:
        n, edges = d["n"], [tuple(e) for e in d["edges"]]
    acyclic, prim, form = d["acyclic"], d["prim"], d["form"]
    state = {}

    def declare(s):
        return list(s.bool_array(n))

    def emit(s, caller):
        x, val = emission.bool_forms(form, caller)
        state["val"] = val
        if "grid" in d:
            G.active_vertices_connected(s, BoolArray2D(x, (h, w)), acyclic=acyclic, use_graph_primitive=prim)
        else:
            from bounded import graphprops
            from cspuz import Solver as _S
            def warm(g):
                s2 = _S()
                G.active_vertices_connected(s2, list(s2.bool_array(n)), g, acyclic=acyclic, use_graph_primitive=prim)
            g = graphprops._graph(G, n, edges, d.get("build", "plain"), warm)
            G.active_vertices_connected(s, x, g, acyclic=acyclic, use_graph_primitive=prim)
        return None

    def pred(alpha):
        act = state["val"](alpha)
        return graphpred.active_tree(n, edges, act) if acyclic else graphpred.active_connected(n, edges, act)

    def classify(alpha):
        act = state["val"](alpha)
        k = sum(act)
        return "empty" if k == 0 else ("single" if k == 1 else "multi")

    from bounded import graphprops
    return emission.Inst(declare, emit, pred, classify, alphas=(lambda caller: graphprops.deep_alphas(d)) if d.get("deep") else None)


def descs(tier):
    nmax = 4 if tier == "quick" else 5
    for n in range(1, nmax + 1):
        for edges in simple_graphs(n):
            for acyclic in (False, True):
                for prim in (False, True):
                    forms = ["vars"] if n == nmax and tier != "quick" else ["vars", "neg", "xor2", "const", "cmp", "ncmp", "tied", "trues", "falses"]
                    if tier == "quick" and n == nmax:
                        forms = ["vars", "neg", "cmp", "tied", "trues"]
                    for form in forms:
                        yield dict(func="active_vertices_connected", n=n, edges=[list(e) for e in edges],
                                   acyclic=acyclic, prim=prim, form=form)
    from bounded.graphprops import ROUND_GRAPHS
    for (n, edges) in ROUND_GRAPHS:
        for acyclic in (False, True):
            yield dict(func="active_vertices_connected", n=n, edges=[list(e) for e in edges], acyclic=acyclic, prim=False, form="vars")
    shapes = [(1, 1), (1, 2), (2, 1), (1, 4), (4, 1), (2, 2), (2, 3), (3, 2), (3, 3)]
    if tier != "quick":
        shapes += [(2, 4), (4, 2), (1, 7), (3, 4), (4, 3), (2, 6), (4, 4)]
    for (h, w) in shapes:
        for acyclic in (False, True):
            for prim in (False, True):
                yield dict(func="active_vertices_connected", grid=[h, w], acyclic=acyclic, prim=prim, form="vars")
                if h * w >= 4 and not prim:
                    yield dict(func="active_vertices_connected", grid=[h, w], acyclic=acyclic, prim=prim, form="trues")


def bounded(tier, seed, rep):
    from bounded import leancheck
    leancheck.check(rep, "lean/Encoders.lean", ["C04.enc_iff_connected", "C04T.enc_iff_tree"])
    from bounded import graphprops
    emission.run_parallel(rep, PROP, MOD, list(graphprops.with_builds(list(descs(tier)) + graphprops.deep_descs(PROP, tier))))


def replay(payload):
    import sys
    return emission.replay(sys.modules[__name__], payload)


RULE = ("emission contract evaluated on the real active_vertices_connected for every labelled simple graph with "
        "n<=4 (quick) / n<=5 (thorough) and the listed grid shapes, x acyclic x use_graph_primitive x operand form "
        "(variables, negated variables, xor expressions, Python constants); every one of the 2^n activity patterns is "
        "decided by one z3 query (hidden variables existential); distinct = distinct (structure, options) instances")
TECHNIQUE = ("pyvc (proved, all sizes): Graph.add_edge representation invariant, _grid_graph (sound and complete, documented numbering), operand layout and size checks of the native connectivity operator; the encoder itself: bounded stand-in for a contract on the real emitter: precondition/postcondition/frame evaluated "
             "exhaustively inside the stated scope; postcondition 'exists aux: den(emitted) <=> Pred(graph, alpha)' "
             "decided per activity pattern by z3 over the reference semantics specs/den.py")
LEVEL_TEXT = ("exploration: the integer/list plumbing around the encoder is proved by pyvc (see technique); the encoder (bounded-exhaustive): the contract of the encoder quantifies over all graphs; no installed "
              "deductive tool can do the induction over graphs on the Python text, so the same contract is decided "
              "exhaustively for all small graphs/grids and ALL activity patterns of each; never counted as proved")
LEVEL_NOTE = ("trusted: specs/den.py (reference meaning of the DSL, incl. the decoding of the native graph operator), "
              "specs/graphpred.py (BFS oracle), z3 on the per-pattern queries; scope: n<=4/5 vertices, grids up to "
              "3x3 / 4x4; graphs with >= 1 vertex")
TRUSTED = ["specs/den.py", "specs/graphpred.py", "z3 (per-pattern satisfiability)", "documented operand layout of graph-active-vertices-connected"]
ASSUMPTIONS = ["scope bound: see rule", "the native operator means 'active vertices induce a connected subgraph (empty allowed)'"]


# ---- the encoder itself: emission contract on the real emitter (pyvc) + Lean lemma over that contract
TECHNIQUE = ("emission contract + lemma: pyvc proves on the real _active_vertices_connected (rank/root encoding, acyclic=False and acyclic=True) that, for EVERY graph (ghost incidence lists of any size), it creates "
             "exactly the stated auxiliary variables and posts exactly the stated constraint schema (loop invariants over a ghost record "
             "of every constructed expression and every posted constraint); Lean 4 + Mathlib proves for every finite multigraph that the "
             "schema is satisfiable in the auxiliary variables iff the property's graph predicate holds (C04.enc_iff_connected, C04T.enc_iff_tree in lean/Encoders.lean, "
             "re-checked by `lean` on every run: no sorry, axioms propext / Classical.choice / Quot.sound only). "
             + TECHNIQUE)
LEVEL_TEXT = ("exploration overall: the rank / root encoder is PROVED in two machine-checked halves (pyvc emission contract on the real "
              "code, Lean lemma over that contract; the translation between the two is by hand and cross-checked by the bounded tier); "
              "grid forms and native route: reductions / operand layout proved by pyvc; end-to-end through a back end: bounded. " + LEVEL_TEXT)
ASSUMPTIONS = ASSUMPTIONS + ["hand translation of the pyvc emission schema into the Lean definition `Enc` (cross-checked by the bounded tier on all small multigraphs)",
                             "meaning of the posted expression nodes: per-operator contracts of C01 / C12; loop-free graphs where the lemma asks for it",
                             "Lean 4 kernel + Mathlib"]
