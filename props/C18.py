"""C18 (bounded): segmentation builder only ever produces valid room partitions."""
PROP = "C18"
LEVEL = "exploration"
ENGINE = "pyvc+bounded"
HARNESS_MODULES = ["contracts.c18_segmentation"]


def bounded(tier, seed, rep):
    from bounded import generator
    generator.run_c18(rep, tier, seed)


def replay(payload):
    from pyvc.runner import Report
    from bounded import generator
    rep = Report("C18", "quick", 0, "exploration")
    generator.run_c18(rep, "quick", 0)
    for v in rep.violations:
        print("still fails:", v["signature"], v["detail"][:200])
    return 1 if rep.violations else 0


RULE = ("inductive step checked exhaustively: for every board with <= 6 cells (quick) / <= 9 cells (thorough), EVERY valid "
        "partition into connected blocks (not only the reachable ones), sampled (quick) / up to 60 (thorough) bound "
        "configurations, every update proposed by candidates(): the result must be a valid partition inside the bounds and "
        "the input must be unchanged (deep comparison + aliasing probe); split_block for every connected block and every "
        "pair of seeds; initial(); seeded random walks on 4x4..6x6; distinct = distinct (board, bounds, partition)")
TECHNIQUE = ("pyvc (proved, all boards and bounds): every update proposed by candidates() for a valid value keeps the block count and every new block size inside the bounds, names distinct existing blocks and conserves the cells; split_block's own contract (two non-empty parts whose sizes add up, every cell to exactly one part) is discharged on the real function with only its nested bfs by contract; the block-id table is the index of the containing block; _copy_with_update = previous minus excluded (order kept) ++ appended, kept blocks copied when asked, previous only read (split_block / _is_connected by contract); connectivity: bounded stand-in for the representation-invariant contract valid(B) => valid(copy_with_update(B, u)) and "
             "frame (B unchanged) on the real SegmentationBuilder2D, exhaustive over all valid states of small boards")
LEVEL_TEXT = ("exploration: the counting half of the invariant (block count, block sizes, conservation of cells, copy semantics) is proved for all boards; connectivity/partition-ness rest on sets, dicts, deque and "
              "recursion outside the verified subset; the invariant is checked for every valid state of the small boards")
LEVEL_NOTE = "trusted: the validity checker in bounded/generator.py (BFS); scope: boards up to 6 / 9 cells exhaustively, walks beyond"
TRUSTED = ["bounded/generator.py: partition_ok/bounds_ok"]
ASSUMPTIONS = ["bound configurations without any feasible partition are outside",
               "assumed contract (pyvc): the nested bfs(seed) of split_block returns a table defined on every cell of the block that is 0 exactly at the seed and >= 0 elsewhere (needs a connected block; set/dict/deque outside the subset) - everything else of split_block (distinct seeds, every cell to exactly one part, both parts non-empty, sizes add up) is discharged on the real function",
               "assumed contract (pyvc): srandom.randint(a, b) returns an integer in [a, b] (proved under C19)",
               "assumed contract (pyvc): _is_connected returns a bool (recursion over sets outside the subset; bounded tier decides it on small boards)"]
