PROP = "C13"
LEVEL = "proof"
HARNESS_MODULES = ["contracts.c13_array_index"]
RULE = ("native tier: each harness (contract) is evaluated by CPython on the real functions for every "
        "input of its stated scope (sizes 0..4, bounds/steps in [-7,7] or None; shapes up to 3x3 for 2D keys); "
        "a case is distinct by (harness, None/int case split); plus large arrays (12x12, 8x9, 1x70, 70x1, 64x2, 2x64 ...) indexed "
        "with integer/slice pairs (steps +-1, +-2, +-3, +-5, +-n; bounds at and beyond the ends) against nested Python lists")
TRUSTED = [
    "pyvc interpreter and its model of Python ints/bools/tuples/lists/slices (DESIGN.md 1.3), cross-checked "
    "against CPython on every run (encoding_crosscheck_runs)",
    "z3 answers unsat correctly",
    "specs/pyslice.py == CPython list slicing (validated exhaustively for len<=6, bounds in [-9,9] on every run)",
    "Array1D/BoolArray1D.__getitem__ delegate to CPython's own list indexing (self.data[key])",
]
ASSUMPTIONS = [
    "slice step 0 is outside the property (lists raise ValueError there)",
    "IndexError for a 2D key is judged per axis (an out-of-range integer on either axis raises)",
    "termination of the loops is not proved (bounded for-range loops terminate by construction)",
]


def bounded(tier, seed, rep):
    from specs import pyslice
    n = pyslice.validate(5 if tier == "quick" else 6, -9, 9)
    rep.coverage["pyslice_validation_cases"] = n
    from bounded import bigindex
    bigindex.run(rep, tier)


def replay(payload):
    from bounded import bigindex
    return bigindex.replay(payload)

ENGINE = "pyvc"
TECHNIQUE = ("contract-based deductive verification: pyvc generates VCs from the AST of the real "
             "_parse_range/_range_size/Array2D._getitem_impl/wrappers and z3 discharges them for all sizes, keys and "
             "iterations (loop invariant + append-site obligations, callee contracts, proved spec lemmas); native "
             "run-time contracts over a small scope, and large arrays against nested Python lists, as cross-check")
LEVEL_TEXT = ("proof: every clause of the statement is a postcondition of a sidecar contract on the real function and "
              "every generated obligation is discharged by z3 without bound on sizes, indices or slice triples. "
              "_getitem_impl is verified modularly against the contracts of _parse_range/_range_size, which are "
              "verified against the CPython slice semantics (specs/pyslice.py). The bounded native run of the same "
              "contracts (and the interpreter-vs-CPython cross-check) guards the encoding.")
LEVEL_NOTE = ("trusted: pyvc's model of Python (ints, bool subset of int, floor division, tuples, lists, slice objects, "
              "isinstance), z3's unsat answers, specs/pyslice.py as CPython's slice semantics (validated exhaustively "
              "on small lists every run), CPython's own list slicing for the 1D arrays (self.data[key]); "
              "step 0 outside; termination not proved")
