"""C05 (bounded emission contract; see bounded/graphprops.py and bounded/emission.py)."""
import sys
from bounded import emission, graphprops

PROP = "C05"
LEVEL = "exploration"
ENGINE = "pyvc+bounded"
HARNESS_MODULES = ['contracts.c04_graph_plumbing', 'contracts.c05_emission']
EXTRA_HARNESSES = [('C04', 'grid_graph'), ('C04', 'graph_add_edge'), ('C04', 'primitive_operands_connected')]
MOD = "props.C05"
instantiate = graphprops.inst_C05
descs = graphprops.descs_C05


def bounded(tier, seed, rep):
    from bounded import leancheck
    leancheck.check(rep, "lean/Encoders.lean", ["C05.enc_iff_spec"])
    emission.run_parallel(rep, PROP, MOD, list(graphprops.with_builds(list(descs(tier)) + graphprops.deep_descs(PROP, tier))))


def replay(payload):
    return emission.replay(sys.modules[__name__], payload)


RULE = ("emission contract evaluated on the real division_connected / _division_connected: labelings R^n (R<=3) of every labelled simple graph n<=4 (quick) / n<=5 (thorough) and grids up to 2x3 / 3x3, x roots lists (None entries, ids / (y,x)) x allow_empty_group x both encodings; every pattern is decided by one z3 query with the "
        "hidden variables existential; plus 'deep' instances too large to enumerate (paths/cycles up to 13 vertices, grids up to "
        "7x5 / 9x6, frames up to 3x3 / 4x3) with structured assignments needing deep rank certificates (all-active paths, snakes, "
        "border-rooted zig-zag diagonal chains, perimeter loops) and their single-variable mutations; every explicit graph also with edges handed to add_edge in the other orientation / mixed / with the Graph object USED once when half built ('grown'); plus history sequences (all "
        "instances again in one process, forwards/backwards, each grid followed by its transpose); distinct = distinct instances")
TECHNIQUE = ("pyvc (proved, all sizes): grid form: (y, x) roots -> vertex ids, inferred grid graph; Graph.add_edge, _grid_graph, native connectivity operand layout (used per label); the encoder itself: bounded stand-in for a contract on the real emitter (precondition / postcondition against a graph "
             "predicate / frame), decided exhaustively inside the stated scope with z3 over the reference semantics "
             "specs/den.py; never counted as proved")
LEVEL_TEXT = ("exploration: the integer/list plumbing around the encoder is proved by pyvc (see technique); the encoder (bounded-exhaustive): the encoder's contract quantifies over all graphs and needs an induction "
              "over graphs about rank certificates that no installed deductive tool can do on the Python text; the same "
              "contract is therefore decided for every small structure and ALL assignments of the caller's variables")
LEVEL_NOTE = ("trusted: specs/den.py, specs/graphpred.py, z3 on the per-pattern queries, documented operand layout of "
              "the native graph operators; labels are IntVars with domain [0,R-1]; the native operator route is judged through specs/den.py's decoding; scope as in coverage.rule")
TRUSTED = ["specs/den.py", "specs/graphpred.py", "z3 (per-pattern satisfiability)", "operand layout of the native graph operators"]
ASSUMPTIONS = ["bounded scope (see rule)", "labels are IntVars with domain [0,R-1]; the native operator route is judged through specs/den.py's decoding"]


# ---- the encoder itself: emission contract on the real emitter (pyvc) + Lean lemma over that contract
TECHNIQUE = ("emission contract + lemma: pyvc proves on the real _division_connected (rank / spanning-forest encoding; allow_empty_group on/off, roots absent / arbitrary list) that, for EVERY graph (ghost incidence lists of any size), it creates "
             "exactly the stated auxiliary variables and posts exactly the stated constraint schema (loop invariants over a ghost record "
             "of every constructed expression and every posted constraint); Lean 4 + Mathlib proves for every finite multigraph that the "
             "schema is satisfiable in the auxiliary variables iff the property's graph predicate holds (C05.enc_iff_spec in lean/Encoders.lean, "
             "re-checked by `lean` on every run: no sorry, axioms propext / Classical.choice / Quot.sound only). "
             + TECHNIQUE)
LEVEL_TEXT = ("exploration overall: the rank / root encoder is PROVED in two machine-checked halves (pyvc emission contract on the real "
              "code, Lean lemma over that contract; the translation between the two is by hand and cross-checked by the bounded tier); "
              "grid form, (y,x) roots and native route: reductions proved by pyvc; end-to-end: bounded. " + LEVEL_TEXT)
ASSUMPTIONS = ASSUMPTIONS + ["hand translation of the pyvc emission schema into the Lean definition `Enc` (cross-checked by the bounded tier on all small multigraphs)",
                             "meaning of the posted expression nodes: per-operator contracts of C01 / C12; loop-free graphs where the lemma asks for it",
                             "Lean 4 kernel + Mathlib"]
