PROP = "C20"
LEVEL = "proof"
ENGINE = "pyvc"
HARNESS_MODULES = ["contracts.c20_config"]
RULE = "native tier: contracts evaluated on the real functions for the listed spellings / importability / environment combinations"
TRUSTED = ["pyvc's model of import (ImportError iff not importable), os.environ.get, str.lower (uninterpreted), string equality",
           "z3 string solver answers unsat correctly"]
ASSUMPTIONS = ["module import has no side effect other than success/ImportError"]
TECHNIQUE = "contract-based deductive verification (pyvc): VCs from the AST of the real configuration/dispatch code over SMT strings and symbolic importability/environment maps, discharged by z3"
LEVEL_TEXT = "proof: decision logic over all strings, all importability combinations and all environments; every obligation discharged"
LEVEL_NOTE = "trusted: the modelling of import, os.environ.get and str.lower; z3"
