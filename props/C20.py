PROP = "C20"
LEVEL = "proof"
ENGINE = "pyvc"
HARNESS_MODULES = ["contracts.c20_config"]
RULE = ("native tier: contracts evaluated on the real functions for the listed spellings / importability / environment combinations; "
        "bounded/routes.py: every emitter with a native and an auxiliary route called on the real library for (argument None/True/False) x "
        "(both configuration flags), the posted constraints inspected for the native operator (never for acyclic connectivity, grid shapes 1xN "
        "/ Nx1 included); entry-point histories: every order of first use of sugar_extended, csugar, enigma_csp, cspuz_core (then sugar, then "
        "the reverse), by argument and through config.default_backend, each order in a freshly imported library, against recording stubs")
TRUSTED = ["pyvc's model of import (ImportError iff not importable), os.environ.get, str.lower (uninterpreted), string equality",
           "z3 string solver answers unsat correctly"]
ASSUMPTIONS = ["module import has no side effect other than success/ImportError"]
TECHNIQUE = "contract-based deductive verification (pyvc): VCs from the AST of the real configuration/dispatch code over SMT strings and symbolic importability/environment maps, discharged by z3 (configuration, dispatch, dispatch histories, route selection of the encoders, pass-through of the flag by the public wrappers in graph / grid / frame form); plus native inspection of the posted encoding and of the external entry point actually called (bounded, cross-check)"
LEVEL_TEXT = "proof: decision logic over all strings, all importability combinations and all environments; every obligation discharged"
LEVEL_NOTE = "trusted: the modelling of import, os.environ.get and str.lower; z3"


def bounded(tier, seed, rep):
    from bounded import routes
    routes.run(rep)
    routes.entry_histories(rep)


def replay(payload):
    from pyvc.runner import Report
    from bounded import routes
    rep = Report("C20", "quick", 0, "proof")
    routes.run(rep)
    routes.entry_histories(rep)
    for v in rep.violations:
        print("still fails:", v["signature"], v["detail"][:200])
    return 1 if rep.violations else 0


RULE = RULE + ("; encoding routes: every emitter with a native and an auxiliary route on the real library x explicit argument None / True / False x the four "
               "configuration-flag combinations, the posted constraints inspected for GRAPH_* operator nodes (bounded/routes.py)")
