PROP = "C20"
LEVEL = "proof"
ENGINE = "pyvc"
HARNESS_MODULES = ["contracts.c20_config"]
RULE = "native tier: contracts evaluated on the real functions for the listed spellings / importability / environment combinations"
TRUSTED = ["pyvc's model of import (ImportError iff not importable), os.environ.get, str.lower (uninterpreted), string equality",
           "z3 string solver answers unsat correctly"]
ASSUMPTIONS = ["module import has no side effect other than success/ImportError"]
TECHNIQUE = "contract-based deductive verification (pyvc): VCs from the AST of the real configuration/dispatch code over SMT strings and symbolic importability/environment maps, discharged by z3"
LEVEL_TEXT = "proof: decision logic over all strings, all importability combinations and all environments; every obligation discharged"
LEVEL_NOTE = "trusted: the modelling of import, os.environ.get and str.lower; z3"


def bounded(tier, seed, rep):
    from bounded import routes
    routes.run(rep)
    routes.entry_histories(rep)


def replay(payload):
    from pyvc.runner import Report
    from bounded import routes
    rep = Report("C20", "quick", 0, "proof")
    routes.run(rep)
    routes.entry_histories(rep)
    for v in rep.violations:
        print("still fails:", v["signature"], v["detail"][:200])
    return 1 if rep.violations else 0


RULE = RULE + ("; encoding routes: every emitter with a native and an auxiliary route on the real library x explicit argument None / True / False x the four "
               "configuration-flag combinations, the posted constraints inspected for GRAPH_* operator nodes (bounded/routes.py)")
