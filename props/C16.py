"""C16 (bounded; see bounded/codecs.py)."""
PROP = "C16"
LEVEL = "exploration"
ENGINE = "pyvc+bounded"
HARNESS_MODULES = ["contracts.c16_url_frame", "contracts.c16_wrappers", "contracts.c16_yajilin_clue", "contracts.c15_leaf_codecs"]       # the leaf codecs every body is made of are proved under C15
EXTRA_HARNESSES = [("C15", "concat_substring_lemma")]      # the string lemma whose instances the yajilin clue harnesses use


def bounded(tier, seed, rep):
    from bounded import codecs
    from contracts import c16_yajilin_clue, c15_leaf_codecs
    rep.coverage["ground_facts_validated_natively"] = (c16_yajilin_clue.digit_facts_validation() + c15_leaf_codecs.facts_validation()
                                                       + c15_leaf_codecs.decimal_facts_validation())
    codecs.run_c16(rep, tier, seed)


def replay(payload):
    from pyvc.runner import Report
    from bounded import codecs
    rep = Report("C16", "quick", 0, "exploration")
    codecs.run_c16(rep, "quick", 0)
    for v in rep.violations:
        print("still fails:", v["signature"], v["detail"][:200])
    return 1 if rep.violations else 0


TRUSTED = ["bounded/codecs.py value generators", "specs/pzpr.py (independent pzpr decoder, validated on the URL/problem pairs recorded in the repository)"]
ASSUMPTIONS = ["bounded scope (see rule)", "unique decodability: a DecInt is never directly followed by digit-leading text, Dict 'after' strings are prefix-free"]
RULE = ("per module (nurikabe, masyu, slitherlink, sudoku, nurimisaki, yajilin incl. ?? and clues >= 16, heyawake, lits, norinori, "
        "compass; producers star_battle, aquarium): seeded random problems on boards 1x1 .. 7x5 (1xN, Nx1, non-square always): "
        "decode(encode(p)) == p with dimensions; the URL carries name/width/height in puzz.link order; the independent pzpr decoder "
        "(when present and validated) reads the same problem; util.encode_array / encode_grid_segmentation produce the same text as "
        "the combinator codecs on identical data")
TECHNIQUE = "pyvc (proved): serialize_problem / deserialize_problem (one combinator call under (height, width), single item) and the serialize_<puzzle> / deserialize_<puzzle> wrappers of nurikabe, nurimisaki, sudoku, slitherlink, masyu, yajilin (same combinator object both ways, pzpr name admitted by the decoder, height = rows, width = first row) ; pyvc (proved): the custom leaf YajilinClue — clues with numbers 0..15 and the unknown clue ?? round-trip with exactly two characters for any surrounding text, the blank .. is refused, the reader answers only on a first character 0..4 with two characters left (numbers >= 16 are the recorded known finding and outside the contract) — with the C15 chain (leaf contracts, step contracts, Lean composition lemmas) the round trip of the first five follows for every board, that of yajilin for every board with clue numbers 0..15; pyvc (proved, all names/sizes/bodies): the URL frame — serialize_problem_as_url = prefix + name + / + WIDTH + / + HEIGHT + / + body, get_puzzle_info_from_url, deserialize_problem_as_url (fields not swapped, allowed_puzzles, allow_failure, return_size order; the compiled pattern by contract, natively the real one); plus round-trip and format contracts on the real URL codecs against three oracles (own decoder, independent pzpr decoder, the other encoder family); bounded"
LEVEL_TEXT = "exploration: the shared URL frame and the wrapper layers are proved, and for nurikabe / nurimisaki / sudoku / slitherlink / masyu, and yajilin boards whose clue numbers are 0..15, the body round trip is carried by C15's lemmas (listed in C15's evidence); agreement with puzz.link's own reader, yajilin clues >= 16 (known finding) / heyawake / lits / norinori / compass bodies and the legacy encoders stay bounded; the puzzle bodies (combinator compositions, legacy encoders) are checked on seeded problems per module and board shape; three oracles"
LEVEL_NOTE = "trusted: specs/pzpr.py as the pzpr format (validated on recorded pairs); generators"
