"""C12: array operators and aggregate helpers have pointwise / mathematical meaning."""
PROP = "C12"
LEVEL = "exploration"
ENGINE = "pyvc+bounded"
HARNESS_MODULES = ["contracts.c12_elementwise", "contracts.c12_helpers"]


def bounded(tier, seed, rep):
    from bounded import arrays
    arrays.run(rep, tier, seed)


def replay(payload):
    from bounded import arrays
    return arrays.replay(payload)


RULE = ("every operator form (+ - < <= > >= & | ^ == != then cond, unary ~ -; methods and the functions constraints.then/cond) "
        "x every operand-kind pair/triple out of 9 kinds (bool/int variable, compound expression, bool/int literal, Bool/Int "
        "array) x shapes (0,) (1,) (3,) (0,3) (1,1) (1,3) (3,1) (2,2) (2,3) plus shape mismatches: a well-kinded, well-shaped "
        "call must return an array of that shape and class whose element i evaluates to A[i] op B[i] under EVERY assignment; "
        "anything else must raise; helpers on seeded nestings (lists, tuples, generators, arrays, literals; depth <= 3); conv2d "
        "windows and four_neighbors on shapes up to 3x3 incl. empty; distinct = distinct cases")
TECHNIQUE = "contracts on the real array operators/helpers (pointwise denotation under the reference semantics, rejection of ill-kinded operands) evaluated exhaustively over the finite operator x kind x shape matrix; bounded"
LEVEL_TEXT = "exploration: the operator/kind matrix is finite and enumerated completely for the listed shapes; values are compared under all assignments; helpers over nestings are sampled"
LEVEL_NOTE = "trusted: specs/den.py; ==/!= with operands of different value kinds are outside the rejection clause (Python identity fallback)"
TRUSTED = ["specs/den.py"]
ASSUMPTIONS = ["shapes up to 2x3", "helper nestings are seeded samples"]
