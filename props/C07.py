"""C07 (bounded emission contract; see bounded/graphprops.py and bounded/emission.py)."""
import sys
from bounded import emission, graphprops

PROP = "C07"
LEVEL = "exploration"
ENGINE = "pyvc+bounded"
HARNESS_MODULES = ['contracts.c04_graph_plumbing', 'contracts.c14_grid_frame', 'contracts.c07_emission']
EXTRA_HARNESSES = [('C04', 'graph_add_edge'), ('C04', 'grid_graph'), ('C14', 'from_grid_frame')]
MOD = "props.C07"
instantiate = graphprops.inst_C07
descs = graphprops.descs_C07


def bounded(tier, seed, rep):
    from bounded import leancheck
    leancheck.check(rep, "lean/Encoders.lean", ["C07.enc_iff_plain", "C07.enc_iff_sized", "C07.enc_iff_borders"])
    emission.run_parallel(rep, PROP, MOD, list(graphprops.with_builds(list(descs(tier)) + graphprops.deep_descs(PROP, tier))))


def replay(payload):
    return emission.replay(sys.modules[__name__], payload)


RULE = ("emission contract evaluated on the real division_connected_variable_groups(_with_borders) and their workers, BoolInnerGridFrame.dual on the grid route: every set partition (Bell(n)) of every simple graph n<=4 (5) x group_size forms (None, constant, IntVar, per-vertex list with None holes); with borders: all 2^m border patterns, native graph-division on/off; grids up to 2x2 / 2x3; every pattern is decided by one z3 query with the "
        "hidden variables existential; plus 'deep' instances too large to enumerate (paths/cycles up to 13 vertices, grids up to "
        "7x5 / 9x6, frames up to 3x3 / 4x3) with structured assignments needing deep rank certificates (all-active paths, snakes, "
        "border-rooted zig-zag diagonal chains, perimeter loops) and their single-variable mutations; every explicit graph also with edges handed to add_edge in the other orientation / mixed / with the Graph object USED once when half built ('grown'); plus history sequences (all "
        "instances again in one process, forwards/backwards, each grid followed by its transpose); distinct = distinct instances")
TECHNIQUE = ("pyvc (proved, all sizes): operand layout and size checks of the native graph-division operator; Graph.add_edge, _grid_graph, _from_grid_frame (dualised inner frame); the encoder itself: bounded stand-in for a contract on the real emitter (precondition / postcondition against a graph "
             "predicate / frame), decided exhaustively inside the stated scope with z3 over the reference semantics "
             "specs/den.py; never counted as proved")
LEVEL_TEXT = ("exploration: the integer/list plumbing around the encoder is proved by pyvc (see technique); the encoder (bounded-exhaustive): the encoder's contract quantifies over all graphs and needs an induction "
              "over graphs about rank certificates that no installed deductive tool can do on the Python text; the same "
              "contract is therefore decided for every small structure and ALL assignments of the caller's variables")
LEVEL_NOTE = ("trusted: specs/den.py, specs/graphpred.py, z3 on the per-pattern queries, documented operand layout of "
              "the native graph operators; realisable partition = the returned group ids are equal exactly within blocks (ghost pattern over the returned variables); scope as in coverage.rule")
TRUSTED = ["specs/den.py", "specs/graphpred.py", "z3 (per-pattern satisfiability)", "operand layout of the native graph operators"]
ASSUMPTIONS = ["bounded scope (see rule)", "realisable partition = the returned group ids are equal exactly within blocks (ghost pattern over the returned variables)"]


# ---- the encoder itself: emission contract on the real emitter (pyvc) + Lean lemma over that contract
TECHNIQUE = ("emission contract + lemma: pyvc proves on the real _division_connected_variable_groups (group_size None / integer / per-vertex list with holes) and the constraint added by _with_borders that, for EVERY graph (ghost incidence lists of any size), it creates "
             "exactly the stated auxiliary variables and posts exactly the stated constraint schema (loop invariants over a ghost record "
             "of every constructed expression and every posted constraint); Lean 4 + Mathlib proves for every finite multigraph that the "
             "schema is satisfiable in the auxiliary variables iff the property's graph predicate holds (C07.enc_iff_plain, C07.enc_iff_sized, C07.enc_iff_borders in lean/Encoders.lean, "
             "re-checked by `lean` on every run: no sorry, axioms propext / Classical.choice / Quot.sound only). "
             + TECHNIQUE)
LEVEL_TEXT = ("exploration overall: the rank / root encoder is PROVED in two machine-checked halves (pyvc emission contract on the real "
              "code, Lean lemma over that contract; the translation between the two is by hand and cross-checked by the bounded tier); "
              "IntArray1D / IntExpr sizes, grid forms, native graph-division operator: plumbing proved by pyvc, otherwise bounded. " + LEVEL_TEXT)
ASSUMPTIONS = ASSUMPTIONS + ["hand translation of the pyvc emission schema into the Lean definition `Enc` (cross-checked by the bounded tier on all small multigraphs)",
                             "meaning of the posted expression nodes: per-operator contracts of C01 / C12; loop-free graphs where the lemma asks for it",
                             "Lean 4 kernel + Mathlib"]
