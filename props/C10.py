"""C10 (bounded emission contract; see bounded/graphprops.py and bounded/emission.py)."""
import sys
from bounded import emission, graphprops

PROP = "C10"
LEVEL = "exploration"
ENGINE = "pyvc+bounded"
HARNESS_MODULES = ['contracts.c04_graph_plumbing', 'contracts.c10_emission']
EXTRA_HARNESSES = [('C04', 'graph_add_edge')]
MOD = "props.C10"
instantiate = graphprops.inst_C10
descs = graphprops.descs_C10


def bounded(tier, seed, rep):
    from bounded import leancheck
    leancheck.check(rep, "lean/Crossable.lean", ["C10.enc_iff_strand", "C10.flags_determined"])
    leancheck.check(rep, "lean/Encoders.lean", ["C04.enc_iff_connected"])
    emission.run_parallel(rep, PROP, MOD, list(descs(tier)) + graphprops.deep_descs(PROP, tier))


def replay(payload):
    return emission.replay(sys.modules[__name__], payload)


RULE = ("emission contract evaluated on the real active_edges_connected_crossable, active_edges_single_cycle_crossable, BoolGridFrame.vertex_neighbors: all segment subsets of frames 0x0..2x2 (quick), up to 2x3/3x2 (131072 subsets each, thorough) x single_cycle x both encodings; returned is_passed/is_cross compared in every model; every pattern is decided by one z3 query with the "
        "hidden variables existential; plus 'deep' instances too large to enumerate (paths/cycles up to 13 vertices, grids up to "
        "7x5 / 9x6, frames up to 3x3 / 4x3) with structured assignments needing deep rank certificates (all-active paths, snakes, "
        "border-rooted zig-zag diagonal chains, perimeter loops) and their single-variable mutations; plus history sequences (all "
        "instances again in one process, forwards/backwards, each grid followed by its transpose); distinct = distinct instances")
TECHNIQUE = ("pyvc (proved, all sizes): auxiliary graph of the crossable constraint: 3 nodes per lattice point + 1 per segment, adjacency of each segment to the plain and matching pass-through halves of its end points, aligned activity list (structural); Graph.add_edge; the encoder itself: bounded stand-in for a contract on the real emitter (precondition / postcondition against a graph "
             "predicate / frame), decided exhaustively inside the stated scope with z3 over the reference semantics "
             "specs/den.py; never counted as proved")
LEVEL_TEXT = ("exploration: the integer/list plumbing around the encoder is proved by pyvc (see technique); the encoder (bounded-exhaustive): the encoder's contract quantifies over all graphs and needs an induction "
              "over graphs about rank certificates that no installed deductive tool can do on the Python text; the same "
              "contract is therefore decided for every small structure and ALL assignments of the caller's variables")
LEVEL_NOTE = ("trusted: specs/den.py, specs/graphpred.py, z3 on the per-pattern queries, documented operand layout of "
              "the native graph operators; strand semantics as in the statement: straight pairs pass through each other at a 4-way point; scope as in coverage.rule")
TRUSTED = ["specs/den.py", "specs/graphpred.py", "z3 (per-pattern satisfiability)", "operand layout of the native graph operators"]
ASSUMPTIONS = ["bounded scope (see rule)", "strand semantics as in the statement: straight pairs pass through each other at a 4-way point"]


# ---- emission contracts (pyvc) + Lean lemma over them
TECHNIQUE = ("emission contracts + lemma: pyvc proves on the real active_edges_connected_crossable, for every frame size and both values of "
             "single_cycle, that it posts exactly the degree rules per lattice point, the four array-wise flag definitions "
             "(contracts/c10_emission.py) and hands the stated auxiliary graph with the aligned activity list to the connectivity "
             "constraint (crossable_aux_graph); Lean 4 + Mathlib proves over an abstract frame (points, segments with two ends and a "
             "direction, border points, the two lattice facts) that such flags exist iff the degrees are 0/1/2/4 (0/2/4 for a cycle, 4 "
             "never on the border) and the active segments form one strand, and that the flags are then determined "
             "(C10.enc_iff_strand, C10.flags_determined in lean/Crossable.lean; the connectivity constraint itself is "
             "C04.enc_iff_connected); re-checked by `lean` on every run. " + TECHNIQUE)
LEVEL_TEXT = ("exploration overall: the crossable constraint is PROVED in machine-checked pieces (two pyvc emission contracts on the real "
              "code, the Lean lemma over them, C04's lemma for the connectivity constraint); the translation between them (node "
              "numbering -> abstract nodes, vertex_neighbors -> segments at a point) is by hand and cross-checked by the bounded tier; the "
              "native route and the end-to-end statement stay bounded. " + LEVEL_TEXT)
ASSUMPTIONS = ASSUMPTIONS + ["hand translation of the two emission contracts into the abstract frame of lean/Crossable.lean (cross-checked by the bounded tier)",
                             "lattice geometry: at most two segments of either direction at a point, at most three at a border point (C14 accessor contracts)",
                             "Lean 4 kernel + Mathlib"]
