"""C15 (bounded; see bounded/codecs.py)."""
PROP = "C15"
LEVEL = "exploration"
ENGINE = "pyvc+bounded"
HARNESS_MODULES = ["contracts.c15_leaf_codecs", "contracts.c15_combinators", "contracts.c16_wrappers", "contracts.c16_yajilin_clue"]
EXTRA_HARNESSES = [("C16", "serialize_problem_contract"), ("C16", "deserialize_problem_contract"),
                   ("C16", "yajilin_clue_roundtrip"), ("C16", "yajilin_clue_specials"), ("C16", "yajilin_clue_accepts_only")]


def bounded(tier, seed, rep):
    from bounded import codecs
    codecs.run_c15(rep, tier, seed)


def replay(payload):
    from pyvc.runner import Report
    from bounded import codecs
    rep = Report("C15", "quick", 0, "exploration")
    codecs.run_c15(rep, "quick", 0)
    for v in rep.violations:
        print("still fails:", v["signature"], v["detail"][:200])
    return 1 if rep.violations else 0


TRUSTED = ["bounded/codecs.py value generators", "specs/pzpr.py (independent pzpr decoder, validated on the URL/problem pairs recorded in the repository)"]
ASSUMPTIONS = ["bounded scope (see rule)", "unique decodability: a DecInt is never directly followed by digit-leading text, Dict 'after' strings are prefix-free"]
RULE = ("13 OneOf compositions with pairwise disjoint leading characters (incl. the ones used by the puzzle modules) inside "
        "Grid (implicit and explicit dimensions), Seq, Tupl with FixStr/DecInt, Seq of Tupl; boards 1x1 .. 6x7 incl. 1xN and Nx1 "
        "and 1x40; values type-directed with boundary values (15/16/255/256/4095, runs across the one-character limit, partial "
        "digit groups), each with and without surrounding text; Rooms/ValuedRooms: EVERY partition of boards with <= 6 (9) cells "
        "into connected rooms, all room orders for <= 4 cells, shuffled rooms and cells beyond; distinct = (term, board, value)")
TECHNIQUE = "round-trip contract (deserialize(serialize(v)) == (len, v), canonical order for rooms) evaluated on the real combinators over generated terms and type-directed values; bounded"
LEVEL_TEXT = "exploration: the composite-combinator induction over decoder loops and strings is outside the installed solvers' reach; round trips are checked over generated terms and values, exhaustive for room partitions of small boards"
LEVEL_NOTE = "trusted: the generators; scope as in the rule"


_bounded0 = bounded


PUZZLE_COMBINATORS = [("nurikabe", "NURIKABE_COMBINATOR"), ("nurimisaki", "NURIMISAKI_COMBINATOR"), ("sudoku", "SUDOKU_COMBINATOR"),
                      ("slitherlink", "SLITHERLINK_COMBINATOR"), ("masyu", "MASYU_COMBINATOR"), ("yajilin", "YAJILIN_COMBINATOR"),
                      ("heyawake", "HEYAWAKE_COMBINATOR"), ("lits", "LITS_COMBINATOR"), ("norinori", "NORINORI_COMBINATOR")]


def bounded(tier, seed, rep):
    import importlib
    from contracts import c15_leaf_codecs, c15_combinators
    from bounded import leancheck
    from bounded.common import load_repo
    rep.coverage["ground_facts_validated_natively"] = c15_leaf_codecs.facts_validation() + c15_leaf_codecs.leading_class_validation() + c15_leaf_codecs.decimal_facts_validation()
    leancheck.check(rep, "lean/Codecs.lean", ["C15.oneOf_RTg", "C15.oneOf_Lead", "C15.seq_RT", "C15.tupl_RT", "C15.grid_RT",
                                               "C15.rowsOf_get", "C15.grid_oneOf_RT", "C15.problem_roundtrip"])
    load_repo()
    ps = importlib.import_module("cspuz.problem_serializer")
    named = []
    for mod, attr_ in PUZZLE_COMBINATORS:
        try:
            named.append((mod, getattr(importlib.import_module("cspuz.puzzle." + mod), attr_)))
        except Exception as e:          # a codec that moved is simply not in the list of covered instances
            rep.coverage.setdefault("instances_not_found", []).append("%s.%s: %s" % (mod, attr_, type(e).__name__))
    rep.coverage["puzzle_codecs_carried_by_the_lemmas"] = c15_combinators.instance_coverage(ps, named)
    _bounded0(tier, seed, rep)


LEVEL_TEXT = ("exploration overall. Proved without bound: (1) pyvc, leaves: HexInt, Spaces, IntSpaces, MultiDigit (7 base/digit "
              "configurations), Dict, FixStr round-trip for ALL values, ALL positions in the data and ALL surrounding text "
              "(pre + s + rest; MultiDigit up to zero padding after the last item), refuse the end of the text and accept only "
              "first characters of their class; (2) pyvc, step contracts: OneOf / Seq / Tupl / Grid compute exactly the result "
              "relations First / SeqSer / SeqDes / TuplSer / TuplDes / grid+rowsOf from arbitrary components; (3) Lean 4: those "
              "relations carry the round trip to every nesting (oneOf_RTg, oneOf_Lead, seq_RT, tupl_RT, grid_RT, grid_oneOf_RT, "
              "problem_roundtrip). Covered instances are listed in the evidence (coverage.puzzle_codecs_carried_by_the_lemmas). "
              "DecInt (greedy digit run; str(int)/int(str)/isdigit uninterpreted with sampled ground facts) is a proved leaf as well. Not proved: Rooms / ValuedRooms (flood fill, sorting), custom leaves (YajilinClue), the translation "
              "from the step contracts to the Lean relations; these stay bounded / assumed, hence not 'proof'")
TECHNIQUE = ("pyvc: leaf codec round-trip and leading-character contracts over SMT strings (loop invariants with quantifiers, "
             "callee contract for _to_base36, ground facts about hex()/int() validated natively); pyvc: step contracts of the "
             "composite combinators over arbitrary (ghost) components; Lean 4 + Mathlib: composition lemmas over the result "
             "relations (lean/Codecs.lean, re-checked on every run); native: disjointness of the leading classes of the puzzle "
             "codecs' alternatives (all character codes); bounded: generated terms and type-directed values")
ASSUMPTIONS = ASSUMPTIONS + ["component combinators answer as functions of their arguments (no state between calls); the bounded tier runs shared instances across boards for this",
                             "hand translation of the pyvc step contracts into the inductive relations of lean/Codecs.lean",
                             "Lean 4 kernel + Mathlib (axioms propext, Classical.choice, Quot.sound only)"]
