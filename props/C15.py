"""C15 (bounded; see bounded/codecs.py)."""
PROP = "C15"
LEVEL = "exploration"
ENGINE = "pyvc+bounded"
HARNESS_MODULES = ["contracts.c15_leaf_codecs"]


def bounded(tier, seed, rep):
    from bounded import codecs
    codecs.run_c15(rep, tier, seed)


def replay(payload):
    from pyvc.runner import Report
    from bounded import codecs
    rep = Report("C15", "quick", 0, "exploration")
    codecs.run_c15(rep, "quick", 0)
    for v in rep.violations:
        print("still fails:", v["signature"], v["detail"][:200])
    return 1 if rep.violations else 0


TRUSTED = ["bounded/codecs.py value generators", "specs/pzpr.py (independent pzpr decoder, validated on the URL/problem pairs recorded in the repository)"]
ASSUMPTIONS = ["bounded scope (see rule)", "unique decodability: a DecInt is never directly followed by digit-leading text, Dict 'after' strings are prefix-free"]
RULE = ("13 OneOf compositions with pairwise disjoint leading characters (incl. the ones used by the puzzle modules) inside "
        "Grid (implicit and explicit dimensions), Seq, Tupl with FixStr/DecInt, Seq of Tupl; boards 1x1 .. 6x7 incl. 1xN and Nx1 "
        "and 1x40; values type-directed with boundary values (15/16/255/256/4095, runs across the one-character limit, partial "
        "digit groups), each with and without surrounding text; Rooms/ValuedRooms: EVERY partition of boards with <= 6 (9) cells "
        "into connected rooms, all room orders for <= 4 cells, shuffled rooms and cells beyond; distinct = (term, board, value)")
TECHNIQUE = "round-trip contract (deserialize(serialize(v)) == (len, v), canonical order for rooms) evaluated on the real combinators over generated terms and type-directed values; bounded"
LEVEL_TEXT = "exploration: the composite-combinator induction over decoder loops and strings is outside the installed solvers' reach; round trips are checked over generated terms and values, exhaustive for room partitions of small boards"
LEVEL_NOTE = "trusted: the generators; scope as in the rule"


_bounded0 = bounded


def bounded(tier, seed, rep):
    from contracts import c15_leaf_codecs
    rep.coverage["ground_facts_validated_natively"] = c15_leaf_codecs.facts_validation()
    _bounded0(tier, seed, rep)


LEVEL_TEXT = ("exploration overall. Proved without bound (pyvc): HexInt, Spaces, IntSpaces, MultiDigit (7 base/digit configurations) "
              "round-trip for ALL values, ALL positions in the data and ALL surrounding text (pre + s + rest), _to_base36 on its "
              "one-digit range; the composite combinators (OneOf/Tupl/Seq/Grid), DecInt, Dict/FixStr, Rooms/ValuedRooms are bounded")
TECHNIQUE = ("pyvc: leaf codec round-trip contracts over SMT strings (loop invariants with quantifiers, callee contract for "
             "_to_base36, ground facts about hex()/int() validated natively); bounded: generated terms and type-directed values")
