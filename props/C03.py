"""C03 (bounded): Sugar-family back ends — emitted CSP text and parsed replies are faithful."""
PROP = "C03"
LEVEL = "exploration"
ENGINE = "pyvc+bounded"
HARNESS_MODULES = ["contracts.c03_sugar"]


def bounded(tier, seed, rep):
    from bounded import sugar
    sugar.run_c03(rep, tier, seed)


def replay(payload):
    from pyvc.runner import Report
    from bounded import sugar
    rep = Report("C03", "quick", 0, "exploration")
    sugar.run_c03(rep, "quick", 0)
    for v in rep.violations:
        print("still fails:", v["signature"], v["detail"][:200])
    return 1 if rep.violations else 0


RULE = ("the five real back-end classes are run end to end against stub external solvers that implement the wire protocol of "
        "CspuzSugarInterface.java by brute force (stubs/, specs/sugar_ref.py): generated programs (C01 generator, depth <= 2) "
        "and programs with the two native graph operators, plus wide programs of 1023 .. 4100 variables (declarations and key line only), answer-finder mode and deduction mode with random / full key sets; "
        "every description received is parsed by the reference parser and compared with the Solver (declarations, domains, "
        "per-constraint denotation under ALL assignments, key line, entry point); plus crafted reply texts (all listed value "
        "combinations, line orders, decided-key subsets) for each back end; distinct = distinct (program, back end, mode)")
TECHNIQUE = "pyvc: per-operator printer contract of _convert_expr/_convert_variable, description assembly, key line and reply-table contracts of SugarLikeBackend discharged by z3 (proved, all inputs); plus contracts on the real SugarLikeBackend classes (emitted text denotes the program; replies are reflected into sol) evaluated end to end against a reference implementation of the protocol; bounded"
LEVEL_TEXT = ("exploration: the printer, declaration, description-assembly, key-line and reply-parsing contracts of sugar_like.py are proved by pyvc for all inputs; that the printed text DENOTES the constraint rests on the Sugar reference semantics and is bounded; the real external solvers are not available offline and their correctness is outside the property; "
              "cspuz's half (text emission, key line, entry point, reply parsing) is checked against the reference parser/printer on "
              "generated programs and crafted replies")
LEVEL_NOTE = "trusted: specs/sugar_ref.py as the Sugar surface syntax and the Java reply formats (cannot be checked against real Sugar offline); specs/den.py"
TRUSTED = ["specs/sugar_ref.py", "specs/den.py", "operand layout of the native graph operators"]
ASSUMPTIONS = ["the external solver is correct (replaced by a brute-force reference solver)"]
