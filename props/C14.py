PROP = "C14"
LEVEL = "proof"
ENGINE = "pyvc"
HARNESS_MODULES = ["contracts.c14_grid_frame"]
RULE = "native tier: read sequences of three frame[Y, X] on one frame (1x1, 1x2, 2x1; every coordinate on, beside and beyond the doubled lattice) against a fresh frame over the same arrays; the same contracts evaluated on the real BoolGridFrame for all h, w <= 3 and all coordinates in [-3, 2h+3] x [-3, 2w+3] (identity of the returned variables against the ghost geometry, exception types, dual of dual, edge/endpoint pairs of _from_grid_frame incl. every segment exactly once)"
TRUSTED = ["pyvc model of Python (ints, tuples, lists, objects)", "contract of BoolArray2D.__getitem__ for (int, int) keys (proved under C13)", "z3"]
ASSUMPTIONS = ["frames whose two arrays have the shapes (h+1, w) and (h, w+1) (the constructor's default arrays are under contract: default_arrays; explicit arrays of other shapes are outside)",
               "'every segment occurs exactly once' in _from_grid_frame is proved as a count plus per-edge correctness; injectivity of the index formulas is checked in the bounded native tier only"]
TECHNIQUE = "contract-based deductive verification (pyvc): accessors against a ghost geometric model, array reads through the proved contract of BoolArray2D.__getitem__, nested loops of _from_grid_frame with counting invariants and append-site obligations; z3"
LEVEL_TEXT = "proof: every accessor clause is a discharged postcondition for all frame sizes and coordinates; _from_grid_frame: per-edge consistency and the edge count are proved, injectivity ('exactly once') bounded"
LEVEL_NOTE = "trusted: pyvc's Python model, the C13 contract of array indexing, z3; frames with explicit arrays of other shapes are outside"


def bounded(tier, seed, rep):
    from bounded import framehist
    framehist.run(rep, tier)


def replay(payload):
    from bounded import framehist
    return framehist.replay(payload)
