"""C11 driver (bounded): real solve_<puzzle> vs. an independent rule checker on small boards.

Oracle module interface (specs/rules/<name>.py):
    MODULE   = "cspuz.puzzle.<module>"            module holding the real solver
    def instances(tier, rnd):  yield JSON-able instance descriptions (dicts), small boards
    def run_real(mod, inst):   call the real solver; return (is_sat, {key: value-or-None}) where the
                               dict lists EVERY answer cell the solver reports (value = its .sol)
    def solutions(inst):       list of all rule-obeying answers, each {key: value} over the same keys,
                               computed by brute force from the published rules (never calls cspuz)
    EXAMPLES = [(inst, {key: value})]   known instance(s) with their unique solution (from the
                               module's _main / tests / bench), used to validate the oracle first
    def classify(inst): short string naming the kind of instance (for violation signatures)
Keys must be JSON-able after str().  An oracle that fails its EXAMPLES blocks its puzzle (exit 3
for that puzzle), it is never reported as a violation.
"""
import importlib
import json
import random
import traceback

from .common import load_repo

ALL = ["sudoku", "slitherlink", "masyu", "yajilin", "nurikabe", "heyawake", "akari", "norinori", "lits",
       "star_battle", "fillomino", "nurimisaki", "yinyang", "creek", "gokigen", "aquarium", "building",
       "doppelblock", "putteria", "simpleloop", "geradeweg", "compass", "fivecells", "view", "castle_wall",
       "shakashaka"]


TIME_LIMIT = 90


def expected_from(sols):
    if not sols:
        return False, {}
    keys = sols[0].keys()
    dec = {}
    for k in keys:
        vals = {s[k] for s in sols}
        dec[k] = next(iter(vals)) if len(vals) == 1 else None
    return True, dec


def compare(oracle, mod, inst):
    """returns None if the real solver agrees with the oracle, else a dict describing the mismatch"""
    if hasattr(oracle, "ambiguous") and oracle.ambiguous(inst):
        return None
    if "_witness" in inst:
        # a board too large for the brute-force oracle, derived from a known rule-obeying answer (checked by the oracle's
        # own rule checker): the solver must report a solution, and no decided cell may contradict the witness
        wit = inst["_witness"]
        clean = {k: v for k, v in inst.items() if k != "_witness"}
        if not oracle.obeys(clean, wit):
            raise AssertionError("witness does not obey the rules: %s" % json.dumps(clean)[:200])
        try:
            is_sat, got = oracle.run_real(mod, clean)
        except Exception as e:
            return dict(kind="exception:%s" % type(e).__name__, detail="%s: %s" % (type(e).__name__, e), expected_sat=True)
        if not is_sat:
            return dict(kind="sat-mismatch", detail="solver says no solution, but a rule-obeying grid exists (witness)",
                        example_solution={str(k): v for k, v in wit.items()})
        bad = [(str(k), v, wit[str(k)]) for k, v in got.items() if v is not None and str(k) in wit and v != wit[str(k)]]
        if bad:
            return dict(kind="decided-cells", detail="cells decided against a rule-obeying grid (key, solver, witness): %s" % bad[:6])
        return None
    try:
        is_sat, got = oracle.run_real(mod, inst)
    except Exception as e:
        sols = oracle.solutions(inst)
        return dict(kind="exception:%s" % type(e).__name__, detail="%s: %s" % (type(e).__name__, e),
                    expected_sat=bool(sols))
    sols = oracle.solutions(inst)
    exp_sat, exp = expected_from(sols)
    if bool(is_sat) != exp_sat:
        return dict(kind="sat-mismatch", detail="solver says %s, %d rule-obeying grids exist" % (bool(is_sat), len(sols)),
                    example_solution={str(k): v for k, v in (sols[0].items() if sols else [])})
    if not exp_sat:
        return None
    got = {k: v for k, v in got.items()}
    if set(map(str, got)) != set(map(str, exp)):
        return dict(kind="answer-keys", detail="solver reports cells %s, oracle %s" % (sorted(map(str, got))[:6], sorted(map(str, exp))[:6]))
    bad = [(str(k), got[k], exp[k]) for k in exp if got[k] != exp[k]]
    if bad:
        return dict(kind="decided-cells", detail="cells (key, solver, all-solutions-agree-on): %s; %d solutions" % (bad[:6], len(sols)))
    return None


# ------------------------------------------------------------------ posted-program check (large boards)
class _Tag:
    def __init__(self, i):
        self.i = i


def probe_program(oracle, mod, inst):
    """run the real solve_<puzzle> with the module's Solver replaced by a subclass whose solve() does not
    solve: it keeps the posted program and tags every variable's .sol, so the oracle's run_real returns
    {oracle key: tag} = which solver variable carries which answer cell"""
    real = mod.Solver
    holder = {}

    class Probe(real):
        def solve(self_, *a, **k):
            holder["s"] = self_
            for v in self_.variables:
                v.sol = _Tag(v.id)
            return True

    mod.Solver = Probe
    try:
        is_sat, got = oracle.run_real(mod, inst)
    finally:
        mod.Solver = real
    s = holder["s"]
    keymap = {}
    for k, t in got.items():
        if not isinstance(t, _Tag):
            raise RuntimeError("answer cell %r is not read from a solver variable" % (k,))
        keymap[k] = t.i
    return s, keymap


def program_check(oracle, mod, inst, cands):
    """cands: [(grid {key: value}, obeys: bool, label)] judged by the oracle's own rule checker.  Each grid is
    substituted for the answer variables of the posted program (other variables existential, decided by z3 with
    the reference semantics specs/den.py); acceptance must equal `obeys`.  Instances come with at most one
    rule-obeying grid by construction, so any disagreement is visible in (is_sat, decided cells)."""
    import z3
    from specs import den
    s, keymap = probe_program(oracle, mod, inst)
    zv, bounds = den.declare(s.variables)
    z = z3.Solver()
    z.set("timeout", 20000)
    z.add(bounds)
    for c in s.constraints:
        z.add(den.tz(c, zv))
    not_key = [k for k, i in keymap.items() if not s.is_answer_key[i]]
    if not_key:
        return [dict(kind="program:answer-cell-not-an-answer-key", detail="cells %s are read from variables that were not registered as answer keys" % not_key[:4], label="keys")], 0
    out = []
    unknown = 0
    for grid, obeys, label in cands:
        z.push()
        for k, v in grid.items():
            var = zv[keymap[k]]
            z.add(var == (z3.BoolVal(v) if isinstance(v, bool) else z3.IntVal(v)))
        r = z.check()
        z.pop()
        if r == z3.unknown:
            unknown += 1
            continue
        acc = r == z3.sat
        if acc != obeys:
            out.append(dict(kind="program:%s" % ("accepts-rule-breaking-grid" if acc else "rejects-rule-obeying-grid"), label=label,
                            detail="the posted constraint program %s a grid that %s the rules (%s)" % (
                                "accepts" if acc else "rejects", "obeys" if obeys else "breaks", label),
                            grid={str(k): v for k, v in grid.items()}))
    return out, unknown


def _large_worker(args):
    name, idx, tier, seed = args
    out = dict(name=name, n=0, cands=0, mismatches=[], crash=None, unknown=0)
    try:
        load_repo()
        oracle = importlib.import_module("specs.rules." + name)
        mod = importlib.import_module(oracle.MODULE)
        for j, (inst, cands) in enumerate(oracle.large_instances(tier, random.Random(seed * 7919 + 13))):
            if j % LARGE_SPLIT != idx:
                continue
            out["n"] += 1
            out["cands"] += len(cands)
            try:
                mms, unk = program_check(oracle, mod, inst, cands)
            except Exception as e:
                mms, unk = [dict(kind="program:exception:%s" % type(e).__name__, label="probe", detail="%s: %s" % (type(e).__name__, e))], 0
            out["unknown"] += unk
            for mm in mms:
                mm["inst"] = inst
                mm["cls"] = (oracle.classify(inst) if hasattr(oracle, "classify") else "any") + ":" + mm["label"].split("#")[0]
                if len(out["mismatches"]) < 20:
                    out["mismatches"].append(mm)
    except Exception:
        out["crash"] = traceback.format_exc()[-2000:]
    return out


LARGE_SPLIT = 4


def _inplace(old, new):
    """make `old` (a caller-owned list, possibly nested) hold the contents of `new` WITHOUT creating a new list
    object wherever the old one is a list too: the caller edits its problem in place between two calls"""
    if isinstance(old, list) and isinstance(new, list):
        items = []
        for i, n in enumerate(new):
            items.append(_inplace(old[i], n) if i < len(old) else n)
        old[:] = items
        return old
    return new


class _ReusingCaller:
    """wraps the module's solve_* functions for the history pass: every call passes the SAME argument objects
    as the previous call of that function, edited in place to the new problem"""

    def __init__(self, mod):
        self.mod = mod
        self.saved = {}
        self.last = {}

    def __enter__(self):
        import types
        for nm, f in list(vars(self.mod).items()):
            if nm.startswith("solve_") and isinstance(f, types.FunctionType):
                self.saved[nm] = f
                setattr(self.mod, nm, self._wrap(nm, f))
        return self

    def _wrap(self, nm, f):
        def g(*args, **kw):
            prev = self.last.get((nm, len(args)))
            if prev is not None:
                args = tuple(_inplace(o, n) for o, n in zip(prev, args))
            self.last[(nm, len(args))] = args
            return f(*args, **kw)
        return g

    def __exit__(self, *a):
        for nm, f in self.saved.items():
            setattr(self.mod, nm, f)
        return False


def _history_sample(insts, per_shape):
    """instances for the history pass: boards of one size and argument form next to each other"""
    def shape(i):
        if not isinstance(i, dict):
            return ""
        return json.dumps([i.get(k) for k in ("height", "width", "h", "w", "size", "n")] + sorted(k for k in i if isinstance(i[k], list)), default=str)
    groups = {}
    for i in insts:
        groups.setdefault(shape(i), []).append(i)
    out = []
    for k in sorted(groups):
        g = groups[k]
        if len(g) >= 2:
            out += g[:: max(1, len(g) // per_shape)][:per_shape]
    return out


def _worker(args):
    name, insts = args[0], args[1]
    out = dict(name=name, n=0, mismatches=[], crash=None, nontrivial=0, timeouts=[])
    try:
        import warnings
        warnings.simplefilter("ignore")
        load_repo()
        oracle = importlib.import_module("specs.rules." + name)
        mod = importlib.import_module(oracle.MODULE)
        import signal

        class _TimeLimit(BaseException):
            pass

        def _alarm(sig, frm):
            raise _TimeLimit()

        signal.signal(signal.SIGALRM, _alarm)
        for inst in insts:
            out["n"] += 1
            # wall-clock budget per instance (solver and oracle together); exceeding it is UNDECIDED, never
            # a violation -- the instances are sized so that the unchanged tree needs a small fraction of it
            signal.setitimer(signal.ITIMER_REAL, TIME_LIMIT)
            try:
                mm = compare(oracle, mod, inst)
            except _TimeLimit:
                out["timeouts"].append(json.dumps(inst)[:160])
                continue
            finally:
                signal.setitimer(signal.ITIMER_REAL, 0)
            if mm is not None and len(out["mismatches"]) < 20:
                mm["inst"] = inst
                mm["cls"] = oracle.classify(inst) if hasattr(oracle, "classify") else "any"
                out["mismatches"].append(mm)
        # history pass: the same instances again (a sample), now through a caller that keeps its argument
        # lists and edits them in place between the calls; the answers must not depend on that
        hist = args[2] if len(args) > 2 else []
        if len(hist) >= 2 and not out["mismatches"]:
            # only a mismatch that is specific to the history counts here: instances on which the solver
            # disagrees with the oracle when asked afresh (before any history call) are left to the main pass
            fails_fresh = set()
            for inst in hist:
                signal.setitimer(signal.ITIMER_REAL, TIME_LIMIT)
                try:
                    if compare(oracle, mod, inst) is not None:
                        fails_fresh.add(json.dumps(inst, sort_keys=True))
                except _TimeLimit:
                    fails_fresh.add(json.dumps(inst, sort_keys=True))
                finally:
                    signal.setitimer(signal.ITIMER_REAL, 0)
            hist = [i for i in hist if json.dumps(i, sort_keys=True) not in fails_fresh]
            with _ReusingCaller(mod) as caller:
                prev = None
                for inst in hist:
                    out["n"] += 1
                    signal.setitimer(signal.ITIMER_REAL, TIME_LIMIT)
                    try:
                        mm = compare(oracle, mod, inst)
                    except _TimeLimit:
                        continue
                    finally:
                        signal.setitimer(signal.ITIMER_REAL, 0)
                    if mm is not None and len(out["mismatches"]) < 20:
                        mm["kind"] = "history-reused-arguments:" + mm["kind"]
                        mm["detail"] = "after a call with %s on the same (edited in place) argument objects: %s" % (json.dumps(prev)[:120], mm["detail"])
                        mm["inst"] = inst
                        mm["previous"] = prev
                        mm["cls"] = oracle.classify(inst) if hasattr(oracle, "classify") else "any"
                        out["mismatches"].append(mm)
                    prev = inst
    except Exception:
        out["crash"] = traceback.format_exc()[-2000:]
    return out


def validate(name):
    """oracle vs. the recorded examples; returns error string or None"""
    load_repo()
    oracle = importlib.import_module("specs.rules." + name)
    mod = importlib.import_module(oracle.MODULE)
    for inst, sol in oracle.EXAMPLES:
        sols = oracle.solutions(inst)
        want = {str(k): v for k, v in sol.items()}
        have = [{str(k): v for k, v in s.items()} for s in sols]
        if want not in have:
            return "oracle does not accept the recorded solution of %s" % json.dumps(inst)[:200]
        if len(sols) != 1 and not getattr(oracle, "EXAMPLES_NOT_UNIQUE", False):
            return "oracle finds %d solutions for a recorded unique example %s" % (len(sols), json.dumps(inst)[:200])
        mm = compare(oracle, mod, inst)
        if mm is not None:
            return "real solver disagrees with the oracle on the module's own example: %s" % mm
    return None


def available():
    import os
    here = os.path.join(os.path.dirname(os.path.dirname(os.path.abspath(__file__))), "specs", "rules")
    return [n for n in ALL if os.path.exists(os.path.join(here, n + ".py"))]


def run(rep, tier, seed, nproc=16):
    from concurrent.futures import ProcessPoolExecutor
    from pyvc.runner import write_replay
    names = available()
    covered, blocked = [], {}
    tasks = []
    for name in names:
        err = None
        try:
            err = validate(name)
        except Exception:
            err = traceback.format_exc()[-600:]
        if err:
            blocked[name] = err
            continue
        covered.append(name)
        oracle = importlib.import_module("specs.rules." + name)
        insts = list(oracle.instances(tier, random.Random(seed * 1000003 + __import__("zlib").crc32(name.encode()) % 1000)))
        k = max(1, min(len(insts), 8))
        for i in range(k):
            tasks.append((name, insts[i::k]))
        if hasattr(oracle, "witness_instances"):
            tasks.append((name, list(oracle.witness_instances(tier))))
        hs = _history_sample(insts, 6 if tier == "quick" else 40)
        if hs:
            tasks.append((name, [], hs))
        if hasattr(oracle, "history_instances"):
            tasks.append((name, [], list(oracle.history_instances(tier, random.Random(seed * 31 + 7)))))
    per = {}
    large = [(name, i, tier, seed) for name in covered
             if hasattr(importlib.import_module("specs.rules." + name), "large_instances") for i in range(LARGE_SPLIT)]
    with ProcessPoolExecutor(nproc) as ex:
        lf = [ex.submit(_large_worker, a) for a in large]
        for r in ex.map(_worker, tasks):
            p = per.setdefault(r["name"], dict(n=0, mismatches=[]))
            p["n"] += r["n"]
            p["mismatches"].extend(r["mismatches"])
            if r["crash"]:
                rep.crashes.append("puzzle %s: %s" % (r["name"], r["crash"][-500:]))
            for t in r["timeouts"]:
                rep.undecide("puzzle %s: instance exceeded the %ds budget: %s" % (r["name"], TIME_LIMIT, t))
        lcov = {}
        for f in lf:
            r = f.result()
            if r["crash"]:
                rep.crashes.append("puzzle %s (large boards): %s" % (r["name"], r["crash"][-500:]))
            c = lcov.setdefault(r["name"], dict(instances=0, grids=0, undecided_grids=0))
            c["instances"] += r["n"]
            c["grids"] += r["cands"]
            c["undecided_grids"] += r["unknown"]
            rep.evaluations += r["cands"]
            p = per.setdefault(r["name"], dict(n=0, mismatches=[]))
            p["mismatches"].extend(r["mismatches"])
        rep.coverage["large_boards_posted_program"] = lcov
        for n, c in lcov.items():
            if c["instances"] == 0 or c["grids"] == 0:
                rep.crashes.append("puzzle %s: the large-board generator produced nothing" % n)
    for name, p in sorted(per.items()):
        rep.evaluations += p["n"]
        rep.distinct.add(name)
        seen = set()
        for mm in p["mismatches"]:
            sig = "puzzle:%s:%s:%s" % (name, mm["kind"], mm["cls"])
            if sig in seen:
                continue
            seen.add(sig)
            payload = dict(engine="puzzles", property="C11", puzzle=name, inst=mm["inst"], kind=mm["kind"], detail=mm["detail"], grid=mm.get("grid"),
                           previous=mm.get("previous"))
            rp = write_replay("C11", "%s_%s" % (name, mm["kind"]), payload)
            rep.violation(sig, "%s | %s | instance %s" % (name, mm["detail"], json.dumps(mm["inst"])[:300]), rp)
    rep.coverage["puzzles_covered"] = {n: per.get(n, {}).get("n", 0) for n in covered}
    rep.coverage["puzzles_not_covered"] = {n: "no validated oracle in this tree" for n in ALL if n not in names}
    rep.coverage["puzzles_blocked"] = blocked
    for n, e in blocked.items():
        rep.crashes.append("oracle for %s failed validation: %s" % (n, e[:300]))
    for name in covered[:6]:
        oracle = importlib.import_module("specs.rules." + name)
        ins = next(iter(oracle.instances("quick", random.Random(0))), None)
        if ins is not None and len(rep.samples) < 8:
            rep.samples.append(dict(puzzle=name, instance=ins))
    # distinct instances
    rep.distinct.update("%s#%d" % (n, i) for n, p in per.items() for i in range(p["n"]))


def replay(payload):
    load_repo()
    oracle = importlib.import_module("specs.rules." + payload["puzzle"])
    mod = importlib.import_module(oracle.MODULE)
    if payload["kind"].startswith("program:"):
        # re-derive the candidates with the oracle and re-evaluate them on the program the real code posts now
        import ast as _ast
        grid = {_ast.literal_eval(k): v for k, v in (payload.get("grid") or {}).items()}
        cands = [(grid, oracle.obeys(payload["inst"], grid), "replayed grid")] if grid else []
        mms, _ = program_check(oracle, mod, payload["inst"], cands)
        print("replay %s (posted program) %s -> %s" % (payload["puzzle"], json.dumps(payload["inst"])[:160], [m["detail"] for m in mms] or "agrees"))
        return 1 if mms else 0
    if payload["kind"].startswith("history-reused-arguments:") and payload.get("previous") is not None:
        with _ReusingCaller(mod):
            compare(oracle, mod, payload["previous"])
            mm = compare(oracle, mod, payload["inst"])
        print("replay %s %s then %s -> %s" % (payload["puzzle"], json.dumps(payload["previous"])[:120], json.dumps(payload["inst"])[:120], mm or "agrees"))
        return 1 if mm else 0
    mm = compare(oracle, mod, payload["inst"])
    print("replay %s %s -> %s" % (payload["puzzle"], json.dumps(payload["inst"])[:200], mm or "agrees"))
    return 1 if mm else 0
