"""helpers shared by the bounded engines (always labelled bounded; never counted as proved)"""
import importlib
import itertools
import os
import sys


def repo_root():
    return os.environ.get("VERIF_REPO", "/repo")


def load_repo():
    """import cspuz from $VERIF_REPO (working tree), never from an installed copy"""
    root = repo_root()
    if sys.path[0] != root:
        sys.path.insert(0, root)
    import cspuz
    f = os.path.realpath(cspuz.__file__)
    if not f.startswith(os.path.realpath(root)):
        raise RuntimeError("cspuz imported from %s, expected %s" % (f, root))
    return cspuz


def simple_graphs(n):
    """all labelled simple graphs on n vertices as edge lists"""
    pairs = [(u, v) for u in range(n) for v in range(u + 1, n)]
    for mask in range(1 << len(pairs)):
        yield [pairs[i] for i in range(len(pairs)) if mask >> i & 1]


def multigraphs(n, max_m):
    """loop-free multigraphs: multisets of vertex pairs with at most max_m edges"""
    pairs = [(u, v) for u in range(n) for v in range(u + 1, n)]
    for m in range(max_m + 1):
        for comb in itertools.combinations_with_replacement(pairs, m):
            yield list(comb)


def grid_edges(h, w):
    """edges of the h x w grid graph, vertex id = y*w + x (as documented in cspuz/graph.py)"""
    e = []
    for y in range(h):
        for x in range(w):
            if x < w - 1:
                e.append((y * w + x, y * w + x + 1))
            if y < h - 1:
                e.append((y * w + x, (y + 1) * w + x))
    return e


def set_partitions(n):
    """all set partitions of range(n) as restricted growth strings"""
    def rec(i, cur, mx):
        if i == n:
            yield list(cur)
            return
        for b in range(mx + 2):
            cur.append(b)
            yield from rec(i + 1, cur, max(mx, b))
            cur.pop()
    if n == 0:
        yield []
    else:
        yield from rec(0, [], -1)
