"""C20 (native tier): which encoding a graph constraint actually uses.  Every emitter that has a native and an auxiliary
route is called on the real library for every combination of (explicit argument: None / True / False) x (configuration
flags), and the posted constraints are inspected: the native route posts a GRAPH_* operator node and no rank variables,
the auxiliary route posts no GRAPH_* node.  Expected route: the explicit argument when given, else the configuration flag
that governs the function (use_graph_division_primitive for the _with_borders variant, use_graph_primitive otherwise).
Also through the wrappers that pass the argument on to a nested emitter (single cycle / path -> line-graph connectivity)."""
import json

from .common import load_repo


def _has_native(node, seen=None):
    from cspuz.expr import Expr
    if not isinstance(node, Expr):
        return False
    if node.op.name.startswith("GRAPH_"):
        return True
    return any(_has_native(o) for o in getattr(node, "operands", []) if isinstance(o, Expr))


def run(rep):
    load_repo()
    from cspuz import Solver, graph as G
    from cspuz.configuration import config
    from cspuz.expr import IntVar
    from cspuz.grid_frame import BoolGridFrame, BoolInnerGridFrame
    from pyvc.runner import write_replay

    def path_graph(n):
        g = G.Graph(n)
        for i in range(n - 1):
            g.add_edge(i, i + 1)
        return g

    def calls():
        # (name, governed by, callable(solver, arg) )
        yield "active_vertices_connected(graph)", "p", lambda s, a: G.active_vertices_connected(s, list(s.bool_array(4)), path_graph(4), use_graph_primitive=a)
        yield "active_vertices_connected(grid)", "p", lambda s, a: G.active_vertices_connected(s, s.bool_array((2, 3)), use_graph_primitive=a)
        yield "active_vertices_connected(acyclic)", "aux-only", lambda s, a: G.active_vertices_connected(s, list(s.bool_array(4)), path_graph(4), acyclic=True, use_graph_primitive=a)
        for shp in ((2, 3), (1, 4), (4, 1), (1, 1), (2, 1)):
            yield "active_vertices_connected(acyclic, grid %dx%d)" % shp, "aux-only", (lambda s, a, shp=shp: G.active_vertices_connected(s, s.bool_array(shp), acyclic=True, use_graph_primitive=a))
        for shp in ((1, 4), (4, 1), (1, 1)):
            yield "active_vertices_connected(grid %dx%d)" % shp, "p", (lambda s, a, shp=shp: G.active_vertices_connected(s, s.bool_array(shp), use_graph_primitive=a))
        yield "active_edges_single_cycle(graph)", "p", lambda s, a: G.active_edges_single_cycle(s, list(s.bool_array(3)), path_graph(4), use_graph_primitive=a)
        yield "active_edges_single_cycle(frame)", "p", lambda s, a: G.active_edges_single_cycle(s, BoolGridFrame(s, 1, 2), use_graph_primitive=a)
        yield "active_edges_single_path(graph)", "native-only", lambda s, a: G.active_edges_single_path(s, list(s.bool_array(3)), path_graph(4), use_graph_primitive=a)
        yield "active_edges_connected_crossable", "p", lambda s, a: G.active_edges_connected_crossable(s, BoolGridFrame(s, 1, 2), use_graph_primitive=a)
        yield "active_edges_single_cycle_crossable", "p", lambda s, a: G.active_edges_single_cycle_crossable(s, BoolGridFrame(s, 1, 2), use_graph_primitive=a)
        yield "division_connected_variable_groups_with_borders(graph)", "d", lambda s, a: G.division_connected_variable_groups_with_borders(
            s, group_size=[None] * 4, is_border=list(s.bool_array(3)), graph=path_graph(4), use_graph_primitive=a)
        yield "division_connected(config only)", "p-config", lambda s, a: G.division_connected(s, list(s.int_array(4, 0, 1)), 2, path_graph(4))

    old = (config.use_graph_primitive, config.use_graph_division_primitive)
    seen = set()
    try:
        for name, gov, fn in calls():
            for arg in (None, True, False):
                if gov == "p-config" and arg is not None:
                    continue
                for fp in (False, True):
                    for fd in (False, True):
                        config.use_graph_primitive, config.use_graph_division_primitive = fp, fd
                        flag = fd if gov == "d" else fp
                        want = flag if arg is None else arg
                        s = Solver()
                        try:
                            fn(s, arg)
                        except Exception as e:
                            if gov == "native-only" and want is False:
                                continue                # the path constraint has no auxiliary encoding (documented: RuntimeError)
                            if gov == "aux-only" and want is True:
                                continue                # acyclic connectivity has no native encoding: any refusal is fine
                            sig = "route:%s:exception:%s" % (name, type(e).__name__)
                            if sig not in seen:
                                seen.add(sig)
                                payload = dict(engine="routes", property="C20", call=name, arg=arg, use_graph_primitive=fp, use_graph_division_primitive=fd)
                                rep.violation(sig, "%s with use_graph_primitive=%r under config (%r, %r) raised %s: %s" % (name, arg, fp, fd, type(e).__name__, str(e)[:120]),
                                              write_replay("C20", "route_exception", payload))
                            continue
                        rep.evaluations += 1
                        native = any(_has_native(c) for c in s.constraints)
                        if gov == "aux-only":
                            # whatever is asked for or configured, acyclic connectivity is never handed to the native operator
                            want = False
                        if native != bool(want):
                            sig = "route:%s:%s-instead-of-%s" % (name, "native" if native else "auxiliary", "native" if want else "auxiliary")
                            if sig not in seen:
                                seen.add(sig)
                                payload = dict(engine="routes", property="C20", call=name, arg=arg, use_graph_primitive=fp, use_graph_division_primitive=fd)
                                rep.violation(sig, "%s with use_graph_primitive=%r under config (use_graph_primitive=%r, use_graph_division_primitive=%r): the %s encoding was posted, the %s one is configured"
                                              % (name, arg, fp, fd, "native" if native else "auxiliary", "native" if want else "auxiliary"),
                                              write_replay("C20", "route_" + ("native" if native else "auxiliary"), payload))
    finally:
        config.use_graph_primitive, config.use_graph_division_primitive = old
    rep.distinct.update(("route", i) for i in range(rep.evaluations))
