"""C20 (native tier): which encoding a graph constraint actually uses.  Every emitter that has a native and an auxiliary
route is called on the real library for every combination of (explicit argument: None / True / False) x (configuration
flags), and the posted constraints are inspected: the native route posts a GRAPH_* operator node and no rank variables,
the auxiliary route posts no GRAPH_* node.  Expected route: the explicit argument when given, else the configuration flag
that governs the function (use_graph_division_primitive for the _with_borders variant, use_graph_primitive otherwise).
Also through the wrappers that pass the argument on to a nested emitter (single cycle / path -> line-graph connectivity)."""
import json

from .common import load_repo


def _has_native(node, seen=None):
    from cspuz.expr import Expr
    if not isinstance(node, Expr):
        return False
    if node.op.name.startswith("GRAPH_"):
        return True
    return any(_has_native(o) for o in getattr(node, "operands", []) if isinstance(o, Expr))


def run(rep):
    load_repo()
    from cspuz import Solver, graph as G
    from cspuz.configuration import config
    from cspuz.expr import IntVar
    from cspuz.grid_frame import BoolGridFrame, BoolInnerGridFrame
    from pyvc.runner import write_replay

    def path_graph(n):
        g = G.Graph(n)
        for i in range(n - 1):
            g.add_edge(i, i + 1)
        return g

    def calls():
        # (name, governed by, callable(solver, arg) )
        yield "active_vertices_connected(graph)", "p", lambda s, a: G.active_vertices_connected(s, list(s.bool_array(4)), path_graph(4), use_graph_primitive=a)
        yield "active_vertices_connected(grid)", "p", lambda s, a: G.active_vertices_connected(s, s.bool_array((2, 3)), use_graph_primitive=a)
        yield "active_vertices_connected(acyclic)", "aux-only", lambda s, a: G.active_vertices_connected(s, list(s.bool_array(4)), path_graph(4), acyclic=True, use_graph_primitive=a)
        for shp in ((2, 3), (1, 4), (4, 1), (1, 1), (2, 1)):
            yield "active_vertices_connected(acyclic, grid %dx%d)" % shp, "aux-only", (lambda s, a, shp=shp: G.active_vertices_connected(s, s.bool_array(shp), acyclic=True, use_graph_primitive=a))
        for shp in ((1, 4), (4, 1), (1, 1)):
            yield "active_vertices_connected(grid %dx%d)" % shp, "p", (lambda s, a, shp=shp: G.active_vertices_connected(s, s.bool_array(shp), use_graph_primitive=a))
        yield "active_edges_single_cycle(graph)", "p", lambda s, a: G.active_edges_single_cycle(s, list(s.bool_array(3)), path_graph(4), use_graph_primitive=a)
        yield "active_edges_single_cycle(frame)", "p", lambda s, a: G.active_edges_single_cycle(s, BoolGridFrame(s, 1, 2), use_graph_primitive=a)
        yield "active_edges_single_path(graph)", "native-only", lambda s, a: G.active_edges_single_path(s, list(s.bool_array(3)), path_graph(4), use_graph_primitive=a)
        yield "active_edges_connected_crossable", "p", lambda s, a: G.active_edges_connected_crossable(s, BoolGridFrame(s, 1, 2), use_graph_primitive=a)
        yield "active_edges_single_cycle_crossable", "p", lambda s, a: G.active_edges_single_cycle_crossable(s, BoolGridFrame(s, 1, 2), use_graph_primitive=a)
        yield "division_connected_variable_groups_with_borders(graph)", "d", lambda s, a: G.division_connected_variable_groups_with_borders(
            s, group_size=[None] * 4, is_border=list(s.bool_array(3)), graph=path_graph(4), use_graph_primitive=a)
        yield "division_connected(config only)", "p-config", lambda s, a: G.division_connected(s, list(s.int_array(4, 0, 1)), 2, path_graph(4))

    old = (config.use_graph_primitive, config.use_graph_division_primitive)
    seen = set()
    try:
        for name, gov, fn in calls():
            for arg in (None, True, False):
                if gov == "p-config" and arg is not None:
                    continue
                for fp in (False, True):
                    for fd in (False, True):
                        config.use_graph_primitive, config.use_graph_division_primitive = fp, fd
                        flag = fd if gov == "d" else fp
                        want = flag if arg is None else arg
                        s = Solver()
                        try:
                            fn(s, arg)
                        except Exception as e:
                            if gov == "native-only" and want is False:
                                continue                # the path constraint has no auxiliary encoding (documented: RuntimeError)
                            if gov == "aux-only" and want is True:
                                continue                # acyclic connectivity has no native encoding: any refusal is fine
                            sig = "route:%s:exception:%s" % (name, type(e).__name__)
                            if sig not in seen:
                                seen.add(sig)
                                payload = dict(engine="routes", property="C20", call=name, arg=arg, use_graph_primitive=fp, use_graph_division_primitive=fd)
                                rep.violation(sig, "%s with use_graph_primitive=%r under config (%r, %r) raised %s: %s" % (name, arg, fp, fd, type(e).__name__, str(e)[:120]),
                                              write_replay("C20", "route_exception", payload))
                            continue
                        rep.evaluations += 1
                        native = any(_has_native(c) for c in s.constraints)
                        if gov == "aux-only":
                            # whatever is asked for or configured, acyclic connectivity is never handed to the native operator
                            want = False
                        if native != bool(want):
                            sig = "route:%s:%s-instead-of-%s" % (name, "native" if native else "auxiliary", "native" if want else "auxiliary")
                            if sig not in seen:
                                seen.add(sig)
                                payload = dict(engine="routes", property="C20", call=name, arg=arg, use_graph_primitive=fp, use_graph_division_primitive=fd)
                                rep.violation(sig, "%s with use_graph_primitive=%r under config (use_graph_primitive=%r, use_graph_division_primitive=%r): the %s encoding was posted, the %s one is configured"
                                              % (name, arg, fp, fd, "native" if native else "auxiliary", "native" if want else "auxiliary"),
                                              write_replay("C20", "route_" + ("native" if native else "auxiliary"), payload))
    finally:
        config.use_graph_primitive, config.use_graph_division_primitive = old
    rep.distinct.update(("route", i) for i in range(rep.evaluations))


def entry_histories(rep):
    """which external entry point a text-protocol back end actually calls, after other back ends were used in the same process:
    every order of first use of sugar_extended, csugar, enigma_csp, cspuz_core (then sugar, then all again in reverse), by argument
    and through config.default_backend, each order in a freshly imported library (class-level or module-level state of an earlier
    order must not hide a later one).  The stub modules / the stub executable record who was called (bounded/sugar.Env)."""
    import itertools
    import sys
    import warnings
    from . import sugar
    from pyvc.runner import write_replay
    seen = set()
    for perm in itertools.permutations(["sugar_extended", "csugar", "enigma_csp", "cspuz_core"]):
        for how in ("argument", "default_backend"):
            for m in [m for m in sys.modules if m == "cspuz" or m.startswith("cspuz.")]:
                del sys.modules[m]
            seq = list(perm) + ["sugar"] + list(reversed(perm))
            with sugar.Env() as env:
                from cspuz import Solver
                from cspuz.configuration import config
                old_db = config.default_backend
                try:
                    for step, name in enumerate(seq):
                        s = Solver()
                        b = s.bool_var()
                        s.ensure(b)
                        env.take_calls()
                        try:
                            with warnings.catch_warnings():
                                warnings.simplefilter("ignore")
                                if how == "argument":
                                    s.find_answer(name)
                                else:
                                    config.default_backend = name
                                    s.find_answer()
                        except Exception as e:
                            calls = [("exception:%s" % type(e).__name__, None, str(e)[:80])]
                        else:
                            calls = env.take_calls()
                        rep.evaluations += 1
                        entries = sorted(set(c[0] for c in calls))
                        if entries != [sugar.ENTRY[name]]:
                            sig = "entry:%s:%s" % (name, how)
                            if sig not in seen:
                                seen.add(sig)
                                payload = dict(engine="routes", property="C20", sequence=seq, step=step, how=how, got=entries)
                                rep.violation(sig, "back end %s (by %s) after %s: the call went to %s, expected %s"
                                              % (name, how, seq[:step], entries, sugar.ENTRY[name]), write_replay("C20", "entry_point", payload))
                finally:
                    config.default_backend = old_db
    for m in [m for m in sys.modules if m == "cspuz" or m.startswith("cspuz.")]:
        del sys.modules[m]
