"""C12 (bounded): array operators and aggregate helpers have pointwise / mathematical meaning.

Value semantics, not tree shape: element i of a result must evaluate (specs/den.py) to A[i] op B[i]
under EVERY assignment of the variables involved.  Ill-kinded or ill-shaped operands must be rejected
with an exception (any type); returning the NotImplemented object or a value is not a rejection.
`==`/`!=` with operands of the wrong kind are outside the rejection clause (Python falls back to
identity comparison)."""
import itertools
import json
import operator
import random

from .common import load_repo
from specs import den

SHAPES = [(0,), (1,), (3,), (0, 3), (1, 1), (1, 3), (3, 1), (2, 2), (2, 3)]


def _size(shape):
    n = 1
    for d in shape:
        n *= d
    return n


class World:
    def __init__(self):
        load_repo()
        from cspuz import Solver
        self.s = Solver()

    def mk(self, kind, shape):
        """returns (python operand, value kind 'bool'|'int', shape or None, element accessor)"""
        from cspuz.array import BoolArray1D, BoolArray2D, IntArray1D, IntArray2D
        s = self.s
        if kind == "bexpr":
            return s.bool_var(), "bool", None
        if kind == "iexpr":
            return s.int_var(0, 2), "int", None
        if kind == "bcomp":
            return (s.bool_var() & ~s.bool_var()), "bool", None
        if kind == "icomp":
            return (s.int_var(0, 1) + s.int_var(-1, 0)), "int", None
        if kind == "blit":
            return True, "bool", None
        if kind == "blit0":
            return False, "bool", None
        if kind == "ilit":
            return 2, "int", None
        if kind == "ilit0":
            return 0, "int", None
        if kind == "barr":
            vs = [s.bool_var() for _ in range(_size(shape))]
            return (BoolArray1D(vs) if len(shape) == 1 else BoolArray2D(vs, shape)), "bool", shape
        if kind == "iarr":
            vs = [s.int_var(-1, 1) for _ in range(_size(shape))]
            return (IntArray1D(vs) if len(shape) == 1 else IntArray2D(vs, shape)), "int", shape
        if kind == "barrc":
            # an array whose elements are comparison nodes (compound elements: operators must not look inside them)
            p, q = [s.int_var(0, 1) for _ in range(_size(shape))], [s.int_var(0, 1) for _ in range(_size(shape))]
            vs = [(x <= y) for x, y in zip(p, q)]
            return (BoolArray1D(vs) if len(shape) == 1 else BoolArray2D(vs, shape)), "bool", shape
        if kind == "iarrc":
            p, q = [s.int_var(0, 1) for _ in range(_size(shape))], [s.int_var(-1, 0) for _ in range(_size(shape))]
            vs = [(x - y) for x, y in zip(p, q)]
            return (IntArray1D(vs) if len(shape) == 1 else IntArray2D(vs, shape)), "int", shape
        raise ValueError(kind)


SCALARS = ["bexpr", "iexpr", "bcomp", "icomp", "blit", "blit0", "ilit", "ilit0"]
ARRS = ["barr", "iarr"]

BIN = {
    "add": (operator.add, "int", "int", lambda a, b: a + b),
    "sub": (operator.sub, "int", "int", lambda a, b: a - b),
    "lt": (operator.lt, "int", "bool", lambda a, b: a < b),
    "le": (operator.le, "int", "bool", lambda a, b: a <= b),
    "gt": (operator.gt, "int", "bool", lambda a, b: a > b),
    "ge": (operator.ge, "int", "bool", lambda a, b: a >= b),
    "and": (operator.and_, "bool", "bool", lambda a, b: a and b),
    "or": (operator.or_, "bool", "bool", lambda a, b: a or b),
    "xor": (operator.xor, "bool", "bool", lambda a, b: a != b),
    "then_m": (lambda a, b: a.then(b), "bool", "bool", lambda a, b: (not a) or b),
    "then_f": (None, "bool", "bool", lambda a, b: (not a) or b),
}
EQS = {"eq": (operator.eq, lambda a, b: a == b), "ne": (operator.ne, lambda a, b: a != b)}


def elems(x, shape):
    """row-major elements of an operand broadcast to `shape`"""
    n = _size(shape)
    if hasattr(x, "data") and hasattr(x, "shape"):
        return list(x.data)
    return [x] * n


def values_agree(world, result_elems, expected_fn, operand_elem_lists):
    """for all assignments: den(result[i]) == expected_fn(den(op1[i]), den(op2[i]), ...)"""
    vars_ = world.s.variables
    gen = den.all_assignments(vars_, 60000)
    if gen is None:
        rnd = random.Random(1)
        gen = [{v.id: rnd.choice(den.domain(v)) for v in vars_} for _ in range(3000)]
    for asg in gen:
        for i, r in enumerate(result_elems):
            try:
                got = den.ev(r, asg)
                want = expected_fn(*[den.ev(ol[i], asg) for ol in operand_elem_lists])
            except den.IllTyped as e:
                return "element %d is ill-typed: %s" % (i, e)
            if got is not want and got != want or type(got) is not type(want):
                return "element %d evaluates to %r, expected %r under %s" % (i, got, want, asg)
    return None


def result_shape(r):
    return tuple(r.shape) if hasattr(r, "shape") and hasattr(r, "data") else None


def is_array(x):
    return hasattr(x, "shape") and hasattr(x, "data")


def check_binary(form, ka, kb, shape_a, shape_b):
    """returns (case key, failure or None)"""
    from cspuz import constraints
    w = World()
    a, va, sa = w.mk(ka, shape_a)
    b, vb, sb = w.mk(kb, shape_b)
    key = "%s(%s%s,%s%s)" % (form, ka, shape_a if sa else "", kb, shape_b if sb else "")
    if form in EQS:
        f, sem = EQS[form]
        need = None
    else:
        f, need, resk, sem = BIN[form]
        if form == "then_f":
            f = constraints.then
    shapes = [s_ for s_ in (sa, sb) if s_ is not None]
    shape_ok = len(set(shapes)) <= 1
    shape = shapes[0] if shapes else None
    if form in EQS:
        kind_ok = va == vb and is_array(a)  # array.__eq__(x) with x of the same value kind
        resk = "bool"
    else:
        kind_ok = va == need and vb == need
    try:
        r = f(a, b)
        raised = None
    except Exception as e:
        r, raised = None, e
    if form in EQS and not (va == vb):
        return key, None          # outside the rejection clause
    if form in EQS and not is_array(a) and not is_array(b):
        return key, None
    if form in EQS and not is_array(a):
        # reflected: array on the right
        kind_ok = va == vb
    if kind_ok and shape_ok and shape is not None:
        if raised is not None:
            return key, dict(kind="valid-operands-rejected", detail="%s raised %s: %s" % (key, type(raised).__name__, raised))
        if not is_array(r) or result_shape(r) != tuple(shape):
            return key, dict(kind="result-shape", detail="%s returned %r (shape %s), expected an array of shape %s" % (key, type(r).__name__, result_shape(r), shape))
        want_cls = ("Bool" if resk == "bool" else "Int") + "Array%dD" % len(shape)
        if type(r).__name__ != want_cls:
            return key, dict(kind="result-class", detail="%s returned %s, expected %s" % (key, type(r).__name__, want_cls))
        if form in EQS:
            sem2 = sem
        else:
            sem2 = sem
        e = values_agree(w, list(r.data), sem2, [elems(a, shape), elems(b, shape)])
        if e:
            return key, dict(kind="pointwise-meaning", detail="%s: %s" % (key, e))
        return key, None
    if shape is None and form in ("then_m", "then_f") and kind_ok:
        # scalar then: must denote the implication
        if raised is not None:
            return key, dict(kind="valid-operands-rejected", detail="%s raised %s" % (key, raised))
        e = values_agree(w, [r], sem, [[a], [b]])
        return key, (dict(kind="pointwise-meaning", detail="%s: %s" % (key, e)) if e else None)
    if shape is None and not form.startswith("then"):
        return key, None          # scalar-only operator forms belong to C01
    # ill-kinded or ill-shaped: must be rejected
    if raised is None:
        why = "shape mismatch" if (kind_ok and not shape_ok) else "operand of the wrong kind"
        return key, dict(kind="ill-typed-accepted:" + ("shape" if why.startswith("shape") else ("returns-NotImplemented" if r is NotImplemented else "kind")),
                         detail="%s (%s) was not rejected: returned %s" % (key, why, "NotImplemented" if r is NotImplemented else type(r).__name__))
    return key, None


def check_cond(form, kc, kt, kf, shapes):
    from cspuz import constraints
    w = World()
    c, vc, sc = w.mk(kc, shapes[0])
    t, vt, st = w.mk(kt, shapes[1])
    f, vf, sf = w.mk(kf, shapes[2])
    key = "%s(%s%s,%s%s,%s%s)" % (form, kc, shapes[0] if sc else "", kt, shapes[1] if st else "", kf, shapes[2] if sf else "")
    shp = [s_ for s_ in (sc, st, sf) if s_ is not None]
    shape_ok = len(set(shp)) <= 1
    shape = shp[0] if shp else None
    kind_ok = vc == "bool" and vt == "int" and vf == "int"
    try:
        if form == "cond_f":
            r = constraints.cond(c, t, f)
        else:
            if isinstance(c, bool):
                return key, None
            r = c.cond(t, f)
        raised = None
    except Exception as e:
        r, raised = None, e
    sem = lambda cc, tt, ff: tt if cc else ff
    if kind_ok and shape_ok:
        if raised is not None:
            return key, dict(kind="valid-operands-rejected", detail="%s raised %s: %s" % (key, type(raised).__name__, raised))
        if shape is None:
            e = values_agree(w, [r], sem, [[c], [t], [f]])
        else:
            if not is_array(r) or result_shape(r) != tuple(shape) or type(r).__name__ != "IntArray%dD" % len(shape):
                return key, dict(kind="result-shape", detail="%s returned %s shape %s" % (key, type(r).__name__, result_shape(r)))
            e = values_agree(w, list(r.data), sem, [elems(c, shape), elems(t, shape), elems(f, shape)])
        return key, (dict(kind="pointwise-meaning", detail="%s: %s" % (key, e)) if e else None)
    if raised is None:
        return key, dict(kind="ill-typed-accepted:" + ("shape" if kind_ok else ("returns-NotImplemented" if r is NotImplemented else "kind")),
                         detail="%s was not rejected: returned %s" % (key, "NotImplemented" if r is NotImplemented else type(r).__name__))
    return key, None


# arrays whose ELEMENTS are compound expressions (an operator applied to them must not look inside): built from two variable arrays
COMPOUND = {
    "le": ("iarr", "bool", lambda x, y: x <= y), "lt": ("iarr", "bool", lambda x, y: x < y), "ge": ("iarr", "bool", lambda x, y: x >= y),
    "gt": ("iarr", "bool", lambda x, y: x > y), "eq": ("iarr", "bool", lambda x, y: x == y), "ne": ("iarr", "bool", lambda x, y: x != y),
    "and": ("barr", "bool", lambda x, y: x and y), "or": ("barr", "bool", lambda x, y: x or y), "xor": ("barr", "bool", lambda x, y: x != y),
    "iff": ("barr", "bool", lambda x, y: x == y),
    "add": ("iarr", "int", lambda x, y: x + y), "sub": ("iarr", "int", lambda x, y: x - y),
}
_BUILD = {"le": lambda p, q: p <= q, "lt": lambda p, q: p < q, "ge": lambda p, q: p >= q, "gt": lambda p, q: p > q, "eq": lambda p, q: p == q,
          "ne": lambda p, q: p != q, "and": lambda p, q: p & q, "or": lambda p, q: p | q, "xor": lambda p, q: p ^ q, "iff": lambda p, q: p == q,
          "add": lambda p, q: p + q, "sub": lambda p, q: p - q}


def check_unary(form, ka, shape):
    w = World()
    key = "%s(%s%s)" % (form, ka, shape)
    need = "bool" if form == "invert" else "int"
    if ":" in ka:
        opn = ka.split(":")[1]
        src, va, pyf = COMPOUND[opn]
        p, _, _ = w.mk(src, shape)
        q, _, _ = w.mk(src, shape)
        a = _BUILD[opn](p, q)
        try:
            r = (~a) if form == "invert" else (-a)
        except Exception as e:
            return key, dict(kind="valid-operands-rejected", detail="%s raised %s" % (key, e))
        if not is_array(r) or result_shape(r) != tuple(shape):
            return key, dict(kind="result-shape", detail="%s returned %s" % (key, type(r).__name__))
        sem = (lambda x, y: not pyf(x, y)) if form == "invert" else (lambda x, y: -pyf(x, y))
        e = values_agree(w, list(r.data), sem, [elems(p, shape), elems(q, shape)])
        return key, (dict(kind="pointwise-meaning", detail="%s: %s" % (key, e)) if e else None)
    a, va, sa = w.mk(ka, shape)
    try:
        r = (~a) if form == "invert" else (-a)
        raised = None
    except Exception as e:
        r, raised = None, e
    if va == need:
        if raised is not None:
            return key, dict(kind="valid-operands-rejected", detail="%s raised %s" % (key, raised))
        if not is_array(r) or result_shape(r) != tuple(shape):
            return key, dict(kind="result-shape", detail="%s returned %s" % (key, type(r).__name__))
        e = values_agree(w, list(r.data), (lambda x: not x) if form == "invert" else (lambda x: -x), [elems(a, shape)])
        return key, (dict(kind="pointwise-meaning", detail="%s: %s" % (key, e)) if e else None)
    if raised is None:
        return key, dict(kind="ill-typed-accepted:kind", detail="%s was not rejected" % key)
    return key, None


# ------------------------------------------------------------------------------------------- helpers
def flatten(x):
    if hasattr(x, "__iter__") and not isinstance(x, (str, bytes)):
        for y in x:
            yield from flatten(y)
    else:
        yield x


def gen_nesting(rnd, w, kind, depth):
    """a nesting of lists/tuples/generators/arrays/literals with leaves of the given value kind"""
    from cspuz.array import BoolArray1D, BoolArray2D, IntArray1D, IntArray2D
    c = rnd.random()
    pool = w.__dict__.setdefault("pool", [])
    if depth == 0 or c < 0.3:
        if rnd.random() < 0.25:
            return (rnd.random() < 0.5) if kind == "bool" else rnd.randint(-1, 2)
        if pool and rnd.random() < 0.3:
            # the SAME expression object again (an item occurring twice counts twice)
            return rnd.choice(pool)
        if rnd.random() < 0.3:
            x, _, _ = w.mk("bcomp" if kind == "bool" else "icomp", None)
            pool.append(x)
            return x
        x = w.s.bool_var() if kind == "bool" else w.s.int_var(-1, 1)
        pool.append(x)
        return x
    if c < 0.45:
        n = rnd.randrange(0, 3)
        vs = [w.s.bool_var() if kind == "bool" else w.s.int_var(0, 1) for _ in range(n)]
        if vs and rnd.random() < 0.4:
            vs.append(vs[0])        # an array holding one variable twice
        return (BoolArray1D if kind == "bool" else IntArray1D)(vs)
    if c < 0.55:
        h, ww = rnd.choice([(1, 2), (2, 1), (0, 2), (2, 2)])
        vs = [w.s.bool_var() if kind == "bool" else w.s.int_var(0, 1) for _ in range(h * ww)]
        return (BoolArray2D if kind == "bool" else IntArray2D)(vs, (h, ww))
    n = rnd.randrange(0, 4)
    items = [gen_nesting(rnd, w, kind, depth - 1) for _ in range(n)]
    k = rnd.randrange(3)
    if k == 0:
        return items
    if k == 1:
        return tuple(items)
    return (x for x in list(items))


def freeze(x):
    """materialise generators so the oracle and the function see the same nesting"""
    if hasattr(x, "data") and hasattr(x, "shape"):
        return x
    if hasattr(x, "__iter__") and not isinstance(x, (str, bytes)):
        return [freeze(y) for y in x]
    return x


def regen(x, use_gen):
    if isinstance(x, list):
        ys = [regen(y, use_gen) for y in x]
        return (y for y in ys) if use_gen else ys
    return x


def check_helper(name, seed):
    from cspuz import count_true, fold_or, fold_and, alldifferent
    rnd = random.Random(seed)
    w = World()
    kind = "int" if name == "alldifferent" else "bool"
    nargs = rnd.randrange(0, 3)
    args = [freeze(gen_nesting(rnd, w, kind, 3)) for _ in range(nargs)]
    leaves = list(flatten(args))
    if len(w.s.variables) > 12:
        return "skip", None
    fn = dict(count_true=count_true, fold_or=fold_or, fold_and=fold_and, alldifferent=alldifferent)[name]
    key = "%s#%d" % (name, seed)
    try:
        r = fn(*[regen(a, seed % 2 == 0) for a in args])
    except Exception as e:
        return key, dict(kind="helper-exception", detail="%s raised %s: %s on a well-kinded nesting with %d leaves" % (name, type(e).__name__, e, len(leaves)))
    sem = {"count_true": lambda *v: sum(1 for x in v if x), "fold_or": lambda *v: any(v), "fold_and": lambda *v: all(v),
           "alldifferent": lambda *v: len(set(v)) == len(v)}[name]
    e = values_agree(w, [r], sem, [[l] for l in leaves])
    if e:
        return key, dict(kind="helper-meaning:" + name, detail="%s over %d leaves: %s" % (name, len(leaves), e))
    return key, None


def check_array_methods(seed):
    """count_true / fold_or / fold_and / alldifferent methods, conv2d, four_neighbors(_indices)"""
    rnd = random.Random(seed)
    out = []
    w = World()
    H, W = rnd.choice([(0, 0), (0, 2), (1, 1), (1, 3), (3, 1), (2, 2), (2, 3), (3, 3)])
    b = w.s.bool_array((H, W))
    vals = lambda asg: [[asg[b[y, x].id] for x in range(W)] for y in range(H)]
    # conv2d
    for (h, ww) in [(1, 1), (1, 2), (2, 1), (2, 2), (3, 1), (1, 4)]:
        for op in ("and", "or"):
            key = "conv2d(%dx%d,%d,%d,%s)" % (H, W, h, ww, op)
            try:
                r = b.conv2d(h, ww, op)
            except Exception as e:
                out.append((key, dict(kind="helper-exception", detail="%s raised %s: %s" % (key, type(e).__name__, e))))
                continue
            rh, rw = max(0, H - h + 1), max(0, W - ww + 1)
            if tuple(r.shape) != (rh, rw):
                out.append((key, dict(kind="conv2d-shape", detail="%s has shape %s, expected %s" % (key, r.shape, (rh, rw)))))
                continue
            bad = None
            for asg in den.all_assignments(w.s.variables, 70000) or []:
                g = vals(asg)
                for y in range(rh):
                    for x in range(rw):
                        win = [g[y + dy][x + dx] for dy in range(h) for dx in range(ww)]
                        want = all(win) if op == "and" else any(win)
                        if den.ev(r[y, x], asg) is not want:
                            bad = "window (%d,%d) evaluates to %r, expected %r" % (y, x, den.ev(r[y, x], asg), want)
                            break
                    if bad:
                        break
                if bad:
                    break
            out.append((key, dict(kind="conv2d-meaning", detail="%s: %s" % (key, bad)) if bad else None))
    # neighbours
    i = w.s.int_array((H, W), 0, 1) if H * W else None
    for y in range(H):
        for x in range(W):
            want = sorted((y + dy, x + dx) for dy, dx in ((-1, 0), (1, 0), (0, -1), (0, 1)) if 0 <= y + dy < H and 0 <= x + dx < W)
            for arr in (b, i):
                for form in ("two", "tuple"):
                    key = "four_neighbors(%dx%d,%d,%d,%s)" % (H, W, y, x, form)
                    try:
                        idx = arr.four_neighbor_indices(y, x) if form == "two" else arr.four_neighbor_indices((y, x))
                        nb = arr.four_neighbors(y, x) if form == "two" else arr.four_neighbors((y, x))
                    except Exception as e:
                        out.append((key, dict(kind="helper-exception", detail="%s raised %s" % (key, e))))
                        continue
                    # the caller owns what it got: changing it must not change later answers
                    try:
                        idx_copy = list(idx)
                        idx.append((y, x))
                        idx.sort()
                        nb_len = len(nb)
                        again_idx = arr.four_neighbor_indices(y, x) if form == "two" else arr.four_neighbor_indices((y, x))
                        again_nb = arr.four_neighbors(y, x) if form == "two" else arr.four_neighbors((y, x))
                        if sorted(again_idx) != want or sorted(id(e_) for e_ in again_nb) != sorted(id(arr[p]) for p in want):
                            out.append((key, dict(kind="neighbours-depend-on-history", detail="%s: after the caller modified the list it had received, a second call gives %s" % (key, sorted(again_idx)))))
                        idx = idx_copy
                    except Exception as e:
                        out.append((key, dict(kind="helper-exception", detail="%s second call raised %s" % (key, e))))
                        continue
                    if sorted(idx) != want:
                        out.append((key, dict(kind="neighbour-indices", detail="%s gives %s, expected %s" % (key, sorted(idx), want))))
                    elif sorted(id(e_) for e_ in nb) != sorted(id(arr[p]) for p in want):
                        out.append((key, dict(kind="neighbour-elements", detail="%s returns other elements than the in-bounds orthogonal neighbours" % key)))
                    else:
                        out.append((key, None))
    # aggregate methods of arrays
    from cspuz.array import IntArray1D
    key = "array-methods(%dx%d)" % (H, W)
    leaves = list(b.data)
    checks = [(b.count_true(), lambda *v: sum(1 for x_ in v if x_)), (b.fold_or(), lambda *v: any(v)), (b.fold_and(), lambda *v: all(v)),
              (b.flatten().fold_or(), lambda *v: any(v)), (b.flatten().count_true(), lambda *v: sum(1 for x_ in v if x_))]
    for r, sem in checks:
        e = values_agree(w, [r], sem, [[l] for l in leaves])
        out.append((key, dict(kind="array-method-meaning", detail="%s: %s" % (key, e)) if e else None))
    if i is not None:
        w2 = World()
        ia = w2.s.int_array((H, W), 0, 2) if H * W <= 4 else w2.s.int_array((1, 3), 0, 2)
        r = ia.alldifferent()
        e = values_agree(w2, [r], lambda *v: len(set(v)) == len(v), [[l] for l in ia.data])
        out.append((key + ".alldifferent", dict(kind="array-method-meaning", detail=str(e)) if e else None))
    return out


def check_wide_aggregates(k):
    """aggregates over k items (k around 256, 512, 1024): one item at the first / middle / last position decides the value
    (one-hot / one-cold / one duplicate); function form over a list, over an array plus extra items, and the array methods.
    yields (key, failure-or-None)"""
    from cspuz import Solver, count_true, fold_or, fold_and, alldifferent
    from cspuz.array import BoolArray1D, BoolArray2D, IntArray1D
    s = Solver()
    xs = [s.bool_var() for _ in range(k)]
    ys = [s.int_var(0, k) for _ in range(k)]
    forms = [("count_true(list)", count_true(xs), "count"), ("count_true(BoolArray1D)", count_true(BoolArray1D(xs)), "count"),
             ("BoolArray1D.count_true()", BoolArray1D(xs).count_true(), "count"),
             ("count_true(list[:-1], last)", count_true(xs[:-1], xs[-1]), "count"),
             ("count_true(list, True)", count_true(xs, True), "count+1"),
             ("fold_or(list)", fold_or(xs), "or"), ("BoolArray1D.fold_or()", BoolArray1D(xs).fold_or(), "or"),
             ("fold_and(list)", fold_and(xs), "and"), ("BoolArray1D.fold_and()", BoolArray1D(xs).fold_and(), "and"),
             ("alldifferent(list)", alldifferent(ys), "alldiff"), ("IntArray1D.alldifferent()", IntArray1D(ys).alldifferent(), "alldiff")]
    if k % 16 == 1:
        sq = BoolArray2D(xs[:-1], (16, (k - 1) // 16))
        forms += [("count_true(BoolArray2D, extra)", count_true(sq, xs[-1]), "count"), ("fold_or(BoolArray2D, extra)", fold_or(sq, xs[-1]), "or")]
    ps = sorted({0, 1, k // 2, k - 2, k - 1})
    for (label, node, sem) in forms:
        bad = None
        for p in ps:
            for hot in (True, False):
                asg = {}
                for i, x in enumerate(xs):
                    asg[x.id] = (i == p) == hot
                q = p + 1 if p + 1 < k else p - 1
                for i, y in enumerate(ys):
                    asg[y.id] = q if (i == p and hot) else i
                nt = sum(1 for x in xs if asg[x.id])
                want = {"count": nt, "count+1": nt + 1, "or": nt > 0, "and": nt == k, "alldiff": not hot}[sem]
                try:
                    got = den.ev(node, asg)
                except Exception as e:
                    got = "error %s: %s" % (type(e).__name__, e)
                if got != want or type(got) is not type(want):
                    bad = "%s over %d items, deciding item at position %d (%s): evaluates to %r, expected %r" % (label, k, p, "one-hot" if hot else "one-cold", got, want)
                    break
            if bad:
                break
        yield "%s#%d" % (label, k), (dict(kind="wide-aggregate", detail=bad) if bad else None)


def all_cases(tier):
    cases = []
    for form in list(BIN) + list(EQS):
        for shape in SHAPES:
            for ka in SCALARS + ARRS:
                for kb in SCALARS + ARRS:
                    if ka in SCALARS and kb in SCALARS and not form.startswith("then"):
                        continue
                    if ka in ("blit", "blit0", "ilit", "ilit0") and form == "then_m":
                        continue
                    if ka in SCALARS and kb in SCALARS and shape != SHAPES[0]:
                        continue
                    cases.append(("bin", form, ka, kb, shape, shape))
        # arrays with compound elements on either side
        for shape in [(2,), (1, 2)]:
            for ka, kb in (("barrc", "barr"), ("barr", "barrc"), ("barrc", "barrc"), ("iarrc", "iarr"), ("iarr", "iarrc"), ("iarrc", "iarrc"),
                           ("barrc", "bexpr"), ("ilit", "iarrc"), ("blit", "barrc")):
                if ka in ("blit", "ilit") and form == "then_m":
                    continue
                cases.append(("bin", form, ka, kb, shape, shape))
        # shape mismatches
        for ka in ARRS:
            for kb in ARRS:
                for (s1, s2) in [((3,), (1,)), ((2, 3), (3, 2)), ((2, 2), (4,)), ((1, 3), (3,)), ((0,), (1,))]:
                    cases.append(("bin", form, ka, kb, s1, s2))
    for form in ("cond_m", "cond_f"):
        for shape in [(3,), (2, 2), (1, 3), (0,)]:
            for kc in SCALARS + ARRS:
                for kt in SCALARS + ARRS:
                    for kf in SCALARS + ARRS:
                        if tier == "quick" and shape not in [(3,), (2, 2)] and (kc in SCALARS and kt in SCALARS and kf in SCALARS):
                            continue
                        if kc in SCALARS and kt in SCALARS and kf in SCALARS and shape != (3,):
                            continue
                        cases.append(("cond", form, kc, kt, kf, (shape, shape, shape)))
        for (s1, s2, s3) in [((3,), (1,), (3,)), ((2, 2), (2, 2), (4,)), ((2, 3), (3, 2), (2, 3))]:
            cases.append(("cond", form, "barr", "iarr", "iarr", (s1, s2, s3)))
    for form in ("invert", "neg"):
        for shape in SHAPES:
            for ka in ARRS:
                cases.append(("un", form, ka, shape))
        for ka in ("barrc", "iarrc"):
            cases.append(("un", form, ka, (2,)))
        for shape in [(2,), (1, 2)]:
            for opn, (src, vk, _) in COMPOUND.items():
                if vk == ("bool" if form == "invert" else "int"):
                    cases.append(("un", form, ("barr" if vk == "bool" else "iarr") + ":" + opn, shape))
    return cases


def _w(args):
    kind, payload = args
    out = dict(n=0, fails=[], crash=None, samples=[])
    try:
        load_repo()
        if kind == "ops":
            for c in payload:
                if c[0] == "bin":
                    key, f = check_binary(*c[1:])
                elif c[0] == "cond":
                    key, f = check_cond(*c[1:])
                else:
                    key, f = check_unary(*c[1:])
                out["n"] += 1
                if f:
                    f["case"] = list(map(str, c))
                    f["key"] = key
                    out["fails"].append(f)
                elif len(out["samples"]) < 1:
                    out["samples"].append(key)
        elif kind == "helpers":
            for (name, seed) in payload:
                key, f = check_helper(name, seed)
                if key == "skip":
                    continue
                out["n"] += 1
                if f:
                    f["case"] = [name, seed]
                    f["key"] = key
                    out["fails"].append(f)
        elif kind == "wide":
            for k in payload:
                for key, f in check_wide_aggregates(k):
                    out["n"] += 1
                    if f:
                        f["case"] = ["wide", k]
                        f["key"] = key
                        out["fails"].append(f)
        else:
            for seed in payload:
                for key, f in check_array_methods(seed):
                    out["n"] += 1
                    if f:
                        f["case"] = ["methods", seed]
                        f["key"] = key
                        out["fails"].append(f)
    except Exception:
        import traceback
        out["crash"] = traceback.format_exc()[-1500:]
    return out


def classify(f):
    """which call shape the failure belongs to (for specific known-finding signatures)"""
    c = f.get("case", [])
    if c and c[0] in ("bin", "cond", "un"):
        form = c[1]
        kinds = [k for k in c[2:] if isinstance(k, str) and not k.startswith("(")]
        arr = any(k.split(":")[0] in ("barr", "iarr", "barrc", "iarrc") for k in kinds)
        lit = any(k in ("blit", "blit0") for k in kinds)
        return "%s:%s%s" % (form, "array" if arr else "scalar", "+bool-literal" if lit else "")
    return str(c[0]) if c else "?"


def run(rep, tier, seed, nproc=8):
    from concurrent.futures import ProcessPoolExecutor
    from pyvc.runner import write_replay
    cases = all_cases(tier)
    nchunks = 64
    tasks = [("ops", cases[i::nchunks]) for i in range(nchunks)]
    nh = 150 if tier == "quick" else 3000
    hs = [(name, seed * 100000 + k) for k in range(nh) for name in ("count_true", "fold_or", "fold_and", "alldifferent")]
    tasks += [("helpers", hs[i::16]) for i in range(16)]
    tasks += [("methods", [seed * 100 + k]) for k in range(8 if tier == "quick" else 40)]
    wide = [255, 256, 257, 513, 1025] if tier == "quick" else [63, 64, 65, 127, 128, 129, 255, 256, 257, 258, 511, 512, 513, 769, 1023, 1024, 1025, 2049, 4097]
    tasks += [("wide", [k]) for k in wide]
    rep.coverage["wide_aggregates_items"] = wide
    seen = set()
    with ProcessPoolExecutor(nproc) as ex:
        for r in ex.map(_w, tasks):
            rep.evaluations += r["n"]
            if r["crash"]:
                rep.crashes.append(r["crash"])
            for s in r["samples"]:
                if len(rep.samples) < 8:
                    rep.samples.append(s)
            for f in r["fails"]:
                sig = "array:%s:%s" % (f["kind"], classify(f))
                if sig in seen:
                    continue
                seen.add(sig)
                rp = write_replay("C12", f["kind"], dict(engine="arrays", property="C12", **f))
                rep.violation(sig, f["detail"][:400], rp)
    rep.coverage["operator_cases"] = len(cases)
    rep.distinct.update(("c12", i) for i in range(rep.evaluations))


def replay(payload):
    c = payload["case"]
    import ast
    if c[0] in ("bin", "cond", "un"):
        args = [ast.literal_eval(x) if x.startswith("(") else x for x in c[1:]]
        key, f = {"bin": check_binary, "cond": check_cond, "un": check_unary}[c[0]](*args)
    elif c[0] == "methods":
        fs = [f for _, f in check_array_methods(int(c[1])) if f]
        key, f = "methods", (fs[0] if fs else None)
    elif c[0] == "wide":
        fs = [f for _, f in check_wide_aggregates(int(c[1])) if f]
        key, f = "wide", (fs[0] if fs else None)
    else:
        key, f = check_helper(c[0], int(c[1]))
    print("replay", key, "->", f or "holds")
    return 1 if f else 0
