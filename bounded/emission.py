r"""Emission-contract checker (bounded stand-in for the graph-constraint encoders, C04-C10).

Contract evaluated on the REAL emitter f(solver, x, S, opts):
  requires  well-formed solver / structure
  ensures   with Phi = constraints added, Aux = variables added:
            for EVERY assignment alpha of the caller's variables:
                (exists beta over Aux within declared bounds: den(Phi)(alpha, beta))  <=>  Pred(S, alpha)
            and for every model of Phi /\ alpha the returned arrays have the stated values
  frame     earlier constraints/variables untouched, no auxiliary variable is an answer key
The emitter runs once per instance on the real `Solver` class; the emitted constraints are
translated with the reference semantics specs/den.py (not with cspuz/backend) into one incremental
z3 instance; every alpha is decided with assumption literals.  Exhaustive inside the stated scope.
"""
import itertools
import json

import z3

from specs import den
from .common import load_repo


class Inst:
    """what a property module returns for one instance description"""

    def __init__(self, declare, emit, pred, classify=None, expected_exception=None, ghost=None, alphas=None):
        self.alphas = alphas      # optional explicit list of assignments (for instances too large to
                                  # enumerate: structured 'deep' patterns such as long chains)
        self.ghost = ghost        # optional: ret_terms -> list of (payload, z3 formula): extra patterns over
                                  # returned/auxiliary values (e.g. "group ids realise this partition");
                                  # pred is then called as pred(alpha, payload)
        self.declare = declare    # solver -> list of caller variables
        self.emit = emit          # (solver, caller vars) -> returned expressions (flat list) or None
        self.pred = pred          # list of caller values -> bool | (bool, expected returned values)
        self.classify = classify or (lambda alpha: "any")
        self.expected_exception = expected_exception


def run_instance(rep, prop, desc, inst, max_patterns=1 << 17, only_alpha=None):
    cspuz = load_repo()
    from cspuz import Solver
    s = Solver()
    caller0 = None
    if desc.get("twice"):
        # frame condition "two postings on one solver constrain their operands independently": the same
        # emitter is first run on a separate set of caller variables of the same solver; that first posting
        # is later fixed to the reversed pattern (for grids: the board rotated by 180 degrees) whenever the
        # reversed pattern itself satisfies the predicate, and the verdict on alpha must not change
        from . import graphprops as _gp
        _gp.SHARE.update(on=(desc.get("twice") == "shared"), g=None, key=None)
        try:
            caller0 = inst.declare(s)
            inst.emit(s, caller0)
        except Exception:
            caller0 = None
            s = Solver()
            _gp.SHARE.update(on=False, g=None, key=None)
    nv_first = len(s.variables)
    nc_first = len(s.constraints)
    caller = inst.declare(s)
    nv0, nc0 = len(s.variables), len(s.constraints)
    vars0 = list(s.variables)
    cons0 = list(s.constraints)
    fn = desc.get("func", "?")
    base = "emit:%s" % fn

    def viol(kind, cls, detail, alpha=None, extra=None):
        payload = dict(engine="emission", property=prop, desc=desc, alpha=alpha, kind=kind, detail=detail)
        if extra:
            payload.update(extra)
        from pyvc.runner import write_replay
        rp = write_replay(prop, "%s_%s_%s" % (fn, kind, cls), payload)
        rep.violation("%s:%s:%s" % (base, kind, cls), "%s | instance %s | alpha %s" % (detail, json.dumps(desc, sort_keys=True), alpha), rp)

    try:
        try:
            ret = inst.emit(s, caller)
        finally:
            if desc.get("twice"):
                from . import graphprops as _gp2
                _gp2.SHARE.update(on=False, g=None, key=None)
    except Exception as e:
        if inst.expected_exception and isinstance(e, inst.expected_exception):
            rep.case(json.dumps(desc, sort_keys=True), nontrivial=False)
            return 0
        viol("exception", type(e).__name__, "emitter raised %s: %s" % (type(e).__name__, e))
        return 0
    # frame
    if s.variables[:nv0] != vars0 or any(a is not b for a, b in zip(s.variables[:nv0], vars0)):
        viol("frame", "variables", "caller's variables were replaced")
    if len(s.constraints) < nc0 or any(a is not b for a, b in zip(s.constraints[:nc0], cons0)):
        viol("frame", "constraints", "earlier constraints were modified")
    if any(s.is_answer_key[nv0:]):
        viol("frame", "answer-key", "an auxiliary variable was registered as answer key")
    if any(v.id != i for i, v in enumerate(s.variables)):
        viol("frame", "ids", "variable ids are not their positions")
    phi = s.constraints[nc0:] + (s.constraints[:nc_first] if caller0 is not None else [])
    zv, bounds = den.declare(s.variables)
    z = z3.Solver()
    z.add(bounds)
    try:
        for c in phi:
            z.add(den.tz(c, zv))
        ret_terms = [den.tz(r, zv) for r in ret] if ret is not None else None
    except den.IllTyped as e:
        viol("ill-typed", "constraint", "emitted constraint is ill-typed: %s" % e)
        return 0
    # assumption literals
    doms = [den.domain(v) for v in caller]
    total = 1
    for d in doms:
        total *= len(d)
    lits = {}
    for v, d in zip(caller, doms):
        if den.kind_of(v) == "bool":
            lits[v.id] = {True: zv[v.id], False: z3.Not(zv[v.id])}
        else:
            lits[v.id] = {}
            for val in d:
                p = z3.Bool("p_%d_%d" % (v.id, val))
                z.add(p == (zv[v.id] == val))
                lits[v.id][val] = p
    lits0 = None
    if caller0 is not None and len(caller0) == len(caller) and inst.ghost is None:
        lits0 = {}
        for v in caller0:
            if den.kind_of(v) == "bool":
                lits0[v.id] = {True: zv[v.id], False: z3.Not(zv[v.id])}
            else:
                lits0[v.id] = {}
                for val in den.domain(v):
                    p = z3.Bool("p0_%d_%d" % (v.id, val))
                    z.add(p == (zv[v.id] == val))
                    lits0[v.id][val] = p
    only_partner = None
    if only_alpha is not None:
        if isinstance(only_alpha, dict):
            only_partner = only_alpha.get("first_posting")
            only_alpha = only_alpha["alpha"]
        alphas = [tuple(only_alpha)]
    elif inst.alphas is not None:
        alphas = [tuple(a) for a in (inst.alphas(caller) if callable(inst.alphas) else inst.alphas)]
    elif total <= max_patterns:
        alphas = itertools.product(*doms)
    else:
        rnd = __import__("random").Random(rep.seed)
        alphas = (tuple(rnd.choice(d) for d in doms) for _ in range(max_patterns))
    n = 0
    key = json.dumps(desc, sort_keys=True)
    ghosts = [(None, None)]
    if inst.ghost is not None:
        ghosts = inst.ghost(ret_terms)
    alphas = list(alphas)
    for (gp, gformula) in ghosts:
      if gformula is not None:
          z.push()
          z.add(gformula)
      for alpha in alphas:
        partners = [None]
        if caller0 is not None:
            if lits0 is None:
                continue
            # the first posting is fixed to the reversed pattern; in the shared-graph variant with a listed set of
            # patterns also to every other listed pattern
            partners = [list(alpha)[::-1]]
            if desc.get("twice") == "shared" and inst.alphas is not None and len(alphas) <= 40:
                partners += [list(b) for b in alphas if tuple(b) != tuple(alpha)]
            if only_partner is not None:
                partners = [list(only_partner)]
        for partner in partners:
            assumptions = [lits[v.id][val] for v, val in zip(caller, alpha)]
            if partner is not None:
                try:
                    ok_p = all(val in lits0[v.id] for v, val in zip(caller0, partner)) and inst.pred(partner)
                except Exception:
                    ok_p = False
                if isinstance(ok_p, tuple):
                    ok_p = ok_p[0]
                if not ok_p:
                    continue
                assumptions = assumptions + [lits0[v.id][val] for v, val in zip(caller0, partner)]
            n += 1
            r = z.check(*assumptions)
            exp = inst.pred(list(alpha)) if inst.ghost is None else inst.pred(list(alpha), gp)
            exp_ret = None
            if isinstance(exp, tuple):
                exp, exp_ret = exp
            shown = list(alpha) if gp is None else dict(alpha=list(alpha), ghost=gp)
            if partner is not None:
                shown = dict(alpha=list(alpha), first_posting=list(partner))
            if r == z3.unknown:
                rep.undecide("%s %s alpha=%s: solver unknown" % (base, key, shown))
                continue
            got = r == z3.sat
            if got != bool(exp):
                cls = inst.classify(list(alpha)) if inst.ghost is None else inst.classify(list(alpha), gp)
                viol("accepts-but-should-reject" if got else "rejects-but-should-accept", cls,
                     "constraints %s, predicate says %s" % ("satisfiable" if got else "unsatisfiable", bool(exp)), shown)
            elif got and exp_ret is not None and ret_terms is not None:
                if len(exp_ret) != len(ret_terms):
                    viol("returned-shape", "len", "returned %d values, expected %d" % (len(ret_terms), len(exp_ret)), shown)
                else:
                    z.push()
                    z.add(z3.Or([t != (z3.BoolVal(e) if isinstance(e, bool) else z3.IntVal(e)) for t, e in zip(ret_terms, exp_ret)]))
                    r2 = z.check(*assumptions)
                    if r2 == z3.sat:
                        m = z.model()
                        gotv = [z3.is_true(m.eval(t, model_completion=True)) if z3.is_bool(t) else m.eval(t, model_completion=True).as_long() for t in ret_terms]
                        viol("returned-values", inst.classify(list(alpha)), "a model has returned values %s, expected %s" % (gotv, exp_ret), shown)
                    elif r2 == z3.unknown:
                        rep.undecide("%s %s alpha=%s: returned-value query unknown" % (base, key, shown))
                    z.pop()
      if gformula is not None:
          z.pop()
    rep.evaluations += n
    rep.distinct.add(key)
    if len(rep.samples) < 10 and n:
        rep.samples.append(dict(instance=desc, patterns_decided=n, aux_variables=len(s.variables) - nv0, constraints=len(phi)))
    return n


# ------------------------------------------------------------------------------------------------
def _worker(args):
    modname, prop, descs, tier, seed, max_patterns = args
    import importlib
    import traceback
    from pyvc.runner import Report
    rep = Report(prop, tier, seed, "exploration")
    import os, time
    t0 = time.time()
    try:
        mod = importlib.import_module(modname)
        for d in descs:
            t1 = time.time()
            run_instance(rep, prop, d, mod.instantiate(d), max_patterns=max_patterns)
            if os.environ.get("VERIF_DEBUG_TIMES") and time.time() - t1 > 5:
                print("SLOW %.1fs %s" % (time.time() - t1, json.dumps(d, sort_keys=True)), flush=True)
    except Exception:
        rep.crashes.append(traceback.format_exc()[-2000:])
    if os.environ.get("VERIF_DEBUG_TIMES"):
        print("TASK %.1fs n=%d maxp=%d first=%s" % (time.time() - t0, len(descs), max_patterns, json.dumps(descs[0], sort_keys=True)[:100]), flush=True)
    return dict(violations=rep.violations, undecided=rep.undecided, crashes=rep.crashes, evaluations=rep.evaluations,
                distinct=list(rep.distinct), samples=rep.samples)


def run_parallel(rep, prop, modname, descs, max_patterns=1 << 17, nproc=16):
    from concurrent.futures import ProcessPoolExecutor
    descs = list(descs)
    if not descs:
        return
    nchunks = min(len(descs), nproc * 4)
    chunks = [descs[i::nchunks] for i in range(nchunks)]
    tasks = [(modname, prop, c, rep.tier, rep.seed, max_patterns) for c in chunks]
    # history tasks: the emitter must depend on its arguments only (no state carried from earlier
    # calls in the same process): all instances once more inside ONE process, forwards and backwards,
    # grid/frame instances followed by their transposes, on a sample of the patterns
    def _t(d):
        d2 = dict(d)
        for k in ("grid", "frame"):
            if k in d2:
                d2[k] = [d2[k][1], d2[k][0]]
        return d2
    def _moderate(d):
        # instances replayed several times inside one process (history sequences, two postings): structures of moderate
        # size only -- every instance, the large ones included, is still judged once in the plain pass above
        g = d.get("grid") or d.get("frame")
        if g is None:
            return d.get("n", 0) <= 14
        cells = g[0] * g[1] if "grid" in d else (g[0] + 1) * (g[1] + 1)
        return cells <= 36
    hist = [d for d in descs if ("grid" in d or "frame" in d) and _moderate(d) and not d.get("solo")]
    hist = hist[:: max(1, len(hist) // 60)]
    seqs = []
    if hist:
        seq = []
        for d in hist:
            seq += [d, _t(d), d]
        # split into runs of at most 36 instances (12 triples) so that no single process becomes the long pole;
        # state carried between calls shows between neighbours, which stay together
        runs = [seq[i:i + 36] for i in range(0, len(seq), 36)]
        seqs = runs + [list(reversed(r)) for r in runs]
    others = [d for d in descs if not ("grid" in d or "frame" in d)]
    others = others[:: max(1, len(others) // 150)]
    if others:
        seqs += [others + list(reversed(others))]
    tasks += [(modname, prop, sq, rep.tier, rep.seed, 192) for sq in seqs]
    # two postings on one solver (see run_instance): a sample of all instances, the deep ones included
    quick = rep.tier == "quick"
    _small = _moderate
    tw = [d for d in descs if d.get("deep") and not d.get("weave") and not d.get("solo") and _small(d)] + [d for d in descs if not d.get("deep")][:: max(1, len(descs) // (40 if quick else 200))]
    tw = [dict(d, twice=True) for d in tw] + [dict(d, twice="shared") for d in tw if "edges" in d and d.get("edges")]
    ntw = min(len(tw), nproc) or 1
    tasks += [(modname, prop, tw[i::ntw], rep.tier, rep.seed, 96 if quick else 256) for i in range(ntw) if tw[i::ntw]]
    rep.coverage["two_postings_on_one_solver"] = len(tw)
    rep.coverage["history_sequences"] = [len(sq) for sq in seqs]
    seen = set(v["signature"] for v in rep.violations)
    with ProcessPoolExecutor(nproc) as ex:
        for r in ex.map(_worker, tasks):
            for v in r["violations"]:
                if v["signature"] not in seen:
                    seen.add(v["signature"])
                    rep.violations.append(v)
            rep.undecided.extend(r["undecided"])
            rep.crashes.extend(r["crashes"])
            rep.evaluations += r["evaluations"]
            rep.distinct.update(r["distinct"])
            for s in r["samples"]:
                if len(rep.samples) < 10:
                    rep.samples.append(s)


def replay(prop_mod, payload):
    """re-run one recorded (instance, alpha) against the current tree; exit 1 if it still fails"""
    from pyvc.runner import Report
    rep = Report(payload["property"], "quick", 0, "exploration")
    run_instance(rep, payload["property"], payload["desc"], prop_mod.instantiate(payload["desc"]),
                 only_alpha=payload.get("alpha"))
    for v in rep.violations:
        print("replay: still fails:", v["signature"], v["detail"][:300])
    if not rep.violations:
        print("replay: instance passes on this tree")
    return 1 if rep.violations else 0


# ------------------------------------------------------------------------------------------------
# forms in which the caller may pass boolean operands
def bool_forms(form, vars_):
    """returns (x list handed to the emitter, value function alpha -> list of bools)"""
    n = len(vars_)
    if form == "vars":
        return list(vars_), lambda a: list(a)
    if form == "neg":
        return [~v for v in vars_], lambda a: [not b for b in a]
    if form == "xor2":
        return [vars_[i] ^ vars_[(i + 1) % n] for i in range(n)], lambda a: [a[i] != a[(i + 1) % n] for i in range(n)]
    if form == "const":
        # Python constants mixed in: position 0 is the literal True, the last one the literal False (n >= 2)
        x = list(vars_)
        x[0] = True
        if n >= 2:
            x[-1] = False
        def val(a):
            r = list(a)
            r[0] = True
            if n >= 2:
                r[-1] = False
            return r
        return x, val
    if form in ("trues", "falses"):
        # many Python constants: "trues" hands in the literal True at every position i with i % 3 != 2 (so neighbouring
        # positions are both constant), "falses" the literal False at every i with i % 3 == 0
        lit = (form == "trues")
        pick = (lambda i: i % 3 != 2) if lit else (lambda i: i % 3 == 0)
        x = [lit if pick(i) else v for i, v in enumerate(vars_)]
        return x, (lambda a: [lit if pick(i) else b for i, b in enumerate(a)])
    if form == "tied":
        # neighbouring positions hand in the SAME variable object (auxiliary variables must be allocated per position, not per
        # distinct operand)
        return [vars_[(i // 2) * 2] for i in range(n)], lambda a: [a[(i // 2) * 2] for i in range(n)]
    if form == "cmp":
        # every operand is a COMPARISON node equivalent to the variable (>, >=, <, <=, ==, != in turn): an encoder that looks
        # inside its operands (pushing a negation into them, say) must keep their meaning
        def mk(i, v):
            k = i % 6
            one = v.cond(1, 0)
            return [one > 0, one >= 1, (0 < one), (1 <= one), one == 1, one != 0][k]
        return [mk(i, v) for i, v in enumerate(vars_)], lambda a: list(a)
    if form == "ncmp":
        # comparison nodes equivalent to the NEGATION of the variable
        def mk(i, v):
            k = i % 6
            one = v.cond(1, 0)
            return [one < 1, one <= 0, (1 > one), (0 >= one), one == 0, one != 1][k]
        return [mk(i, v) for i, v in enumerate(vars_)], lambda a: [not b for b in a]
    raise ValueError(form)
