"""Bounded engines for C15 (serializer combinators round-trip), C16 (puzzle URL codecs) and C17
(decoding arbitrary text never crashes).  Labelled bounded; never counted as proved."""
import itertools
import json
import random
import re
import sys

from .common import load_repo
from .generator import all_partitions


def PS():
    load_repo()
    import cspuz.problem_serializer as ps
    return ps


# ------------------------------------------------------------------------------------------- values
HEX_BOUNDARY = [0, 1, 9, 10, 15, 16, 17, 100, 255, 256, 257, 1000, 4095]


class Fam:
    """an item-level combinator family: constructor, set of leading characters, chunk generator"""

    def __init__(self, name, make, lead, chunk):
        self.name, self.make, self.lead, self.chunk = name, make, set(lead), chunk


B36 = "0123456789abcdefghijklmnopqrstuvwxyz"


def families(ps, rnd):
    def spaces(space, smallest):
        off = B36.index(smallest) - 1
        mx = 35 - off

        def chunk(r):
            k = r.choice([1, 1, 2, mx - 1, mx, mx + 1, 2 * mx, r.randint(1, mx)])
            return [space] * max(1, k)
        return Fam("Spaces(%r,%s)" % (space, smallest), lambda: ps.Spaces(space, smallest), B36[off + 1:], chunk)

    def hexint():
        return Fam("HexInt", lambda: ps.HexInt(), "0123456789abcdef-+",
                   lambda r: [r.choice(HEX_BOUNDARY) if r.random() < 0.6 else r.randint(0, 4095)])

    def dict1(val, s):
        return Fam("Dict(%r,%r)" % (val, s), lambda: ps.Dict([val], [s]), s[0], lambda r: [val])

    def intspaces(space, mi, ms):
        n = (mi + 1) * (ms + 1)
        return Fam("IntSpaces(%r,%d,%d)" % (space, mi, ms), lambda: ps.IntSpaces(space, mi, ms), B36[:n],
                   lambda r: [r.randint(0, mi)] + [space] * r.choice([0, 0, 1, ms, ms + 1]))

    def multidigit(base, digits):
        return Fam("MultiDigit(%d,%d)" % (base, digits), lambda: ps.MultiDigit(base, digits), B36[:base ** digits],
                   lambda r: [r.randrange(base) for _ in range(digits)])

    return dict(spaces=spaces, hexint=hexint, dict1=dict1, intspaces=intspaces, multidigit=multidigit)


def item_terms(ps, rnd):
    """list of (description, [families]) with pairwise disjoint leading characters"""
    F = families(ps, rnd)
    out = [
        [F["dict1"](-1, "."), F["spaces"](0, "g"), F["hexint"]()],
        [F["spaces"](0, "g"), F["hexint"]()],
        [F["hexint"](), F["spaces"](-1, "g")],
        [F["dict1"](0, "."), F["spaces"](-1, "g"), F["hexint"]()],
        [F["spaces"](-1, "g"), F["intspaces"](-1, 4, 2)],
        [F["multidigit"](3, 3)],
        [F["multidigit"](2, 5)],
        [F["multidigit"](6, 2)],
        [F["hexint"]()],
        [F["spaces"]("e", "z"), F["hexint"]()],
        [F["spaces"](7, "k"), F["intspaces"](7, 3, 3)],
        [F["intspaces"](9, 8, 3)],
        [F["dict1"]("x", "."), F["dict1"]("yy", "_"), F["spaces"](None, "h"), F["hexint"]()],
        # falsy / None values stored in a Dict are values like any other (round-4 seed: a decode table that takes None for a miss)
        [F["dict1"](None, "."), F["dict1"](0, "_"), F["hexint"]()],
        [F["dict1"](False, "x"), F["dict1"]("", "y"), F["dict1"](None, "zz")],
        # texts made of white space are texts like any other (a decoder that "tidies" its input must not touch them)
        [F["dict1"](-1, " "), F["hexint"]()],
        [F["dict1"]("nl", "\n"), F["dict1"]("tab", "\t"), F["spaces"](0, "g")],
        # upper-case letters and other symbols outside [0-9a-z] next to base-36 combinators (a decoder that lets int(c, 36)
        # validate accepts 'X' as 33)
        [F["spaces"](0, "a"), F["dict1"](101, "X"), F["dict1"](102, "Z")],
        [F["intspaces"](-1, 4, 2), F["dict1"](7, "G"), F["dict1"](8, "_")],
        [F["multidigit"](3, 3), F["dict1"](5, "Q")],
    ]
    for fams in out:
        for a, b in itertools.combinations(fams, 2):
            assert not (a.lead & b.lead), "families overlap"
    return out


def make_item(ps, fams):
    cs = [f.make() for f in fams]
    return cs[0] if len(cs) == 1 else ps.OneOf(*cs)


def gen_items(rnd, fams, n):
    out = []
    while len(out) < n:
        out += rnd.choice(fams).chunk(rnd)
    return out[:n]


def canonical_rooms(rooms):
    rs = [sorted(map(tuple, r)) for r in rooms]
    rs.sort(key=lambda r: r[0])
    return rs


# ------------------------------------------------------------------------------------------- C15
def roundtrip_case(ps, comb, value, h, w, expect=None, pre="", rest=""):
    """returns failure dict or None.  expect: canonical expected value (default: value itself)"""
    env = ps.CombinatorEnv(height=h, width=w)
    try:
        res = comb.serialize(env, [value], 0)
    except ValueError:
        return None          # not accepted
    except Exception as e:
        return dict(kind="serialize-exception:%s" % type(e).__name__, detail="serialize raised %s: %s" % (type(e).__name__, e))
    if res is None:
        return None
    k, s = res
    if k != 1:
        return dict(kind="serialize-count", detail="serialize consumed %r items of a 1-item list" % (k,))
    if not isinstance(s, str):
        return dict(kind="serialize-type", detail="serialize returned %r" % (s,))
    text = pre + s + rest
    try:
        d = comb.deserialize(env, text, len(pre))
    except Exception as e:
        return dict(kind="deserialize-exception:%s" % type(e).__name__, detail="deserialize of own output %r raised %s: %s" % (s, type(e).__name__, e))
    if d is None:
        return dict(kind="own-output-rejected", detail="deserialize rejects the serialized text %r" % (s,))
    n, items = d
    want = value if expect is None else expect
    if n != len(s):
        return dict(kind="consumed-length", detail="deserialize consumed %d of the %d produced characters %r" % (n, len(s), s))
    if items != [want]:
        return dict(kind="value-differs", detail="decoded %r from %r, expected %r" % (items, s, [want]))
    return None


def c15_cases(ps, rnd, tier):
    """yields (term description, combinator, value, h, w, expected-or-None, shape class)"""
    terms = item_terms(ps, rnd)
    shapes = [(1, 1), (1, 2), (2, 1), (1, 5), (5, 1), (2, 2), (2, 3), (3, 2), (3, 3), (4, 4), (1, 40), (6, 7)]
    reps = 2 if tier == "quick" else 12
    for fams in terms:
        desc = "OneOf(" + ",".join(f.name for f in fams) + ")"
        for (h, w) in shapes:
            for _ in range(reps):
                item = make_item(ps, fams)
                grid = [gen_items(rnd, fams, w) for _ in range(h)]
                # rows ending in partial digit groups / runs crossing row ends are covered by flattening
                flat = gen_items(rnd, fams, h * w)
                grid2 = [flat[y * w:(y + 1) * w] for y in range(h)]
                for g in (grid, grid2):
                    yield ("Grid(%s)" % desc, ps.Grid(item), g, h, w, None, _shape_cls(h, w))
                yield ("Grid(%s,%d,%d)" % (desc, w, h), ps.Grid(item, height=w, width=h),
                       [flat[y * h:(y + 1) * h] for y in range(w)], 3, 3, None, "explicit-dims")
                n = rnd.choice([1, 2, 3, 5, h * w, 36, 37])
                yield ("Seq(%s,%d)" % (desc, n), ps.Seq(item, n), gen_items(rnd, fams, n), h, w, None, "seq")
                # Tupl of two containers separated by a FixStr
                n2 = rnd.choice([1, 4])
                t = ps.Tupl(ps.Grid(item), ps.FixStr("/"), ps.Seq(make_item(ps, fams), n2), ps.FixStr("!"), ps.DecInt())
                yield ("Tupl(Grid(%s),'/',Seq(..,%d),'!',DecInt)" % (desc, n2), t,
                       ([grid2], [], [gen_items(rnd, fams, n2)], [], [rnd.choice([0, 7, 10, 123456])]), h, w, None, _shape_cls(h, w))
                # Seq of Tupl
                st = ps.Seq(ps.Tupl(make_item(ps, [fams[-1]]) if fams[-1].name == "HexInt" else ps.HexInt(), ps.FixStr(".")), 3)
                yield ("Seq(Tupl(HexInt,'.'),3)", st, [([rnd.choice(HEX_BOUNDARY)], []) for _ in range(3)], h, w, None, "seq")
    # leaves alone, all boundary values
    for v in HEX_BOUNDARY + list(range(0, 40)):
        yield ("Seq(HexInt,1)", ps.Seq(ps.HexInt(), 1), [v], 1, 1, None, "leaf")
        yield ("Tupl(DecInt)", ps.Tupl(ps.DecInt()), ([v * 37],), 1, 1, None, "leaf")
    # components whose text is empty (a Seq of no items, the rooms of a one-cell board) inside a container: items are produced
    # although no character is consumed
    for n in (1, 2, 3):
        yield ("Seq(Seq(HexInt,0),%d)" % n, ps.Seq(ps.Seq(ps.HexInt(), 0), n), [[] for _ in range(n)], 2, 2, None, "empty-text")
        yield ("Seq(Tupl(Seq(HexInt,0)),%d)" % n, ps.Seq(ps.Tupl(ps.Seq(ps.HexInt(), 0)), n), [([[]],) for _ in range(n)], 2, 2, None, "empty-text")
        yield ("Seq(Rooms,%d)@1x1" % n, ps.Seq(ps.Rooms(), n), [[[(0, 0)]] for _ in range(n)], 1, 1, None, "empty-text")
        yield ("Seq(Tupl(Seq(HexInt,0),HexInt),%d)" % n, ps.Seq(ps.Tupl(ps.Seq(ps.HexInt(), 0), ps.HexInt()), n),
               [([[]], [j + 20]) for j in range(n)], 2, 2, None, "empty-text")
    for (h, w) in ((1, 1), (2, 3)):
        yield ("Grid(Seq(HexInt,0))", ps.Grid(ps.Seq(ps.HexInt(), 0)), [[[] for _ in range(w)] for _ in range(h)], h, w, None, "empty-text")
    # rooms: every partition of the small boards, rooms and cells in shuffled order
    boards = [(1, 1), (1, 2), (2, 1), (1, 3), (3, 1), (1, 4), (2, 2), (2, 3), (3, 2)] + ([(1, 6), (6, 1), (2, 4), (3, 3)] if tier != "quick" else [])
    for (h, w) in boards:
        parts = list(all_partitions(h, w))
        if len(parts) > 200 and tier == "quick":
            parts = rnd.sample(parts, 200)
        for P in parts:
            orders = [P]
            if h * w <= 4:
                orders = [list(p) for p in itertools.permutations(P)][:24]
            else:
                q = [list(b) for b in P]
                rnd.shuffle(q)
                for b in q:
                    rnd.shuffle(b)
                orders = [P, q]
            for rooms in orders:
                rooms = [list(r) for r in rooms]
                canon = canonical_rooms(rooms)
                yield ("Rooms", ps.Rooms(), rooms, h, w, canon, _shape_cls(h, w))
                vals = [rnd.choice([-1, 0, 3, 15, 16, 300]) for _ in rooms]
                vr = ps.ValuedRooms(ps.OneOf(ps.HexInt(), ps.Spaces(-1, "g")))
                by = {tuple(sorted(map(tuple, r))): v for r, v in zip(rooms, vals)}
                yield ("ValuedRooms", vr, (rooms, vals), h, w, (canon, [by[tuple(r)] for r in canon]), _shape_cls(h, w))


def _shape_cls(h, w):
    if h == 1 and w == 1:
        return "1x1"
    if h == 1 or w == 1:
        return "single-row-or-column"
    return "h,w>=2"


def _scribble(x):
    """edit a decoded problem in place wherever it is a mutable container (lists inside tuples included)"""
    if isinstance(x, list):
        for y in x:
            _scribble(y)
        if x and not isinstance(x[0], (list, tuple)):
            x[0] = ("scribbled", x[0])
        x.append("scribbled")
    elif isinstance(x, tuple):
        for y in x:
            _scribble(y)


def run_c15(rep, tier, seed):
    from pyvc.runner import write_replay
    ps = PS()
    rnd = random.Random(seed)
    seen = set()
    n = 0
    for (desc, comb, value, h, w, expect, cls) in c15_cases(ps, rnd, tier):
        for (pre, rest) in (("", ""), ("x/", "/")):
            n += 1
            f = roundtrip_case(ps, comb, value, h, w, expect, pre, rest)
            if f:
                top = desc.split("(")[0]
                sig = "roundtrip:%s:%s:%s" % (top, f["kind"], cls)
                if sig not in seen:
                    seen.add(sig)
                    payload = dict(engine="codecs-c15", property="C15", term=desc, value=value, height=h, width=w, pre=pre, rest=rest, **f)
                    rp = write_replay("C15", "%s_%s" % (top, f["kind"]), payload)
                    rep.violation(sig, "%s | term %s on %dx%d | value %s" % (f["detail"][:300], desc, h, w, json.dumps(value, default=str)[:200]), rp)
        # top-level API
        try:
            s = ps.serialize_problem(comb, value, height=h, width=w)
            back = ps.deserialize_problem(comb, s, height=h, width=w)
            if back != (value if expect is None else expect):
                f = dict(kind="toplevel-value-differs", detail="deserialize_problem(serialize_problem(v)) = %r" % (back,))
            else:
                f = None
        except (ValueError, AssertionError) as e:
            f = None if isinstance(e, ValueError) else None
        except Exception as e:
            f = None  # already reported above through the combinator interface
        if f:
            sig = "roundtrip:%s:%s:%s" % (desc.split("(")[0], f["kind"], cls)
            if sig not in seen:
                seen.add(sig)
                rp = write_replay("C15", f["kind"], dict(engine="codecs-c15", property="C15", term=desc, value=value, height=h, width=w, **f))
                rep.violation(sig, "%s | term %s" % (f["detail"][:300], desc), rp)
        rep.distinct.add((desc, h, w, json.dumps(value, default=str)[:120]))
        if len(rep.samples) < 8 and rnd.random() < 0.002:
            rep.samples.append(dict(term=desc, board=[h, w], value=json.loads(json.dumps(value, default=str))))
    # history: ONE combinator object per term, used for boards of different shapes one after the other
    # (equal areas next to each other, a shape followed by its transpose), serialising and decoding
    seq_shapes = [(2, 3), (3, 2), (2, 3), (1, 6), (6, 1), (4, 6), (6, 4), (3, 8), (2, 2), (4, 1), (1, 4), (2, 2), (3, 4), (4, 3), (2, 6), (3, 4)]
    for fams in item_terms(ps, rnd):
        desc = "shared Grid(OneOf(" + ",".join(f.name for f in fams) + "))"
        shared = [("Grid", ps.Grid(make_item(ps, fams))), ("Tupl", ps.Tupl(ps.DecInt(), ps.FixStr("/"), ps.Grid(make_item(ps, fams))))]
        for (top, comb) in shared:
            for rounds in range(2):
                for (h, w) in seq_shapes:
                    flat = gen_items(rnd, fams, h * w)
                    g = [flat[y * w:(y + 1) * w] for y in range(h)]
                    val = g if top == "Grid" else ([7], [], [g])
                    n += 1
                    f = roundtrip_case(ps, comb, val, h, w)
                    if f is None and rounds == 1:
                        # decode a text of another shape in between (decode-only step)
                        try:
                            comb.deserialize(ps.CombinatorEnv(height=w + 1, width=h), "0" * 4, 0)
                        except Exception:
                            pass
                    if f:
                        sig = "roundtrip-shared-instance:%s:%s" % (top, f["kind"])
                        if sig not in seen:
                            seen.add(sig)
                            rp = write_replay("C15", "shared_" + f["kind"], dict(engine="codecs-c15", property="C15", term=desc, value=val, height=h, width=w, **f))
                            rep.violation(sig, "%s | %s reused across board shapes, now %dx%d" % (f["detail"][:300], desc, h, w), rp)
    for (top, mk) in (("Rooms", lambda: ps.Rooms()), ("ValuedRooms", lambda: ps.ValuedRooms(ps.OneOf(ps.HexInt(), ps.Spaces(-1, "g"))))):
        comb = mk()
        for rounds in range(2):
            for (h, w) in [(4, 3), (2, 3), (4, 3), (3, 4), (2, 2), (3, 2), (2, 3), (1, 5), (5, 1)]:
                rooms = random_rooms(rnd, h, w)
                canon = canonical_rooms(rooms)
                val, exp = (rooms, canon) if top == "Rooms" else ((rooms, list(range(len(rooms)))), None)
                if top == "ValuedRooms":
                    by = {tuple(sorted(map(tuple, r))): v for r, v in zip(rooms, range(len(rooms)))}
                    exp = (canon, [by[tuple(r)] for r in canon])
                n += 1
                f = roundtrip_case(ps, comb, val, h, w, exp)
                if rounds == 1 and f is None:
                    # same size again after a decode-only step on ANOTHER size (A, decode B, A)
                    bh, bw = (2, 3) if (h, w) != (2, 3) else (3, 3)
                    try:
                        q = random_rooms(rnd, bh, bw)
                        tb = ps.Rooms().serialize(ps.CombinatorEnv(height=bh, width=bw), [q], 0)[1] + "g" * 9
                        comb.deserialize(ps.CombinatorEnv(height=bh, width=bw), tb, 0)
                    except Exception:
                        pass
                    f = roundtrip_case(ps, comb, val, h, w, exp)
                if f is None and h >= 2 and w >= 2:
                    # the same size again after a text of THAT size was refused (one border segment inside a room: redundant)
                    try:
                        vert = [[1 if (y, x) == (0, 0) else 0 for x in range(w - 1)] for y in range(h)]
                        hori = [[0] * w for _ in range(h - 1)]
                        env_ = ps.CombinatorEnv(height=h, width=w)
                        md = lambda: ps.MultiDigit(base=2, digits=5)
                        tb = ps.Tupl(ps.Grid(md(), height=h, width=w - 1), ps.Grid(md(), height=h - 1, width=w)).serialize(env_, [([vert], [hori])], 0)[1]
                        refused = False
                        try:
                            refused = comb.deserialize(env_, tb + "g" * 9, 0) is None
                        except ValueError:
                            refused = True
                        rep.coverage["refused_texts_before_a_round_trip"] = rep.coverage.get("refused_texts_before_a_round_trip", 0) + (1 if refused else 0)
                    except Exception:
                        pass
                    n += 1
                    f = roundtrip_case(ps, comb, val, h, w, exp)
                if f:
                    sig = "roundtrip-shared-instance:%s:%s" % (top, f["kind"])
                    if sig not in seen:
                        seen.add(sig)
                        rp = write_replay("C15", "shared_" + f["kind"], dict(engine="codecs-c15", property="C15", term=top, value=val, height=h, width=w, **f))
                        rep.violation(sig, "%s | one %s object reused across board sizes, now %dx%d" % (f["detail"][:300], top, h, w), rp)
    rep.evaluations += n
    if not rep.samples:
        rep.samples.append(dict(term="Grid(OneOf(...))", note="see rule"))


# ------------------------------------------------------------------------------------------- C16
def grid_of(rnd, h, w, alphabet, p_empty, empty):
    return [[empty if rnd.random() < p_empty else rnd.choice(alphabet) for _ in range(w)] for _ in range(h)]


def random_rooms(rnd, h, w):
    cells = [(y, x) for y in range(h) for x in range(w)]
    k = rnd.randint(1, max(1, min(len(cells), 6)))
    seeds = rnd.sample(cells, k)
    owner = {c: i for i, c in enumerate(seeds)}
    frontier = list(seeds)
    while len(owner) < len(cells):
        c = rnd.choice(frontier)
        nb = [(c[0] + dy, c[1] + dx) for dy, dx in ((1, 0), (-1, 0), (0, 1), (0, -1))]
        nb = [p for p in nb if 0 <= p[0] < h and 0 <= p[1] < w and p not in owner]
        if not nb:
            frontier.remove(c)
            continue
        p = rnd.choice(nb)
        owner[p] = owner[c]
        frontier.append(p)
    rooms = [[] for _ in range(k)]
    for c in cells:
        rooms[owner[c]].append(c)
    return rooms


URL_RE = re.compile(r"^https?://[^/]+/p(?:\.html)?\?([^/]+)/(\d+)/(\d+)/(.*)$")


class Mod:
    def __init__(self, name, urlname, module, gen, enc, dec, canon=None, kind="grid"):
        self.name, self.urlname, self.module, self.gen, self.enc, self.dec, self.canon, self.kind = name, urlname, module, gen, enc, dec, canon or (lambda p: p), kind


def modules():
    load_repo()
    import importlib
    M = lambda n: importlib.import_module("cspuz.puzzle." + n)
    nk, ms, sl, su, nm, yj, hw, lt, nn, cp, sb, aq = (M(n) for n in ("nurikabe", "masyu", "slitherlink", "sudoku", "nurimisaki", "yajilin",
                                                                     "heyawake", "lits", "norinori", "compass", "star_battle", "aquarium"))

    def yaj_grid(rnd, h, w, big=False):
        def cell():
            r = rnd.random()
            if r < 0.55:
                return ".."
            if r < 0.62:
                return "??"
            n = rnd.choice([0, 1, 2, 9, 10, 15] + ([16, 17, 40] if big else []))
            return rnd.choice("^v<>") + str(n)
        return [[cell() for _ in range(w)] for _ in range(h)]

    def rooms_canon(res):
        h, w, rooms = res
        return (h, w, canonical_rooms(rooms))

    def hw_gen(rnd, h, w):
        rooms = random_rooms(rnd, h, w)
        rnd.shuffle(rooms)
        for r in rooms:
            rnd.shuffle(r)
        return (rooms, [rnd.choice([-1, -1, 0, 1, 5, 15, 16, 255]) for _ in rooms])

    def hw_canon(res):
        h, w, (rooms, clues) = res
        by = {tuple(sorted(map(tuple, r))): c for r, c in zip(rooms, clues)}
        cr = canonical_rooms(rooms)
        return (h, w, (cr, [by[tuple(r)] for r in cr]))

    def compass_gen(rnd, h, w):
        cells = [(y, x) for y in range(h) for x in range(w)]
        k = rnd.randint(0, min(4, len(cells)))
        pos = []
        for (y, x) in sorted(rnd.sample(cells, k)):
            pos.append((y, x) + tuple(rnd.choice([-1, -1, 0, 1, 9, 15, 16, 255]) for _ in range(4)))
        return pos

    out = [
        Mod("nurikabe", "nurikabe", nk, lambda r, h, w: grid_of(r, h, w, [-1, 1, 2, 9, 15, 16, 255, 300], 0.6, 0), lambda h, w, p: nk.serialize_nurikabe(p), nk.deserialize_nurikabe),
        Mod("masyu", "masyu", ms, lambda r, h, w: grid_of(r, h, w, [1, 2], 0.6, 0), lambda h, w, p: ms.serialize_masyu(p), ms.deserialize_masyu),
        Mod("slitherlink", "slither", sl, lambda r, h, w: grid_of(r, h, w, [0, 1, 2, 3, 4], 0.6, -1), lambda h, w, p: sl.serialize_slitherlink(p), sl.deserialize_slitherlink),
        Mod("sudoku", "sudoku", su, lambda r, h, w: grid_of(r, h, w, list(range(1, 26)), 0.6, 0), lambda h, w, p: su.serialize_sudoku(p), su.deserialize_sudoku),
        Mod("nurimisaki", "nurimisaki", nm, lambda r, h, w: grid_of(r, h, w, [0, 2, 3, 9, 15, 16, 20], 0.6, -1), lambda h, w, p: nm.serialize_nurimisaki(p), nm.deserialize_nurimisaki),
        Mod("yajilin", "yajilin", yj, yaj_grid, lambda h, w, p: yj.serialize_yajilin(p), yj.deserialize_yajilin),
        Mod("heyawake", "heyawake", hw, hw_gen, lambda h, w, p: hw.serialize_heyawake(h, w, p[0], p[1]), hw.deserialize_heyawake, hw_canon, kind="rooms+values"),
        Mod("lits", "lits", lt, lambda r, h, w: random_rooms(r, h, w), lambda h, w, p: lt.serialize_lits(h, w, p), lt.deserialize_lits, rooms_canon, kind="rooms"),
        Mod("norinori", "norinori", nn, lambda r, h, w: random_rooms(r, h, w), lambda h, w, p: nn.serialize_norinori(h, w, p), nn.deserialize_norinori, rooms_canon, kind="rooms"),
        Mod("compass", "compass", cp, compass_gen, lambda h, w, p: cp.to_puzz_link_url(h, w, p), cp.parse_puzz_link_url, kind="compass"),
    ]
    return out, dict(star_battle=sb, aquarium=aq)


def expected_of(m, h, w, p):
    """what decode(encode(p)) must return for module m"""
    if m.kind == "grid":
        return p
    if m.kind == "rooms":
        return (h, w, canonical_rooms(p))
    if m.kind == "rooms+values":
        by = {tuple(sorted(map(tuple, r))): c for r, c in zip(p[0], p[1])}
        cr = canonical_rooms(p[0])
        return (h, w, (cr, [by[tuple(r)] for r in cr]))
    if m.kind == "compass":
        return (h, w, list(p))
    raise ValueError(m.kind)


def run_c16(rep, tier, seed):
    from pyvc.runner import write_replay
    ps = PS()
    from cspuz.puzzle import util
    rnd = random.Random(seed)
    mods, producers = modules()
    try:
        from specs import pzpr
        pz_ok = set(getattr(pzpr, "SUPPORTED", []))
        bad = pzpr.selftest() if hasattr(pzpr, "selftest") else []
        if bad:
            rep.crashes.append("specs/pzpr.py fails its own validation on recorded pairs: %s" % bad[:3])
            pz_ok = set()
    except ImportError:
        pzpr, pz_ok = None, set()
    rep.coverage["pzpr_oracle_genres"] = sorted(pz_ok)
    shapes = [(1, 1), (1, 2), (2, 1), (1, 5), (4, 1), (2, 2), (2, 3), (3, 2), (3, 3), (4, 6), (6, 7), (7, 5)]
    reps = 6 if tier == "quick" else 80
    seen = set()

    def viol(sig, detail, payload):
        if sig in seen:
            return
        seen.add(sig)
        rp = write_replay("C16", sig.replace(":", "_")[:60], dict(engine="codecs-c16", property="C16", **payload))
        rep.violation(sig, detail[:500], rp)

    for m in mods:
        for (h, w) in shapes:
            for i in range(reps):
                p = m.gen(rnd, h, w) if m.name != "yajilin" else m.gen(rnd, h, w, big=(i % 4 == 3))
                cls = _shape_cls(h, w) + ("" if m.name != "yajilin" else (",has-??" if any("??" in r for r in p) else "") + (",clue>=16" if any(c[1:].isdigit() and int(c[1:]) >= 16 for r in p for c in r) else ""))
                rep.evaluations += 1
                rep.distinct.add((m.name, h, w, json.dumps(p, default=str)[:150]))
                payload = dict(module=m.name, height=h, width=w, problem=p)
                try:
                    url = m.enc(h, w, p)
                except Exception as e:
                    viol("url:%s:encode-exception:%s:%s" % (m.name, type(e).__name__, cls), "%s: encoding raised %s: %s | problem %s" % (m.name, type(e).__name__, e, json.dumps(p, default=str)[:200]), payload)
                    continue
                mm = URL_RE.match(url)
                if not mm or mm.group(1) != m.urlname or int(mm.group(2)) != w or int(mm.group(3)) != h:
                    viol("url:%s:header:%s" % (m.name, "square" if h == w else "non-square"), "%s: URL %s does not carry name/width/height = %s/%d/%d" % (m.name, url, m.urlname, w, h), dict(url=url, **payload))
                    continue
                try:
                    back = m.dec(url)
                except Exception as e:
                    viol("url:%s:decode-exception:%s:%s" % (m.name, type(e).__name__, cls), "%s: decoding its own URL %s raised %s: %s" % (m.name, url, type(e).__name__, e), dict(url=url, **payload))
                    continue
                exp = expected_of(m, h, w, p)
                if back != exp:
                    viol("url:%s:roundtrip:%s" % (m.name, cls), "%s: decode(encode(p)) differs: URL %s gives %s, expected %s" % (m.name, url, json.dumps(back, default=str)[:200], json.dumps(exp, default=str)[:200]), dict(url=url, **payload))
                if pzpr is not None and m.name in pz_ok:
                    try:
                        d = pzpr.decode(m.name, url, strict=False)
                        got = (d["height"], d["width"], d["problem"])
                        want = exp if isinstance(exp, tuple) and len(exp) == 3 and m.kind != "grid" else (h, w, exp)
                        if m.kind in ("rooms",):
                            want = (h, w, exp[2])
                        elif m.kind == "rooms+values":
                            want = (h, w, exp[2])
                        elif m.kind == "compass":
                            want = (h, w, exp[2])
                        if _norm(got) != _norm(want):
                            viol("pzpr:%s:differs:%s" % (m.name, cls), "%s: independent pzpr decoder reads %s from %s, problem is %s" % (m.name, json.dumps(got, default=str)[:200], url, json.dumps(want, default=str)[:200]), dict(url=url, **payload))
                    except ValueError as e:
                        if type(e).__name__ == "Unrepresentable":
                            continue
                        viol("pzpr:%s:rejects:%s" % (m.name, cls), "%s: independent pzpr decoder rejects %s: %s" % (m.name, url, e), dict(url=url, **payload))
    # history on the module-level codecs: encode a problem of size A, decode a URL of another size B,
    # encode the same problem again: same text, and it still decodes to the problem
    for m in mods:
        for (A, Bs) in [((4, 3), (2, 3)), ((2, 3), (3, 2)), ((3, 3), (1, 5)), ((1, 4), (4, 1)), ((6, 4), (4, 6))]:
            for _ in range(max(2, reps // 3)):
                try:
                    pa = m.gen(rnd, *A)
                    pb = m.gen(rnd, *Bs)
                    if m.name == "yajilin":
                        continue_ = False
                    ub = m.enc(Bs[0], Bs[1], pb)       # produced first, so that the steps under test are exactly:
                    u1 = m.enc(A[0], A[1], pa)         #   encode A
                    m.dec(ub)                          #   decode B
                                                       #   encode A again
                    u2 = m.enc(A[0], A[1], pa)
                    back = m.dec(u2)
                except Exception as e:
                    if m.name == "yajilin":
                        continue        # clues >= 16 are a recorded finding
                    viol("url:%s:history-exception:%s" % (m.name, type(e).__name__), "%s: encode %dx%d, decode %dx%d, encode %dx%d again raised %s: %s" % (m.name, A[0], A[1], Bs[0], Bs[1], A[0], A[1], type(e).__name__, e), dict(module=m.name, problem=pa))
                    continue
                rep.evaluations += 1
                if u1 != u2:
                    viol("url:%s:history-text-differs" % m.name, "%s: the URL of the same %dx%d problem changed after decoding a %dx%d URL: %s vs %s" % (m.name, A[0], A[1], Bs[0], Bs[1], u1, u2), dict(module=m.name, problem=pa))
                elif m.name != "yajilin" and back != expected_of(m, A[0], A[1], pa):
                    viol("url:%s:history-roundtrip" % m.name, "%s: after decoding another size the %dx%d problem no longer round-trips" % (m.name, A[0], A[1]), dict(module=m.name, problem=pa))
    # a decoded problem belongs to the caller: editing it in place must not change what the same URL decodes to next time
    import copy as _copy
    for m in mods:
        if m.name == "yajilin":
            continue
        for (h, w) in [(2, 3), (3, 3)]:
            for _ in range(2):
                try:
                    p0 = m.gen(rnd, h, w)
                    u = m.enc(h, w, p0)
                    first = m.dec(u)
                    want = _copy.deepcopy(first)
                    _scribble(first)
                    second = m.dec(u)
                except Exception as e:
                    viol("url:%s:decode-twice-exception:%s" % (m.name, type(e).__name__), "%s: decode, edit the result, decode again raised %s: %s" % (m.name, type(e).__name__, e), dict(module=m.name, problem=p0))
                    continue
                rep.evaluations += 1
                if second != want:
                    viol("url:%s:decoded-problem-shared-with-later-calls" % m.name, "%s: after the caller edited the problem it had decoded from %s, decoding the same URL again gives %r instead of %r" % (m.name, u, second, want), dict(module=m.name, url=u))
    # producers without decoder: star_battle, aquarium
    sb, aq = producers["star_battle"], producers["aquarium"]
    for n in (1, 2, 3, 5, 6):
        for _ in range(reps):
            rooms = random_rooms(rnd, n, n)
            bid = util.blocks_to_block_id(n, n, rooms)
            k = rnd.randint(1, 2)
            rep.evaluations += 1
            try:
                url = sb.problem_to_pzv_url(n, k, bid)
            except Exception as e:
                viol("url:star_battle:encode-exception:%s:%s" % (type(e).__name__, _shape_cls(n, n)), "star_battle URL raised %s: %s" % (type(e).__name__, e), dict(n=n, k=k, blocks=bid))
                continue
            mm = re.match(r"^https?://[^/]+/p(?:\.html)?\?starbattle/(\d+)/(\d+)/(\d+)/(.*)$", url)
            if not mm or int(mm.group(1)) != n or int(mm.group(2)) != n or int(mm.group(3)) != k:
                viol("url:star_battle:header", "star battle URL %s does not carry starbattle/%d/%d/%d" % (url, n, n, k), dict(url=url))
            elif pzpr is not None and "star_battle" in pz_ok:
                try:
                    d = pzpr.decode("star_battle", url, strict=False)
                    if canonical_rooms(d["extra"]["rooms"]) != canonical_rooms(rooms) or d["extra"].get("k") != k:
                        viol("pzpr:star_battle:differs:%s" % _shape_cls(n, n), "pzpr decoder reads other rooms from %s" % url, dict(url=url, rooms=rooms))
                except ValueError as e:
                    viol("pzpr:star_battle:rejects:%s" % _shape_cls(n, n), "pzpr decoder rejects %s: %s" % (url, e), dict(url=url))
    for (h, w) in shapes[:10]:
        for _ in range(reps):
            rooms = random_rooms(rnd, h, w)
            cr = [rnd.choice([-1, 0, 1, w]) for _ in range(h)]
            cc = [rnd.choice([-1, 0, 1, h]) for _ in range(w)]
            rep.evaluations += 1
            try:
                url = aq.problem_to_url(h, w, rooms, cr, cc)
            except Exception as e:
                viol("url:aquarium:encode-exception:%s:%s" % (type(e).__name__, _shape_cls(h, w)), "aquarium URL raised %s: %s" % (type(e).__name__, e), dict(height=h, width=w, rooms=rooms))
                continue
            mm = URL_RE.match(url)
            if not mm or mm.group(1) != "aquarium" or int(mm.group(2)) != w or int(mm.group(3)) != h:
                viol("url:aquarium:header:%s" % ("square" if h == w else "non-square"), "aquarium URL %s does not carry aquarium/%d/%d" % (url, w, h), dict(url=url))
            elif False and pzpr is not None and "aquarium" in pz_ok:
                # not compared: whether pzpr separates the border data from the clue numbers with '/'
                # cannot be verified offline (no recorded aquarium URL exists in the repository)
                try:
                    d = pzpr.decode("aquarium", url)
                    pr = d["problem"]
                    got = (canonical_rooms(pr["rooms"] if isinstance(pr, dict) else pr[0]), list(pr["clue_row"] if isinstance(pr, dict) else pr[1]), list(pr["clue_col"] if isinstance(pr, dict) else pr[2]))
                    if got != (canonical_rooms(rooms), cr, cc):
                        viol("pzpr:aquarium:differs:%s" % _shape_cls(h, w), "pzpr decoder reads %s from %s, problem is %s" % (json.dumps(got)[:200], url, json.dumps((canonical_rooms(rooms), cr, cc))[:200]), dict(url=url))
                except ValueError as e:
                    viol("pzpr:aquarium:rejects:%s" % _shape_cls(h, w), "pzpr decoder rejects %s: %s" % (url, e), dict(url=url))
    # legacy helper encoders vs combinator codecs on identical data
    for (h, w) in shapes:
        for _ in range(reps):
            g = grid_of(rnd, h, w, HEX_BOUNDARY, 0.6, None)
            rep.evaluations += 1
            a = util.encode_array(g, empty=None, dim=2)
            b = ps.serialize_problem(ps.Grid(ps.OneOf(ps.Spaces(None, "g"), ps.HexInt())), g, height=h, width=w)
            if a != b:
                viol("legacy:encode_array:%s" % _shape_cls(h, w), "util.encode_array gives %r, Grid(OneOf(Spaces,HexInt)) gives %r for %s" % (a, b, g), dict(grid=g))
            rooms = random_rooms(rnd, h, w)
            a = util.encode_grid_segmentation(h, w, util.blocks_to_block_id(h, w, rooms))
            try:
                b = ps.serialize_problem(ps.Rooms(), rooms, height=h, width=w)
            except Exception as e:
                b = "exception %s" % type(e).__name__
            if a != b:
                viol("legacy:encode_grid_segmentation:%s" % _shape_cls(h, w), "util.encode_grid_segmentation gives %r, Rooms gives %r on %dx%d" % (a, b, h, w), dict(rooms=rooms, height=h, width=w))
    if not rep.samples:
        rep.samples.append(dict(module="nurikabe", example="https://puzz.link/p?nurikabe/W/H/body"))


def _norm(v):
    return json.loads(json.dumps(v, default=str))


# ------------------------------------------------------------------------------------------- C17
ALLOWED = (ValueError,)
ALPHABET = "0145 9afgz-+."


def well_formed(m, h, w, p):
    """the returned problem has the stated dimensions"""
    if m.kind == "grid":
        return isinstance(p, list) and len(p) == h and all(isinstance(r, list) and len(r) == w for r in p)
    if m.kind in ("rooms", "rooms+values"):
        hh, ww, body = p
        rooms = body if m.kind == "rooms" else body[0]
        cells = sorted(c for r in rooms for c in r)
        return (hh, ww) == (h, w) and cells == [(y, x) for y in range(h) for x in range(w)] and (m.kind == "rooms" or len(body[1]) == len(rooms))
    if m.kind == "compass":
        hh, ww, pos = p
        return (hh, ww) == (h, w) and all(0 <= t[0] < h and 0 <= t[1] < w for t in pos)
    return True


def decode_case(m, url, declared):
    """returns (outcome, failure) ; failure is a dict or None"""
    try:
        p = m.dec(url)
    except ALLOWED:
        return "ValueError", None
    except RecursionError as e:
        return "exc", dict(kind="exception:RecursionError", detail="%s raised RecursionError" % m.name)
    except Exception as e:
        return "exc", dict(kind="exception:%s" % type(e).__name__, detail="%s: %s: %s" % (m.name, type(e).__name__, str(e)[:120]))
    if p is None:
        return "None", None
    if declared is not None:
        h, w = declared
        try:
            ok = well_formed(m, h, w, p)
        except Exception:
            ok = False
        if not ok:
            return "problem", dict(kind="wrong-dimensions", detail="%s returned a problem that does not have the declared size %dx%d: %s" % (m.name, h, w, json.dumps(p, default=str)[:150]))
        # re-encode, decode again
        try:
            body = p if m.kind == "grid" else p[2]
            url2 = m.enc(h, w, body)
            p2 = m.dec(url2)
        except Exception as e:
            return "problem", dict(kind="returned-problem-not-reencodable:%s" % type(e).__name__, detail="%s: problem decoded from %r cannot be re-encoded/decoded: %s: %s" % (m.name, url, type(e).__name__, str(e)[:100]))
        if p2 != p:
            return "problem", dict(kind="not-idempotent", detail="%s: decode(encode(p)) != p for p decoded from %r: %s vs %s" % (m.name, url, json.dumps(p2, default=str)[:120], json.dumps(p, default=str)[:120]))
    return "problem", None


def run_c17(rep, tier, seed):
    from pyvc.runner import write_replay
    ps = PS()
    rnd = random.Random(seed)
    mods, _ = modules()
    seen = set()
    outcomes = {}

    def viol(sig, detail, payload):
        if sig in seen:
            return
        seen.add(sig)
        rp = write_replay("C17", sig.replace(":", "_")[:60], dict(engine="codecs-c17", property="C17", **payload))
        rep.violation(sig, detail[:400], rp)

    L = 3 if tier == "quick" else 4
    bodies = [""]
    for n in range(1, L + 1):
        if n <= 2 or tier != "quick":
            bodies += ["".join(t) for t in itertools.product(ALPHABET, repeat=n)]
        else:
            bodies += ["".join(rnd.choice(ALPHABET) for _ in range(n)) for _ in range(1500)]
    bodies += ["１", "1١", "gé", "zzzzzzzzzzzz", "0" * 40, "-", "+", "-f", "+ff", "4", "1.", "10", "1-10"]
    junk = ["", "hello", "https://puzz.link/p?", "https://puzz.link/p?nurikabe", "https://puzz.link/p?nurikabe/3", "https://puzz.link/p?nurikabe/3/3",
            "https://puzz.link/p?nurikabe/x/3/g", "https://puzz.link/p?nurikabe/-1/3/g", "ftp://puzz.link/p?nurikabe/3/3/i", "nurikabe/3/3/i",
            "https://puzz.link/p?nosuchpuzzle/3/3/i", "https://puzz.link/p?nurikabe/٣/3/i", "https://puzz.link/p?nurikabe/3/3", "//", "https://puzz.link/p?/1/1/"]
    # "all declared widths/heights": zero is a declared size like any other (boards without cells)
    sizes = [(1, 1), (1, 2), (2, 1), (2, 2), (1, 3), (3, 3), (0, 0), (0, 3), (2, 0)]
    for m in mods:
        for u in junk:
            rep.evaluations += 1
            u2 = u.replace("nurikabe", m.urlname)
            out, f = decode_case(m, u2, None)
            outcomes[out] = outcomes.get(out, 0) + 1
            if f:
                viol("decode:%s:%s:non-url" % (m.name, f["kind"]), "%s on %r: %s" % (m.name, u2, f["detail"]), dict(module=m.name, url=u2))
        # a board without rows has no cells however wide it is declared (widths beyond any machine index included)
        wide = [((0, ww), b) for ww in (2 ** 63 - 1, 2 ** 63, 10 ** 30) for b in ("", "0", "g", "1.", "00")]
        for ((h, w), b) in [((h, w), b) for (h, w) in sizes for b in bodies] + wide:
            if True:
                rep.evaluations += 1
                url = "https://puzz.link/p?%s/%d/%d/%s" % (m.urlname, w, h, b)
                out, f = decode_case(m, url, (h, w))
                outcomes[out] = outcomes.get(out, 0) + 1
                if f:
                    viol("decode:%s:%s:%s" % (m.name, f["kind"], _shape_cls(h, w)), "%s on %r: %s" % (m.name, url, f["detail"]), dict(module=m.name, url=url))
        # mutation fuzz of valid URLs
        nfuzz = 300 if tier == "quick" else 6000
        for i in range(nfuzz):
            h, w = rnd.choice([(1, 1), (1, 4), (3, 1), (2, 3), (4, 4), (5, 6)])
            try:
                p = m.gen(rnd, h, w)
                url = m.enc(h, w, p)
            except Exception:
                continue
            k = rnd.randrange(5)
            cut = url.rfind("/") + 1
            body = url[cut:]
            if k == 0 and body:
                body = body[:rnd.randrange(len(body))]
            elif k == 1 and body:
                j = rnd.randrange(len(body))
                body = body[:j] + rnd.choice(ALPHABET + "hijkqvwxyz_%") + body[j + 1:]   # not '/': the field delimiter
            elif k == 2:
                j = rnd.randrange(len(body) + 1)
                body = body[:j] + rnd.choice(ALPHABET) * rnd.randint(1, 3) + body[j:]
            elif k == 3:
                h, w = rnd.choice([(h + 1, w), (h, w + 1), (max(1, h - 1), w), (w, h)])
            url2 = "https://puzz.link/p?%s/%d/%d/%s" % (m.urlname, w, h, body)
            rep.evaluations += 1
            out, f = decode_case(m, url2, (h, w))
            outcomes[out] = outcomes.get(out, 0) + 1
            if f:
                viol("decode:%s:%s:%s" % (m.name, f["kind"], "fuzz-" + _shape_cls(h, w)), "%s on %r: %s" % (m.name, url2, f["detail"]), dict(module=m.name, url=url2))
        # depth family: boards consisting of one room
        if m.kind in ("rooms", "rooms+values"):
            dims = [(8, 8), (20, 20), (40, 40), (1, 1200), (1200, 1), (2, 1100)] + ([(64, 64), (1, 5000), (3, 2000)] if tier != "quick" else [])
            for (hh, ww) in dims:
                nb = ((ww - 1) * hh + 4) // 5 + (ww * (hh - 1) + 4) // 5
                url = "https://puzz.link/p?%s/%d/%d/%s%s" % (m.urlname, ww, hh, "0" * nb, "g" if m.kind == "rooms+values" else "")
                rep.evaluations += 1
                out, f = decode_case(m, url, (hh, ww))
                outcomes[out] = outcomes.get(out, 0) + 1
                if out != "problem" and not f:
                    f = dict(kind="one-room-board-not-decoded", detail="%s: the border-free %dx%d board was not decoded (%s)" % (m.name, hh, ww, out))
                if f:
                    viol("decode:%s:%s:one-room-board" % (m.name, f["kind"]), "%s on a %dx%d one-room board: %s" % (m.name, hh, ww, f["detail"]), dict(module=m.name, url=url))
    # library combinators on arbitrary text (through deserialize_problem)
    terms = []
    for fams in item_terms(ps, rnd):
        it = make_item(ps, fams)
        terms += [("Grid", ps.Grid(it)), ("Seq", ps.Seq(it, 3)), ("Tupl", ps.Tupl(ps.Grid(it), ps.FixStr("/"), ps.DecInt()))]
    terms += [("Rooms", ps.Rooms()), ("Rooms-skip", ps.Rooms(skip_on_error=True)), ("ValuedRooms", ps.ValuedRooms(ps.OneOf(ps.HexInt(), ps.Spaces(-1, "g")))),
              ("ValuedRooms-skip", ps.ValuedRooms(ps.HexInt(), skip_on_error=True, allow_redundant_border=True)), ("FixStr", ps.FixStr("ab")),
              ("Dict", ps.Dict([1, 2], ["a", "ab"])), ("DecInt", ps.DecInt()), ("HexInt", ps.HexInt()),
              ("Spaces", ps.Spaces(0, "g")), ("IntSpaces", ps.IntSpaces(-1, 4, 2)), ("MultiDigit", ps.MultiDigit(3, 3)),
              ("OneOf", ps.OneOf(ps.Spaces(0, "g"), ps.HexInt()))]
    sample = bodies if tier != "quick" else rnd.sample(bodies, 700)
    for (tname, comb) in terms:
        # digit runs around the interpreter's limit for int <-> str conversion (4300 digits): refused or decoded, but a decoded
        # problem must be writable again
        long_digits = ["9" * 4299, "9" * 4300, "9" * 4301, "1" + "0" * 5000] if tname in ("DecInt", "Tupl", "Seq", "Grid") else []
        for (h, w) in [(1, 1), (1, 3), (2, 2), (3, 2), (0, 0), (0, 2), (3, 0), (0, 2 ** 63), (0, 10 ** 30)]:
            for b in ((sample + (long_digits if (h, w) == (1, 1) else [])) if w < 2 ** 31 else ["", "0", "g", "1.", "00"]):
                rep.evaluations += 1
                try:
                    r = ps.deserialize_problem(comb, b, height=h, width=w)
                    outcomes["None" if r is None else "problem"] = outcomes.get("None" if r is None else "problem", 0) + 1
                except ALLOWED:
                    outcomes["ValueError"] = outcomes.get("ValueError", 0) + 1
                    continue
                except Exception as e:
                    viol("combinator:%s:exception:%s:%s" % (tname, type(e).__name__, _shape_cls(h, w)), "deserialize_problem(%s, %r, %dx%d) raised %s: %s" % (tname, b[:60], h, w, type(e).__name__, str(e)[:100]), dict(term=tname, text=b, height=h, width=w))
                    continue
                if r is not None:
                    # "only yields re-encodable problems": what was decoded can be written, and reads back as itself
                    try:
                        t2 = ps.serialize_problem(comb, r, height=h, width=w)
                        r2 = ps.deserialize_problem(comb, t2, height=h, width=w)
                        if r2 != r:
                            viol("combinator:%s:decoded-problem-not-stable" % tname, "deserialize_problem(%s, %r, %dx%d) gave a problem that re-encodes to %r and then decodes to something else" % (tname, b[:60], h, w, t2[:60]), dict(term=tname, text=b, height=h, width=w))
                    except Exception as e:
                        viol("combinator:%s:decoded-problem-not-encodable:%s" % (tname, type(e).__name__), "deserialize_problem(%s, %r..., %dx%d) returned a problem that serialize_problem refuses: %s: %s" % (tname, b[:40], h, w, type(e).__name__, str(e)[:100]), dict(term=tname, text=b, height=h, width=w))
    rep.coverage["outcomes"] = outcomes
    rep.distinct.update(("c17", i) for i in range(rep.evaluations))
    rep.samples.append(dict(url="https://puzz.link/p?nurikabe/2/2/" + bodies[37], note="exhaustive short bodies over the alphabet %r" % ALPHABET))
