"""Instance builders (real emitter + oracle) for the emission contracts of C05-C10."""
import itertools

import z3

from . import emission
from .common import simple_graphs, multigraphs, grid_edges, set_partitions, load_repo
from specs import graphpred


def _graph(G, n, edges, build="plain", warm=None):
    """builds the Graph object.  `build` varies what the property does not depend on: the orientation
    in which each edge is handed to add_edge ('flipped': (v,u); 'mixed': every other one) and the
    object's history ('grown': the graph is first USED with only half of its edges through `warm`,
    then completed) - the result must be the same graph."""
    if SHARE["on"]:
        key = (n, tuple(tuple(e) for e in edges), build)
        if SHARE.get("key") == key and SHARE.get("g") is not None:
            return SHARE["g"]        # second posting on the SAME Graph object
    g = G.Graph(n)
    if SHARE["on"]:
        SHARE["key"], SHARE["g"] = (n, tuple(tuple(e) for e in edges), build), g
    k = len(edges) // 2 if build == "grown" else len(edges)
    def put(i):
        u, v = edges[i]
        if build == "flipped" or (build in ("mixed", "grown") and i % 2 == 1):
            u, v = v, u
        g.add_edge(u, v)
    for i in range(k):
        put(i)
    if build == "grown":
        if warm is not None:
            try:
                warm(g)
            except Exception:
                pass
        for i in range(k, len(edges)):
            put(i)
    return g


SHARE = {"on": False, "g": None, "key": None}      # set by emission.run_instance for the shared-graph two-posting variant

BUILDS = ("plain", "flipped", "mixed", "grown")

# explicit graphs whose STORED edge orientations go round their cycles (add_edge(0,1); add_edge(1,2); add_edge(2,0)): a
# tie-break by stored orientation is a total order on graphs written (low, high) and only shows on these (round-6 seed C06)
# a hub of degree 6 with its rim (spokes listed first, the rim last / first) and a star of degree 7 with two rim edges at the end
WHEEL6 = [[0, i] for i in range(1, 7)] + [[i, i % 6 + 1] for i in range(1, 7)]
STAR7_PLUS = [[1, 2]] + [[0, i] for i in range(1, 8)] + [[6, 7]]
ROUND_GRAPHS = [
    (6, [[0, 1], [1, 2], [2, 0], [3, 4], [4, 5], [5, 3]]),          # two triangles, both going round
    (5, [[0, 1], [1, 0], [2, 3], [3, 4], [4, 2]]),                  # a parallel pair going round + a triangle going round
    (7, [[0, 1], [1, 2], [2, 0], [3, 4], [4, 5], [5, 6], [6, 3]]),  # triangle + square
    (4, [[0, 1], [1, 2], [2, 3], [3, 0], [0, 2]]),                  # square going round with a chord
]


def with_builds(descs):
    """every explicit-graph instance additionally in the other build variants (all four for graphs
    with <= 3 vertices, one rotating variant beyond)"""
    i = 0
    for d in descs:
        yield d
        if "edges" in d and d["edges"]:
            if d.get("n", 9) <= 4 and not d.get("deep"):
                for b in BUILDS[1:]:
                    yield dict(d, build=b)
            else:
                i += 1
                yield dict(d, build=BUILDS[1 + i % 3])


def _struct(d):
    if "grid" in d:
        h, w = d["grid"]
        return h * w, grid_edges(h, w)
    return d["n"], [tuple(e) for e in d["edges"]]


# ------------------------------------------------------------------------------------------- C05
def inst_C05(d):
    load_repo()
    from cspuz import graph as G
    from cspuz.array import IntArray2D
    n, edges = _struct(d)
    R, roots, allow_empty, prim = d["R"], d["roots"], d["allow_empty"], d["prim"]

    # "mixed" labels: Python int constants at the positions i with i % 3 != 0 (neighbouring positions both constant, equal
    # and different values occur), variables elsewhere
    mixed = d.get("labels") == "mixed"
    const_at = (lambda i: i % 3 != 0) if mixed else (lambda i: False)
    const_val = lambda i: (i // 2) % R
    lab = lambda alpha: [const_val(i) if const_at(i) else a for i, a in enumerate(alpha)]

    def declare(s):
        return list(s.int_array(n, 0, R - 1))

    def emit(s, caller):
        if mixed:
            caller = [const_val(i) if const_at(i) else v for i, v in enumerate(caller)]
        # the public function has no use_graph_primitive argument: the configuration flag decides
        from cspuz.configuration import config
        from cspuz.array import IntArray1D
        old = config.use_graph_primitive
        config.use_graph_primitive = prim
        try:
            if "grid" in d:
                h, w = d["grid"]
                rts = None if roots is None else [None if r is None else (r // w, r % w) for r in roots]
                G.division_connected(s, IntArray2D(caller, (h, w)), R, roots=rts, allow_empty_group=allow_empty)
            else:
                div = IntArray1D(caller) if d.get("as_array") else list(caller)
                from cspuz import Solver as _S
                warm = lambda g: G.division_connected(_S(), list(_S().int_array(n, 0, R - 1)), R, g, allow_empty_group=True)
                G.division_connected(s, div, R, _graph(G, n, edges, d.get("build", "plain"), warm), roots=roots, allow_empty_group=allow_empty)
        finally:
            config.use_graph_primitive = old

    def pred(alpha):
        return graphpred.classes_connected(n, edges, lab(alpha), R, allow_empty, roots)

    def classify(alpha):
        form = "grid" if "grid" in d else ("array1d" if d.get("as_array") else ("list-with-constants" if mixed else "list"))
        return "%s-%s" % (form, "primitive" if prim else "auxiliary")

    return emission.Inst(declare, emit, pred, classify, alphas=(lambda caller: deep_alphas(d)) if d.get("deep") else None)


def descs_C05(tier):
    nmax = 4 if tier == "quick" else 5
    for n in range(1, nmax + 1):
        for edges in simple_graphs(n):
            for R in (1, 2, 3):
                if R ** n > 300:
                    continue
                rootss = [None, [0] + [None] * (R - 1), [None] * (R - 1) + [n - 1], [i % n for i in range(R)]]
                if R >= 2:
                    # lists shorter than the number of regions name the roots of the first regions only
                    rootss += [[n - 1], [], [i % n for i in range(R - 1)]]
                if n >= 2 and not (R ** n > 300):
                    for allow_empty in (False, True):
                        yield dict(func="division_connected", n=n, edges=[list(e) for e in edges], R=R, roots=None, allow_empty=allow_empty,
                                   prim=False, as_array=False, labels="mixed")
                for roots in rootss:
                    for allow_empty in (False, True):
                        for prim in (False, True):
                            for as_array in (False, True):
                                yield dict(func="division_connected", n=n, edges=[list(e) for e in edges], R=R,
                                           roots=roots, allow_empty=allow_empty, prim=prim, as_array=as_array)
    for (n, edges) in ROUND_GRAPHS:
        for allow_empty in (False, True):
            yield dict(func="division_connected", n=n, edges=[list(e) for e in edges], R=2, roots=None, allow_empty=allow_empty, prim=False, as_array=True)
    shapes = [(1, 1), (1, 3), (3, 1), (2, 2), (2, 3)] + ([(3, 2), (1, 5), (2, 4), (3, 3)] if tier != "quick" else [])
    for (h, w) in shapes:
        for R in (1, 2, 3):
            if R ** (h * w) > 20000:
                continue
            for roots in (None, [h * w - 1] + [None] * (R - 1), [min(w, h * w - 1)] + [None] * (R - 1)) + (([h * w - 1],) if R >= 2 else ()):
                for allow_empty in (False, True):
                    for prim in (False, True):
                        yield dict(func="division_connected", grid=[h, w], R=R, roots=roots, allow_empty=allow_empty, prim=prim)


# ------------------------------------------------------------------------------------------- C06
def _frame_struct(h, w):
    """lattice graph of an h x w frame: points (h+1)x(w+1); segment order: horizontal row-major,
    then vertical row-major (the order of BoolGridFrame's two arrays)"""
    pid = lambda y, x: y * (w + 1) + x
    segs = [(pid(y, x), pid(y, x + 1)) for y in range(h + 1) for x in range(w)] + \
           [(pid(y, x), pid(y + 1, x)) for y in range(h) for x in range(w + 1)]
    return (h + 1) * (w + 1), segs


def inst_C06(d):
    load_repo()
    from cspuz import graph as G
    from cspuz.grid_frame import BoolGridFrame
    path = d["func"] == "active_edges_single_path"
    prim = d["prim"]
    if "frame" in d:
        h, w = d["frame"]
        n, edges = _frame_struct(h, w)
    else:
        n, edges = d["n"], [tuple(e) for e in d["edges"]]
    m = len(edges)
    state = {}

    def declare(s):
        if "frame" in d:
            fr = BoolGridFrame(s, h, w)
            state["frame"] = fr
            return list(fr.horizontal) + list(fr.vertical)
        return list(s.bool_array(m))

    def emit(s, caller):
        f = G.active_edges_single_path if path else G.active_edges_single_cycle
        if "frame" in d:
            r = f(s, state["frame"], use_graph_primitive=prim)
            if tuple(r.shape) != (h + 1, w + 1):
                raise AssertionError("returned shape %s, lattice is %s" % (r.shape, (h + 1, w + 1)))
            return list(r)
        x, val = emission.bool_forms(d.get("form", "vars"), caller) if m else ([], lambda a: [])
        state["val"] = val
        from cspuz import Solver as _S
        def warm(g):
            s2 = _S()
            f(s2, list(s2.bool_array(len(g.edges))), g, use_graph_primitive=prim)
        r = f(s, x, _graph(G, n, edges, d.get("build", "plain"), warm), use_graph_primitive=prim)
        return list(r)

    def pred(alpha):
        act = state["val"](alpha) if "val" in state else list(alpha)
        ok, visited = (graphpred.single_path if path else graphpred.single_cycle)(n, edges, act)
        return ok, visited

    def classify(alpha):
        act = state["val"](alpha) if "val" in state else list(alpha)
        return "no-active-edge" if not any(act) else "some-active-edge"

    return emission.Inst(declare, emit, pred, classify, alphas=(lambda caller: deep_alphas(d)) if d.get("deep") else None)


def descs_C06(tier):
    for func in ("active_edges_single_cycle", "active_edges_single_path"):
        prims = (False, True) if func.endswith("cycle") else (True,)
        for prim in prims:
            for n in range(1, 4):
                for edges in multigraphs(n, 4 if tier == "quick" else 5):
                    for form in (("vars", "neg", "cmp", "tied", "trues", "falses") if len(edges) >= 1 else ("vars",)):
                        yield dict(func=func, n=n, edges=[list(e) for e in edges], prim=prim, form=form)
            for edges in simple_graphs(4):
                yield dict(func=func, n=4, edges=[list(e) for e in edges], prim=prim, form="vars")
                if len(edges) >= 3:
                    yield dict(func=func, n=4, edges=[list(e) for e in edges], prim=prim, form="trues")
            if tier != "quick":
                for edges in multigraphs(4, 5):
                    if len(set(edges)) < len(edges):
                        yield dict(func=func, n=4, edges=[list(e) for e in edges], prim=prim, form="vars")
            for (n, edges) in ROUND_GRAPHS:
                yield dict(func=func, n=n, edges=[list(e) for e in edges], prim=prim, form="vars", keep_orientation=True)
            frames = [(0, 0), (0, 2), (1, 0), (1, 1), (1, 2), (2, 1), (2, 2)] + ([(1, 3), (3, 1), (2, 3), (3, 2)] if tier != "quick" else [])
            for (h, w) in frames:
                yield dict(func=func, frame=[h, w], prim=prim)


# ------------------------------------------------------------------------------------------- C07
def _size_forms(n, form):
    """returns (builder(solver) -> (group_size argument, caller vars), sizes(alpha) -> list per vertex)"""
    if form == "none":
        return (lambda s: (None, [])), (lambda a: [None] * n)
    if form.startswith("const"):
        k = int(form[5:])
        return (lambda s: (k, [])), (lambda a: [k] * n)
    if form == "var":
        def b(s):
            v = s.int_var(1, n)
            return v, [v]
        return b, (lambda a: [a[0]] * n)
    if form == "vmix":
        # a per-vertex list mixing variables and ints: even vertices carry an IntVar of their own with domain [1, 2], odd vertices
        # the int 2 (the top value of the neighbouring variable: the two clues agree on that value only)
        def b(s):
            vs = [s.int_var(1, 2) for i in range(n) if i % 2 == 0]
            it = iter(vs)
            return [next(it) if i % 2 == 0 else 2 for i in range(n)], vs
        return b, (lambda a: [a[i // 2] if i % 2 == 0 else 2 for i in range(n)])
    if form.startswith("list"):
        pat = form[5:].split(",")  # e.g. list:2,-,1
        vals = [None if p == "-" else int(p) for p in pat]
        return (lambda s: (list(vals), [])), (lambda a: list(vals))
    raise ValueError(form)


def inst_C07(d):
    load_repo()
    from cspuz import graph as G
    n, edges = _struct(d)
    m = len(edges)
    mk, sizes_of = _size_forms(n, d["size"])
    state = {}
    if d["func"] == "division_connected_variable_groups":
        def declare(s):
            gs, cv = mk(s)
            state["gs"] = gs
            return cv

        def emit(s, caller):
            if "grid" in d:
                h, w = d["grid"]
                gs = state["gs"]
                if isinstance(gs, list):
                    gs = [gs[y * w:(y + 1) * w] for y in range(h)]
                r = G.division_connected_variable_groups(s, shape=(h, w), group_size=gs)
                if tuple(r.shape) != (h, w):
                    raise AssertionError("returned shape %s" % (r.shape,))
                return list(r)
            from cspuz import Solver as _S
            warm = lambda g: G.division_connected_variable_groups(_S(), graph=g)
            return list(G.division_connected_variable_groups(s, graph=_graph(G, n, edges, d.get("build", "plain"), warm), group_size=state["gs"]))

        def ghost(ret_terms):
            out = []
            parts = _deep_partitions(d) if d.get("deep") else set_partitions(n)
            for part in parts:
                f = z3.And([(ret_terms[u] == ret_terms[v]) == (part[u] == part[v]) for u in range(n) for v in range(u)]) if n > 1 else z3.BoolVal(True)
                out.append((part, f))
            return out

        def pred(alpha, part):
            return graphpred.partition_ok(n, edges, part, sizes_of(alpha))

        def classify(alpha, part=None):
            return "partition"

        return emission.Inst(declare, emit, pred, classify, ghost=ghost)

    # with borders: caller = border flags (+ size variable)
    prim = d["prim"]

    def declare(s):
        gs, cv = mk(s)
        if gs is None or not isinstance(gs, list):
            # the public function takes a per-vertex sequence (or None)
            gs2 = None if gs is None else [gs] * n
        else:
            gs2 = gs
        state["gs"] = gs2
        if "grid" in d:
            from cspuz.grid_frame import BoolInnerGridFrame
            h, w = d["grid"]
            fr = BoolInnerGridFrame(s, h, w)
            state["frame"] = fr
            # edge order of the inferred graph is checked through the geometry: build our own map
            state["bvars"] = dict()
            for y in range(h - 1):
                for x in range(w):
                    state["bvars"][((y, x), (y + 1, x))] = fr.horizontal[y, x]
            for y in range(h):
                for x in range(w - 1):
                    state["bvars"][((y, x), (y, x + 1))] = fr.vertical[y, x]
            order = []
            for (u, v) in edges:
                order.append(state["bvars"][((u // w, u % w), (v // w, v % w))])
            return order + cv
        return list(s.bool_array(m)) + cv

    def emit(s, caller):
        if "grid" in d:
            from cspuz.array import IntArray2D
            h, w = d["grid"]
            gs = state["gs"]
            if gs is None:
                raise AssertionError("grid form needs sizes")
            arr = IntArray2D([gs[y * w:(y + 1) * w] for y in range(h)])
            G.division_connected_variable_groups_with_borders(s, group_size=arr, is_border=state["frame"], use_graph_primitive=prim)
        else:
            from cspuz import Solver as _S
            def warm(g):
                s2 = _S()
                G.division_connected_variable_groups_with_borders(s2, group_size=None, is_border=list(s2.bool_array(len(g.edges))), graph=g, use_graph_primitive=prim)
            xb, valb = emission.bool_forms(d.get("bform", "vars"), caller[:m]) if m else ([], lambda a: [])
            state["valb"] = valb
            G.division_connected_variable_groups_with_borders(s, group_size=state["gs"], is_border=xb,
                                                              graph=_graph(G, n, edges, d.get("build", "plain"), warm), use_graph_primitive=prim)

    def pred(alpha):
        bor = state["valb"](list(alpha[:m])) if "valb" in state else list(alpha[:m])
        return graphpred.division_with_borders_ok(n, edges, bor, sizes_of(alpha[m:]))

    def classify(alpha):
        return "border"

    return emission.Inst(declare, emit, pred, classify, alphas=(lambda caller: deep_alphas(d)) if d.get("deep") else None)


def descs_C07(tier):
    nmax = 4 if tier == "quick" else 5
    for n in range(1, nmax + 1):
        size_forms = ["none", "const1", "const2", "var", "list:" + ",".join((["2", "-", "1", "-", "3"] * 2)[:n])] + (["vmix"] if n >= 2 else [])
        if n >= 3:
            # one small clue and otherwise holes: clue-free blocks larger than every clue (seed R3C07)
            size_forms += ["list:" + ",".join(["1"] + ["-"] * (n - 1)), "list:" + ",".join(["-"] * (n - 1) + ["1"])]
        for edges in simple_graphs(n):
            if tier == "quick" and n == 4 and len(edges) in (1, 5):
                continue
            for sf in size_forms:
                yield dict(func="division_connected_variable_groups", n=n, edges=[list(e) for e in edges], size=sf)
                if len(edges) <= 5:
                    for prim in (False, True):
                        yield dict(func="division_connected_variable_groups_with_borders", n=n, edges=[list(e) for e in edges], size=sf, prim=prim)
                    if sf in ("none", "const2") and len(edges) >= 2:
                        # border flags given as Python literals / negations / comparison nodes
                        for bform in ("const", "neg", "cmp"):
                            yield dict(func="division_connected_variable_groups_with_borders", n=n, edges=[list(e) for e in edges], size=sf, prim=False, bform=bform)
    for (n, edges) in ROUND_GRAPHS[:2] + ROUND_GRAPHS[3:]:
        yield dict(func="division_connected_variable_groups_with_borders", n=n, edges=[list(e) for e in edges], size="none", prim=False)
        yield dict(func="division_connected_variable_groups_with_borders", n=n, edges=[list(e) for e in edges],
                   size="list:" + ",".join(["3"] + ["-"] * (n - 1)), prim=False)
    shapes = [(1, 1), (1, 3), (2, 2)] + ([(3, 1), (2, 3), (3, 2)] if tier != "quick" else [])
    for (h, w) in shapes:
        n = h * w
        for sf in ["none", "const2", "list:" + ",".join((["-", "2", "1", "-", "3", "-"] * 2)[:n])] + \
                ([ "list:" + ",".join(["1"] + ["-"] * (n - 1))] if n >= 3 else []):
            if n <= 5:
                yield dict(func="division_connected_variable_groups", grid=[h, w], size=sf)
            if sf != "none":
                for prim in (False, True):
                    yield dict(func="division_connected_variable_groups_with_borders", grid=[h, w], size=sf, prim=prim)


# ------------------------------------------------------------------------------------------- C08
def inst_C08(d):
    load_repo()
    from cspuz import graph as G
    from cspuz.array import BoolArray1D, BoolArray2D
    n, edges = _struct(d)
    seg = d["func"].endswith("not_segmenting")
    state = {}

    def declare(s):
        return list(s.bool_array(n))

    def emit(s, caller):
        x, val = emission.bool_forms(d.get("form", "vars"), caller)
        state["val"] = val
        f = G.active_vertices_not_adjacent_and_not_segmenting if seg else G.active_vertices_not_adjacent
        if d.get("as_grid"):
            h, w = d["grid"]
            f(s, BoolArray2D(x, (h, w)))
        else:
            from cspuz import Solver as _S
            def warm(g):
                s2 = _S()
                f(s2, s2.bool_array(n), g)
            f(s, BoolArray1D(x), _graph(G, n, edges, d.get("build", "plain"), warm))

    def pred(alpha):
        act = state["val"](alpha)
        return (graphpred.not_adjacent_not_segmenting if seg else graphpred.not_adjacent)(n, edges, act)

    def classify(alpha):
        if "grid" in d:
            h, w = d["grid"]
            return "single-row-or-column" if min(h, w) == 1 else "grid>=2x2"
        return "graph"

    return emission.Inst(declare, emit, pred, classify, alphas=(lambda caller: deep_alphas(d)) if d.get("deep") else None)


def descs_C08(tier):
    nmax = 4 if tier == "quick" else 5
    for func in ("active_vertices_not_adjacent", "active_vertices_not_adjacent_and_not_segmenting"):
        for n in range(1, nmax + 1):
            for edges in simple_graphs(n):
                for form in (("vars", "neg", "cmp", "ncmp") if n < nmax else ("vars", "cmp")):
                    yield dict(func=func, n=n, edges=[list(e) for e in edges], form=form)
        # "all graphs": self-loops (an edge whose two end points are the same vertex: that vertex cannot be active) and
        # parallel edges
        for n, edges in ((1, [[0, 0]]), (2, [[0, 0], [0, 1]]), (2, [[1, 1]]), (3, [[0, 1], [1, 1], [1, 2]]), (3, [[0, 1], [0, 1], [2, 2]]),
                         (3, [[0, 1], [1, 2], [2, 0], [0, 0]]), (4, [[0, 1], [1, 2], [2, 3], [3, 3], [0, 0]])):
            yield dict(func=func, n=n, edges=[list(e) for e in edges], form="vars")
        shapes = [(1, 1), (1, 2), (2, 1), (1, 3), (3, 1), (1, 4), (4, 1), (1, 5), (2, 2), (2, 3), (3, 2), (3, 3), (2, 4)]
        if tier != "quick":
            shapes += [(5, 1), (1, 6), (6, 1), (1, 8), (4, 2), (2, 5), (5, 2), (3, 4), (4, 3), (2, 6), (4, 4)]
        for (h, w) in shapes:
            yield dict(func=func, grid=[h, w], as_grid=True, form="vars")
            yield dict(func=func, grid=[h, w], as_grid=False, form="vars")
            if h * w <= 6:
                yield dict(func=func, grid=[h, w], as_grid=True, form="cmp")
                yield dict(func=func, grid=[h, w], as_grid=False, form="ncmp")


# ------------------------------------------------------------------------------------------- C09
def inst_C09(d):
    load_repo()
    from cspuz import graph as G
    n, edges = d["n"], [tuple(e) for e in d["edges"]]
    m = len(edges)
    state = {}

    def declare(s):
        return list(s.bool_array(m))

    def emit(s, caller):
        x, val = emission.bool_forms(d.get("form", "vars"), caller) if m else ([], lambda a: [])
        state["val"] = val
        from cspuz import Solver as _S
        def warm(g):
            s2 = _S()
            G.active_edges_acyclic(s2, list(s2.bool_array(len(g.edges))), g)
        G.active_edges_acyclic(s, x, _graph(G, n, edges, d.get("build", "plain"), warm))

    def pred(alpha):
        return graphpred.edges_acyclic(n, edges, state["val"](alpha))

    return emission.Inst(declare, emit, pred, lambda a: "any", alphas=(lambda caller: deep_alphas(d)) if d.get("deep") else None)


def descs_C09(tier):
    for n in range(1, 4):
        for edges in multigraphs(n, 4 if tier == "quick" else 6):
            for form in (("vars", "neg", "xor2", "cmp", "ncmp", "tied", "trues", "falses") if len(edges) >= 2 else ("vars",)):
                yield dict(func="active_edges_acyclic", n=n, edges=[list(e) for e in edges], form=form)
    for edges in simple_graphs(4):
        yield dict(func="active_edges_acyclic", n=4, edges=[list(e) for e in edges], form="vars")
    for (n, edges) in ROUND_GRAPHS:
        yield dict(func="active_edges_acyclic", n=n, edges=[list(e) for e in edges], form="vars", keep_orientation=True)
    # more vertices than edges (isolated vertices, large vertex numbers next to few edges): a parallel pair or a triangle
    # plus one further edge, at every / every third placement
    import itertools as _it
    step = 3 if tier == "quick" else 1
    k = 0
    for n in (6, 7):
        pairs = list(_it.combinations(range(n), 2))
        for (a, b) in pairs:
            for (u, v) in pairs:
                k += 1
                if k % step == 0:
                    yield dict(func="active_edges_acyclic", n=n, edges=[[u, v], [a, b], [a, b]], form="vars", keep_orientation=True)
    for n in (8,):
        pairs = list(_it.combinations(range(n), 2))
        for tri in _it.combinations(range(n), 3):
            for (u, v) in pairs:
                k += 1
                if k % (step * 4) == 0:
                    a, b, c = tri
                    yield dict(func="active_edges_acyclic", n=n, edges=[[u, v], [a, b], [a, c], [b, c]], form="vars", keep_orientation=True)
    if tier != "quick":
        for edges in simple_graphs(5):
            yield dict(func="active_edges_acyclic", n=5, edges=[list(e) for e in edges], form="vars")
        for edges in multigraphs(4, 5):
            if len(set(edges)) < len(edges):
                yield dict(func="active_edges_acyclic", n=4, edges=[list(e) for e in edges], form="vars")


# ------------------------------------------------------------------------------------------- C10
def inst_C10(d):
    load_repo()
    from cspuz import graph as G
    from cspuz.grid_frame import BoolGridFrame
    h, w = d["frame"]
    sc, prim = d["single_cycle"], d["prim"]
    state = {}
    hkeys = [(y, x) for y in range(h + 1) for x in range(w)]
    vkeys = [(y, x) for y in range(h) for x in range(w + 1)]

    # "tied": a frame built from caller-supplied arrays in which a segment and its half-turn image are the SAME variable
    # (an encoder must allocate its auxiliary variables per lattice element, not per distinct operand)
    tied = bool(d.get("tied"))
    def partner(kind, y, x):
        return (kind, h - y, w - 1 - x) if kind == "h" else (kind, h - 1 - y, w - x)
    segs = [("h", y, x) for (y, x) in hkeys] + [("v", y, x) for (y, x) in vkeys]
    rep_of = {}
    for sg in segs:
        p_ = partner(*sg)
        rep_of[sg] = min(sg, p_) if tied else sg
    reps = sorted(set(rep_of.values()))

    def declare(s):
        if not tied:
            fr = BoolGridFrame(s, h, w)
            state["frame"] = fr
            return [fr.horizontal[y, x] for (y, x) in hkeys] + [fr.vertical[y, x] for (y, x) in vkeys]
        from cspuz.array import BoolArray2D
        vs = {r: s.bool_var() for r in reps}
        H = BoolArray2D([vs[rep_of[("h", y, x)]] for (y, x) in hkeys], (h + 1, w))
        V = BoolArray2D([vs[rep_of[("v", y, x)]] for (y, x) in vkeys], (h, w + 1))
        state["frame"] = BoolGridFrame(s, h, w, horizontal=H, vertical=V)
        return [vs[r] for r in reps]

    def _full(alpha):
        if not tied:
            return list(alpha)
        val = dict(zip(reps, alpha))
        return [val[rep_of[sg]] for sg in segs]

    def emit(s, caller):
        if d.get("via") == "cycle_fn":
            p, c = G.active_edges_single_cycle_crossable(s, state["frame"], use_graph_primitive=prim)
        else:
            p, c = G.active_edges_connected_crossable(s, state["frame"], single_cycle=sc, use_graph_primitive=prim)
        if tuple(p.shape) != (h + 1, w + 1) or tuple(c.shape) != (h + 1, w + 1):
            raise AssertionError("returned shapes %s %s" % (p.shape, c.shape))
        return list(p) + list(c)

    def pred(alpha):
        alpha = _full(alpha)
        hor = dict(zip(hkeys, alpha[:len(hkeys)]))
        ver = dict(zip(vkeys, alpha[len(hkeys):]))
        ok, visited, cross = graphpred.crossable(h, w, hor, ver, sc)
        pts = [(y, x) for y in range(h + 1) for x in range(w + 1)]
        return ok, [visited[p] for p in pts] + [cross[p] for p in pts]

    def classify(alpha):
        return "no-segment" if not any(alpha) else "segments"

    return emission.Inst(declare, emit, pred, classify, alphas=(lambda caller: deep_alphas(d)) if d.get("deep") else None)


def descs_C10(tier):
    frames = [(0, 0), (0, 1), (1, 0), (1, 1), (1, 2), (2, 1), (2, 2)] + ([(1, 3), (3, 1), (2, 3), (3, 2)] if tier != "quick" else [])
    for (h, w) in frames:
        for sc in (False, True):
            for prim in (False, True):
                yield dict(func="active_edges_connected_crossable", frame=[h, w], single_cycle=sc, prim=prim)
        yield dict(func="active_edges_connected_crossable", frame=[h, w], single_cycle=True, prim=False, via="cycle_fn")
        if h * w >= 1 and w >= 1:
            for sc in (False, True):
                yield dict(func="active_edges_connected_crossable", frame=[h, w], single_cycle=sc, prim=False, tied=True)


# ------------------------------------------------------------------------------------------- deep instances
# Structures too large to enumerate, with structured assignments that need deep rank certificates
# (long paths, snakes, zig-zag diagonal chains) plus single-variable mutations of them.  They exist
# because a too-small rank domain is invisible on the small exhaustive scope.
import random as _random


def path_edges(n):
    return [(i, i + 1) for i in range(n - 1)]


def cycle_edges(n):
    return [(i, (i + 1) % n) for i in range(n)]


def _mutations(base, rnd, k, values=(False, True)):
    out = [list(base)]
    for _ in range(k):
        a = list(base)
        j = rnd.randrange(len(a)) if a else 0
        if a:
            a[j] = rnd.choice([v for v in values if v != a[j]] or list(values))
        out.append(a)
    return out


def deep_alphas(d):
    import zlib
    rnd = _random.Random(zlib.crc32(json_key(d).encode()) % 100000)      # stable across processes (no str hash)
    f = d["func"]
    if d.get("deep") == "sparse":
        # LARGE structures (a size-dependent branch of an encoder -- "for n >= 100 split the flags into blocks" -- only runs
        # there) with SPARSE patterns, which a solver decides at once: nothing, single elements at both ends and in the
        # middle, pairs and triples of them
        if f.startswith("active_edges_connected_crossable") or f.startswith("active_edges_single_cycle_crossable"):
            h, w = d["frame"]
            k = (h + 1) * w + h * (w + 1)
        elif f.startswith("active_edges") or f.startswith("division_connected_variable_groups"):
            k = len(_edges_of(d))
        else:
            k = _struct(d)[0]
        picks = sorted(set(x for x in (0, 1, 2, k // 2, k // 2 + 1, k - 4, k - 3, k - 2, k - 1) if 0 <= x < k))
        out = [[False] * k]
        for r in (1, 2, 3):
            for comb in itertools.combinations(picks, r):
                if r == 3 and rnd.random() < 0.6:
                    continue
                out.append([i in comb for i in range(k)])
        if f == "division_connected":
            # labels instead of flags: label 1 on the picked vertices, and on whole suffixes
            out = [[1 if b_ else 0 for b_ in a] for a in out] + [[1 if i >= c else 0 for i in range(k)] for c in (1, k // 2, k - 1)]
        return out
    if f == "active_vertices_connected":
        n, _ = _struct(d)
        bases = [[True] * n, [True] * (n - 1) + [False], [False] + [True] * (n - 1), [i % 2 == 0 for i in range(n)], [False] * n,
                 [i < n // 2 for i in range(n)]]
        if "grid" in d:
            h, w = d["grid"]
            snake = [[False] * w for _ in range(h)]
            for y in range(0, h, 2):
                for x in range(w):
                    snake[y][x] = True
                if y + 1 < h:
                    snake[y + 1][(w - 1) if (y // 2) % 2 == 0 else 0] = True
            bases.append([snake[y][x] for y in range(h) for x in range(w)])
        return [a for b in bases for a in _mutations(b, rnd, 4)]
    if f == "division_connected":
        n, _ = _struct(d)
        R = d["R"]
        bases = [[0] * n, [min(i * R // n, R - 1) for i in range(n)], [(R - 1) if i == n - 1 else 0 for i in range(n)],
                 [i % R for i in range(n)]]
        return [a for b in bases for a in _mutations(b, rnd, 4, values=tuple(range(R)))]
    if f in ("active_edges_single_cycle", "active_edges_single_path", "active_edges_acyclic") and d.get("cycles_of_complete_graph"):
        # every Hamiltonian cycle of the complete graph, two triangles-plus and the empty set: pairs of them (two
        # postings) include edge-disjoint cycles on the same vertices, which admit no common orientation certificate
        n, edges = _struct(d)
        idx = {tuple(sorted(e)): i for i, e in enumerate(edges)}
        out, seen = [], set()
        for perm in itertools.permutations(range(1, n)):
            cyc = (0,) + perm
            es = frozenset(tuple(sorted((cyc[i], cyc[(i + 1) % n]))) for i in range(n))
            if es in seen:
                continue
            seen.add(es)
            out.append([edges[i] is not None and tuple(sorted(edges[i])) in es for i in range(len(edges))])
        out.append([False] * len(edges))
        out.append([tuple(sorted(e)) in {(0, 1), (1, 2), (0, 2)} for e in edges])
        return out
    if d.get("wheel"):
        # a hub of degree >= 5 (an encoder may treat high-degree vertices differently): every triangle through the hub, the
        # rim, all spokes, spokes plus one rim edge each, single edges
        n, edges = _struct(d)
        m = len(edges)
        hub = [i for i, e in enumerate(edges) if 0 in e]
        rim = [i for i, e in enumerate(edges) if 0 not in e]
        out = [[False] * m, [i in hub for i in range(m)], [i in rim for i in range(m)]]
        for r in rim:
            u, v = edges[r]
            tri = [r] + [i for i in hub if set(edges[i]) in ({0, u}, {0, v})]
            out.append([i in tri for i in range(m)])
            out.append([i in hub or i == r for i in range(m)])
            out.append([i == r for i in range(m)])
        for i in hub:
            out.append([j in hub and j != i for j in range(m)])
        # two spokes (a path through the hub), alone and closed by the rim path between their ends (a cycle through the hub)
        ends = {i: [v for v in edges[i] if v != 0][0] for i in hub}
        for a_, b_ in itertools.combinations(hub, 2):
            out.append([j in (a_, b_) for j in range(m)])
            lo_, hi_ = sorted((ends[a_], ends[b_]))
            between = [r for r in rim if lo_ <= min(edges[r]) and max(edges[r]) <= hi_ and abs(edges[r][0] - edges[r][1]) == 1]
            out.append([j in (a_, b_) or j in between for j in range(m)])
        return out
    if f in ("active_edges_single_cycle", "active_edges_single_path", "active_edges_acyclic"):
        m = len(_edges_of(d))
        bases = [[True] * m, [True] * (m - 1) + [False], [False] * m, [i % 2 == 0 for i in range(m)], [False] + [True] * (m - 1)]
        if "frame" in d:
            h, w = d["frame"]
            for cyc in _frame_cycles(h, w):
                bases.append(cyc)
        return [a for b in bases for a in _mutations(b, rnd, 5)]
    if f.startswith("active_vertices_not_adjacent"):
        h, w = d["grid"]
        bases = []
        for (y0, x0) in [(0, 0), (0, 1), (1, 0), (0, w - 1), (h - 1, 0)]:
            for rows in ((1, 2), (0, 1), (2, 3), (h - 3, h - 2)):
                if min(rows) < 0 or max(rows) >= h:
                    continue
                g = [[False] * w for _ in range(h)]
                # border-rooted zig-zag diagonal chain along two interior rows
                y, x, cells = y0, x0, []
                while 0 <= x < w:
                    cells.append((y, x))
                    x += 1
                    y = rows[0] if y != rows[0] else rows[1]
                for k in range(1, len(cells) + 1):
                    g2 = [[False] * w for _ in range(h)]
                    for (cy, cx) in cells[:k]:
                        g2[cy][cx] = True
                    bases.append([g2[yy][xx] for yy in range(h) for xx in range(w)])
        for _ in range(12):
            g = [[False] * w for _ in range(h)]
            cells = [(y, x) for y in range(h) for x in range(w)]
            rnd.shuffle(cells)
            for (y, x) in cells:
                if not any(0 <= y + dy < h and 0 <= x + dx < w and g[y + dy][x + dx] for dy, dx in ((1, 0), (-1, 0), (0, 1), (0, -1))) and rnd.random() < 0.8:
                    g[y][x] = True
            bases.append([g[yy][xx] for yy in range(h) for xx in range(w)])
        out = []
        for b in bases:
            out += _mutations(b, rnd, 1)
        return out
    if f.startswith("division_connected_variable_groups"):
        n, edges = _struct(d)
        m = len(edges)
        bases = [[False] * m, [True] * m, [i == m // 2 for i in range(m)], [i % 3 == 0 for i in range(m)]]
        return [a + [] for b in bases for a in _mutations(b, rnd, 4)]
    if f.startswith("active_edges_connected_crossable") or f.startswith("active_edges_single_cycle_crossable"):
        h, w = d["frame"]
        nh, nv = (h + 1) * w, h * (w + 1)
        hk = [(y, x) for y in range(h + 1) for x in range(w)]
        vk = [(y, x) for y in range(h) for x in range(w + 1)]
        def pack(hs, vs):
            return [k in hs for k in hk] + [k in vs for k in vk]
        per_h = {(0, x) for x in range(w)} | {(h, x) for x in range(w)}
        per_v = {(y, 0) for y in range(h)} | {(y, w) for y in range(h)}
        if d.get("weave"):
            return _weaves(h, w, d["single_cycle"], rnd)
        loops = []
        if h >= 3 and w >= 3:
            # two closed loops that pass straight through each other at four 4-way points (a wide and a tall rectangle):
            # each alone is one strand, together they are two
            A = pack({(y, x) for y in (1, h - 1) for x in range(w)}, {(y, x) for x in (0, w) for y in range(1, h - 1)})
            B = pack({(y, x) for y in (0, h) for x in range(1, w - 1)}, {(y, x) for x in (1, w - 1) for y in range(h)})
            loops = [A, B, [a or b for a, b in zip(A, B)]]
        if d.get("deep") == "crossing-loops":
            return loops + [pack(per_h, per_v), pack(set(), set())]
        bases = [pack(per_h, per_v), pack(set(), set()), pack({(0, x) for x in range(w)}, set()),
                 pack({(y, x) for y in range(h + 1) for x in range(w)}, {(y, x) for y in range(h) for x in range(w + 1)})]
        for cy in range(1, h):
            for cx in range(1, w):
                # figure eight (two unit squares) crossing at the interior point (cy, cx)
                bases.append(pack({(cy - 1, cx - 1), (cy, cx - 1), (cy, cx), (cy + 1, cx)}, {(cy - 1, cx - 1), (cy - 1, cx), (cy, cx), (cy, cx + 1)}))
                # open path crossing itself at (cy, cx)
                bases.append(pack({(cy, cx - 1), (cy, cx), (cy - 1, cx)}, {(cy - 1, cx), (cy, cx), (cy - 1, cx + 1)} if cx + 1 <= w else set()))
        return loops + [a for b in bases for a in _mutations(b, rnd, 6)]
    raise ValueError(f)


def _weaves(h, w, single_cycle, rnd):
    """dense woven strands on the lattice of an h x w frame: every interior row and column is a full straight
    line (a crossing at every interior point); the line ends, taken in cyclic order round the perimeter, are
    joined pairwise by perimeter runs (two perfect matchings), optionally with one join left out (open trail).
    The reference predicate sorts them; the densest admissible ones (most visited points + crossings, where a
    spanning-tree certificate is deepest) are kept together with a few inadmissible ones and single mutations."""
    P, Q = h + 1, w + 1
    if P < 3 or Q < 3:
        return []
    hk = [(y, x) for y in range(h + 1) for x in range(w)]
    vk = [(y, x) for y in range(h) for x in range(w + 1)]
    per = [(0, x) for x in range(Q)] + [(y, Q - 1) for y in range(1, P)] + [(P - 1, x) for x in range(Q - 2, -1, -1)] + [(y, 0) for y in range(P - 2, 0, -1)]
    ends = [k for k, (y, x) in enumerate(per) if (y in (0, P - 1)) != (x in (0, Q - 1))]      # perimeter points that are not corners
    base_h = {(r, x) for r in range(1, P - 1) for x in range(Q - 1)}
    base_v = {(y, c) for c in range(1, Q - 1) for y in range(P - 1)}

    def run(a, b):
        hs, vs = set(), set()
        k = a
        while k != b:
            p, q = per[k], per[(k + 1) % len(per)]
            (y1, x1), (y2, x2) = sorted([p, q])
            (hs if y1 == y2 else vs).add((y1, x1))
            k = (k + 1) % len(per)
        return hs, vs

    # every set of non-overlapping joins of cyclically consecutive line ends (a few hundred for the boards used)
    n_e = len(ends)
    matchings = []

    def rec(i, used_first, cur):
        if len(matchings) > 4000:
            return
        if i >= n_e:
            matchings.append(list(cur))
            return
        rec(i + 1, used_first, cur)
        if i + 1 < n_e:
            cur.append(i)
            rec(i + 2, used_first, cur)
            cur.pop()
        elif i == n_e - 1 and not used_first:
            cur.append(i)
            rec(i + 2, used_first, cur)
            cur.pop()

    rec(1, False, [])          # end 0 free or joined to the last one
    rec(2, True, [0])          # end 0 joined to end 1
    cands = []
    for mt in matchings:
        if len(mt) < n_e // 2 - 1:
            continue           # at most one pair of line ends left open
        hs, vs = set(base_h), set(base_v)
        for i0 in mt:
            rh, rv = run(ends[i0], ends[(i0 + 1) % n_e])
            hs |= rh
            vs |= rv
        cands.append([k in hs for k in hk] + [k in vs for k in vk])
    good, bad = [], []
    for a in cands:
        hor = dict(zip(hk, a[:len(hk)]))
        ver = dict(zip(vk, a[len(hk):]))
        ok, visited, cross = graphpred.crossable(h, w, hor, ver, single_cycle)
        (good if ok else bad).append((sum(visited.values()) + sum(cross.values()), a))
    good.sort(key=lambda t: -t[0])
    out = []
    for _, a in good[:5]:
        out += _mutations(a, rnd, 1)
    for _, a in bad[:3]:
        out.append(a)
    return out


def _frame_cycles(h, w):
    """long loops on the lattice of an h x w frame as segment patterns (order of _frame_struct):
    the perimeter, a Hamiltonian cycle through every lattice point (when one exists) and a comb"""
    P, Q = h + 1, w + 1
    hk = [(y, x) for y in range(h + 1) for x in range(w)]
    vk = [(y, x) for y in range(h) for x in range(w + 1)]

    def pattern(points):
        hs, vs = set(), set()
        for (a, b) in zip(points, points[1:] + points[:1]):
            (y1, x1), (y2, x2) = sorted([a, b])
            if y1 == y2:
                hs.add((y1, x1))
            else:
                vs.add((y1, x1))
        return [k in hs for k in hk] + [k in vs for k in vk]

    out = []
    if P >= 2 and Q >= 2:
        per = [(0, x) for x in range(Q)] + [(y, Q - 1) for y in range(1, P)] + [(P - 1, x) for x in range(Q - 2, -1, -1)] + [(y, 0) for y in range(P - 2, 0, -1)]
        out.append(pattern(per))

        def ham(P, Q, tr):
            # rows even: top row left->right, rows 1..P-1 snake inside columns 1..Q-1, back up column 0
            pts = [(0, x) for x in range(Q)]
            for r in range(1, P):
                cols = range(Q - 1, 0, -1) if r % 2 == 1 else range(1, Q)
                pts += [(r, x) for x in cols]
            pts += [(r, 0) for r in range(P - 1, 0, -1)]
            return [(x, y) for (y, x) in pts] if tr else pts

        if P % 2 == 0:
            out.append(pattern(ham(P, Q, False)))
        elif Q % 2 == 0:
            out.append(pattern(ham(Q, P, True)))
    return out


def _deep_partitions(d):
    """a few partitions of a larger grid: rows, one block, a long serpentine block with the rest in
    strips (connected, large radius), and two with a disconnected block (must be rejected)"""
    h, w = d["grid"]
    cell = lambda y, x: y * w + x
    n = h * w
    out = [[0] * n, [y for y in range(h) for x in range(w)], [x for y in range(h) for x in range(w)]]
    lab = [-1] * n
    for y in range(0, h, 2):
        for x in range(w):
            lab[cell(y, x)] = 0
        if y + 1 < h and y + 2 < h:
            lab[cell(y + 1, (w - 1) if (y // 2) % 2 == 0 else 0)] = 0
    nxt = 1
    for y in range(h):
        run = False
        for x in range(w):
            if lab[cell(y, x)] == -1:
                if not run:
                    run = True
                    cur = nxt
                    nxt += 1
                lab[cell(y, x)] = cur
            else:
                run = False
    out.append(list(lab))
    bad = list(lab)
    if n >= 4:
        bad[cell(h - 1, w - 1)] = bad[cell(0, 0)] if lab[cell(h - 1, w - 1)] != lab[cell(0, 0)] else nxt
        out.append(bad)
    chk = [(y + x) % 2 for y in range(h) for x in range(w)]
    out.append(chk)
    return out


def json_key(d):
    import json
    return json.dumps(d, sort_keys=True)


def _edges_of(d):
    if "frame" in d:
        return _frame_struct(*d["frame"])[1]
    return [tuple(e) for e in d["edges"]]


def deep_descs(prop, tier):
    big = tier != "quick"
    P = lambda n: [list(e) for e in path_edges(n)]
    C = lambda n: [list(e) for e in cycle_edges(n)]
    out = []
    if prop == "C04":
        for n in (7, 10) + ((14,) if big else ()):
            for acyclic in (False, True):
                out.append(dict(func="active_vertices_connected", n=n, edges=P(n), acyclic=acyclic, prim=False, form="vars", deep=True))
                out.append(dict(func="active_vertices_connected", n=n, edges=C(n), acyclic=acyclic, prim=False, form="vars", deep=True))
        # (5, 6) and (7, 5): the smallest boards whose snake pattern has a radius above height + width - 2, the grid's own
        # diameter (a rank range derived from the board instead of the vertex count only fails there: seed S190)
        for g in ((1, 12), (12, 1), (4, 6), (6, 4), (5, 6), (7, 5)) + (((5, 7), (3, 10)) if big else ()):
            for acyclic in (False, True):
                out.append(dict(func="active_vertices_connected", grid=list(g), acyclic=acyclic, prim=False, form="vars", deep=True))
    if prop == "C04":
        for acyclic in (False, True):
            out.append(dict(func="active_vertices_connected", grid=[8, 13], acyclic=acyclic, prim=False, form="vars", deep="sparse"))
            out.append(dict(func="active_vertices_connected", n=101, edges=P(101), acyclic=acyclic, prim=False, form="vars", deep="sparse"))
            out.append(dict(func="active_vertices_connected", n=110, edges=C(110), acyclic=acyclic, prim=False, form="vars", deep="sparse"))
    if prop == "C05":
        for allow in (False, True):
            out.append(dict(func="division_connected", n=101, edges=P(101), R=2, roots=None, allow_empty=allow, prim=False, as_array=True, deep="sparse"))
            out.append(dict(func="division_connected", grid=[8, 13], R=2, roots=None, allow_empty=allow, prim=False, deep="sparse"))
        for n in (8, 11):
            for R in (2, 3):
                for allow in (False, True):
                    for roots in (None, [n - 1] + [None] * (R - 1), [None] * (R - 1) + [0]):
                        out.append(dict(func="division_connected", n=n, edges=P(n), R=R, roots=roots, allow_empty=allow, prim=False, as_array=True, deep=True))
        for g in ((1, 9), (9, 1), (3, 4), (4, 3)):
            for allow in (False, True):
                out.append(dict(func="division_connected", grid=list(g), R=2, roots=[g[0] * g[1] - 1, None], allow_empty=allow, prim=False, deep=True))
    if prop == "C06":
        for n in (8, 11):
            for prim in (False, True):
                out.append(dict(func="active_edges_single_cycle", n=n, edges=C(n), prim=prim, form="vars", deep=True))
                out.append(dict(func="active_edges_single_cycle", n=n, edges=C(n) + [[0, 1]], prim=prim, form="vars", deep=True))
            out.append(dict(func="active_edges_single_path", n=n, edges=P(n), prim=True, form="vars", deep=True))
        out.append(dict(func="active_edges_single_cycle", n=120, edges=C(120) + [[0, 60]], prim=False, form="vars", deep="sparse"))
        out.append(dict(func="active_edges_single_cycle", n=7, edges=WHEEL6, prim=False, form="vars", deep=True, wheel=True))
        out.append(dict(func="active_edges_single_cycle", n=7, edges=WHEEL6, prim=True, form="vars", deep=True, wheel=True))
        out.append(dict(func="active_edges_single_path", n=7, edges=WHEEL6, prim=True, form="vars", deep=True, wheel=True))
        K5 = [[u, v] for u in range(5) for v in range(u + 1, 5)]
        for prim in (False, True):
            out.append(dict(func="active_edges_single_cycle", n=5, edges=K5, prim=prim, form="vars", deep=True, cycles_of_complete_graph=True))
        for fr in ((3, 3), (2, 5), (5, 2), (3, 4), (4, 3), (2, 7)) + (((4, 4), (5, 5), (3, 6)) if big else ()):
            for prim in (False, True) if fr[0] * fr[1] <= 10 else (False,):
                out.append(dict(func="active_edges_single_cycle", frame=list(fr), prim=prim, deep=True))
    if prop == "C07":
        out.append(dict(func="division_connected_variable_groups_with_borders", n=101, edges=P(101), size="none", prim=False, deep="sparse"))
        out.append(dict(func="division_connected_variable_groups_with_borders", n=110, edges=C(110), size="none", prim=False, deep="sparse"))
        for n in (7, 9):
            for sf in ("none", "const%d" % n, "list:" + ",".join(["-"] * (n - 1) + [str(n)])):
                for prim in (False, True):
                    out.append(dict(func="division_connected_variable_groups_with_borders", n=n, edges=P(n), size=sf, prim=prim, deep=True))
        for g in ((1, 8), (3, 3), (2, 5)):
            sf = "list:" + ",".join(["-"] * (g[0] * g[1] - 1) + [str(g[0] * g[1])])
            for prim in (False, True):
                out.append(dict(func="division_connected_variable_groups_with_borders", grid=list(g), size=sf, prim=prim, deep=True))
        for g in ((5, 6), (6, 5), (3, 7)) + (((7, 6), (5, 8)) if big else ()):
            out.append(dict(func="division_connected_variable_groups", grid=list(g), size="none", deep=True))
    if prop == "C08":
        for n in (8, 9, 10, 11):
            # a vertex of degree n - 1 (7 .. 10): degree thresholds of a per-vertex / per-edge rewrite
            star = [[0, i] for i in range(1, n)]
            for func in ("active_vertices_not_adjacent", "active_vertices_not_adjacent_and_not_segmenting"):
                out.append(dict(func=func, n=n, edges=star, form="vars", deep="sparse"))
        for n in (9, 13):
            # wheel and fan: hub 0 joined to a rim cycle / path 1..n-1; with the hub active the inactive rim is a long cycle or
            # path although the whole graph has diameter 2 (a rank bound derived from distances in G is too small for it)
            rim = [[i, i + 1] for i in range(1, n - 1)]
            spokes = [[0, i] for i in range(1, n)]
            out.append(dict(func="active_vertices_not_adjacent_and_not_segmenting", n=n, edges=spokes + rim + [[n - 1, 1]], form="vars", deep="sparse"))
            out.append(dict(func="active_vertices_not_adjacent_and_not_segmenting", n=n, edges=spokes + rim, form="vars", deep="sparse"))
        out.append(dict(func="active_vertices_not_adjacent_and_not_segmenting", grid=[8, 13], as_grid=True, form="vars", deep="sparse"))
        out.append(dict(func="active_vertices_not_adjacent", grid=[8, 13], as_grid=True, form="vars", deep="sparse"))
        # 33 / 65 vertices (one more than a power of two: block-wise summation in an encoder or a back end), both forms
        for g in ((1, 33), (3, 11)) + (((33, 1), (5, 13)) if big else ()):
            for as_grid in (True, False):
                if as_grid or g[0] == 1 or big:
                    out.append(dict(func="active_vertices_not_adjacent_and_not_segmenting", grid=list(g), as_grid=as_grid, form="vars", deep="sparse"))
        for g in ((4, 6), (6, 4), (5, 7)) + (((4, 7), (7, 5), (3, 8), (8, 3), (6, 9), (9, 6), (5, 8)) if big else ()):
            out.append(dict(func="active_vertices_not_adjacent_and_not_segmenting", grid=list(g), as_grid=True, form="vars", deep=True))
            if g[0] * g[1] <= 40:
                # the explicit-graph form on a large grid is C04's rank encoder on a large graph: z3 needs minutes per pattern
                # there (measured: > 9 min for one 6x9 instance); the specialised grid encoding above is what C08 adds
                out.append(dict(func="active_vertices_not_adjacent_and_not_segmenting", grid=list(g), as_grid=False, form="vars", deep=True))
    if prop == "C09":
        out.append(dict(func="active_edges_acyclic", n=7, edges=WHEEL6, form="vars", deep=True, wheel=True))
        out.append(dict(func="active_edges_acyclic", n=8, edges=STAR7_PLUS, form="vars", deep=True, wheel=True))
        out.append(dict(func="active_edges_acyclic", n=120, edges=C(120) + [[0, 60]], form="vars", deep="sparse"))
        for n in (8, 9, 12, 13):
            out.append(dict(func="active_edges_acyclic", n=n, edges=P(n), form="vars", deep=True))
            out.append(dict(func="active_edges_acyclic", n=n, edges=C(n), form="vars", deep=True))
            out.append(dict(func="active_edges_acyclic", n=n, edges=[[0, i] for i in range(1, n)], form="vars", deep=True))
    if prop == "C10":
        for sc in (False, True):
            out.append(dict(func="active_edges_connected_crossable", frame=[7, 9], single_cycle=sc, prim=False, deep="sparse"))
        for fr in ((3, 3), (2, 4), (4, 2)) + (((3, 4), (4, 3)) if big else ()):
            for sc in (False, True):
                for prim in (False,):      # the reference encoding of the native operator is cubic in the graph size
                    out.append(dict(func="active_edges_connected_crossable", frame=list(fr), single_cycle=sc, prim=prim, deep=True))
        for fr in ((4, 5), (5, 4)) + (((5, 5), (4, 6)) if big else ()):
            for sc in (False, True):
                out.append(dict(func="active_edges_connected_crossable", frame=list(fr), single_cycle=sc, prim=False, deep=True, weave=True))
        for sc in (False, True):
            # the native route on a frame with four 4-way points: a handful of patterns only (the reference encoding of the
            # native operator is cubic in the graph size)
            out.append(dict(func="active_edges_connected_crossable", frame=[3, 3], single_cycle=sc, prim=True, deep="crossing-loops", solo=True))
    return out
