"""Re-checks a Lean lemma on every run: `lean <file>` must succeed, must not use `sorry`, and the axioms printed by
`#print axioms` must be the three standard ones.  The lemma is about the constraint schema of an emission contract
(a lemma over contracts), not about the Python text; the link between the two is the pyvc emission harness."""
import os
import re
import subprocess
import time

HERE = os.path.dirname(os.path.dirname(os.path.abspath(__file__)))
ALLOWED_AXIOMS = {"propext", "Classical.choice", "Quot.sound"}


_RUNS = {}


def _run(path, secs):
    if path not in _RUNS:
        t0 = time.time()
        try:
            p = subprocess.run(["lean", path], capture_output=True, text=True, timeout=secs, cwd=os.path.dirname(path))
            _RUNS[path] = (p.returncode, p.stdout + p.stderr, time.time() - t0)
        except FileNotFoundError:
            _RUNS[path] = ("missing", "", 0.0)
        except subprocess.TimeoutExpired:
            _RUNS[path] = ("timeout", "", secs)
    return _RUNS[path]


def check(rep, relpath, theorem, secs=900):
    """`theorem` may be one name or a list of names of the same file (lean runs once per file and process)"""
    path = os.path.join(HERE, relpath)
    src = open(path).read()
    if re.search(r"\bsorry\b", src) or re.search(r"\badmit\b", src):
        rep.crashes.append("%s contains sorry/admit" % relpath)
        return
    rc, out, took = _run(path, secs)
    names = [theorem] if isinstance(theorem, str) else list(theorem)
    if rc == "missing":
        rep.undecide("lean is not installed: lemmas %s not re-checked" % names)
        return
    if rc == "timeout":
        rep.undecide("lean timed out on %s" % relpath)
        return
    if rc != 0 or re.search(r"(^|\n)[^\n]*: error", out):
        rep.crashes.append("lean rejected %s: %s" % (relpath, out[-600:]))
        return
    if getattr(rep, "tier", "quick") != "quick":
        _independent_recheck(rep, path, relpath)
    for th in names:
        m = re.search(r"'%s' depends on axioms: \[([^\]]*)\]" % re.escape(th), out)
        axioms = set(a.strip() for a in m.group(1).split(",")) if m else None
        if axioms is None:
            rep.crashes.append("lean did not report the axioms of %s" % th)
        elif not axioms <= ALLOWED_AXIOMS:
            rep.crashes.append("%s depends on non-standard axioms %s" % (th, sorted(axioms - ALLOWED_AXIOMS)))
        else:
            rep.coverage.setdefault("lean_lemmas", []).append(dict(file=relpath, theorem=th, axioms=sorted(axioms),
                                                                   checker="lean 4 + Mathlib (%s)" % _lean_version(), secs=round(took, 1)))
            rep.evaluations += 1


_RECHECKED = {}


def _independent_recheck(rep, path, relpath):
    """thorough tier: compile the file to an .olean in a scratch directory and replay it with `leanchecker`, Lean's
    independent re-checker of compiled declarations (kernel only, no elaborator)"""
    if path in _RECHECKED:
        res = _RECHECKED[path]
    else:
        import shutil, tempfile
        d = tempfile.mkdtemp(prefix="leancheck_", dir=os.path.join(HERE, "scratch") if os.path.isdir(os.path.join(HERE, "scratch")) else None)
        try:
            mod = os.path.splitext(os.path.basename(path))[0]
            shutil.copy(path, os.path.join(d, mod + ".lean"))
            t0 = time.time()
            try:
                p1 = subprocess.run(["lean", "-o", mod + ".olean", mod + ".lean"], capture_output=True, text=True, timeout=900, cwd=d)
                if p1.returncode != 0 or not os.path.exists(os.path.join(d, mod + ".olean")):
                    res = ("error", "lean -o failed: " + (p1.stdout + p1.stderr)[-300:])
                else:
                    env = dict(os.environ, LEAN_PATH=d + (":" + os.environ["LEAN_PATH"] if os.environ.get("LEAN_PATH") else ""))
                    p2 = subprocess.run(["leanchecker", mod], capture_output=True, text=True, timeout=900, cwd=d, env=env)
                    res = ("ok", round(time.time() - t0, 1)) if p2.returncode == 0 else ("error", "leanchecker rejected %s: %s" % (mod, (p2.stdout + p2.stderr)[-300:]))
            except FileNotFoundError:
                res = ("missing", "")
            except subprocess.TimeoutExpired:
                res = ("timeout", "")
        finally:
            shutil.rmtree(d, ignore_errors=True)
        _RECHECKED[path] = res
    if res[0] == "ok":
        rep.coverage.setdefault("lean_independent_recheck", []).append(dict(file=relpath, checker="leanchecker (kernel replay of the compiled file)", secs=res[1]))
        rep.evaluations += 1
    elif res[0] == "error":
        rep.crashes.append(res[1])
    else:
        rep.undecide("leanchecker not available / timed out for %s" % relpath)


def _lean_version():
    try:
        return subprocess.run(["lean", "--version"], capture_output=True, text=True, timeout=30).stdout.strip()[:60]
    except Exception:
        return "?"


def leaf_characterisation_selftest(rep, tier):
    """the definition of `acyclic` used by the Lean lemma (every non-empty set of active edges has a vertex met by
    exactly one of them) against the reference predicate of the bounded tier (union-find forest test), on every
    loop-free multigraph with n <= 4 (5) vertices and m <= 5 (6) edges and every set of active edges"""
    import itertools
    from specs import graphpred
    from .common import multigraphs
    nmax, mmax = (4, 5) if tier == "quick" else (5, 6)
    n_cases = 0
    for n in range(1, nmax + 1):
        for edges in multigraphs(n, mmax if n <= 4 else 5):
            m = len(edges)
            for mask in range(1 << m):
                act = [bool(mask >> i & 1) for i in range(m)]
                ref = graphpred.edges_acyclic(n, edges, act)
                leaf = True
                active = [i for i in range(m) if act[i]]
                for r in range(1, len(active) + 1):
                    for S in itertools.combinations(active, r):
                        deg = [0] * n
                        for i in S:
                            deg[edges[i][0]] += 1
                            deg[edges[i][1]] += 1
                        if 1 not in deg:
                            leaf = False
                            break
                    if not leaf:
                        break
                n_cases += 1
                if leaf != ref:
                    rep.crashes.append("leaf characterisation and union-find forest test disagree on n=%d edges=%s active=%s" % (n, edges, act))
                    return
    rep.coverage["leaf_characterisation_vs_union_find"] = n_cases
    rep.evaluations += n_cases
