"""C13 (native tier, large arrays): 2D indexing of arrays with up to a few hundred cells against Python's nested lists.
A selection of >= 64 cells, a 70-cell row, a 64x2 board ... are sizes the exhaustive small scope (<= 3x3) never reaches; a
size-dependent branch of the indexing code (a "fast path") only runs here.  Elements are distinct ints, so order and
identity of every selected element are compared."""
import itertools

from .common import load_repo


def _nested(L, ky, kx):
    """the same index on a list of lists; IndexError per axis (an out-of-range integer on either axis raises)"""
    H, W = len(L), (len(L[0]) if L else 0)
    if isinstance(ky, int):
        if not -H <= ky < H:
            raise IndexError
    if isinstance(kx, int):
        if not -W <= kx < W:
            raise IndexError
    if isinstance(ky, int):
        row = L[ky]
        return ("scalar", row[kx]) if isinstance(kx, int) else ("1d", row[kx])
    rows = L[ky]
    if isinstance(kx, int):
        return ("1d", [r[kx] for r in rows])
    out = [r[kx] for r in rows]
    w = len(range(*kx.indices(W)))
    return ("2d", (len(out), w), [v for r in out for v in r])


def run(rep, tier):
    load_repo()
    from cspuz.array import IntArray2D
    from pyvc.runner import write_replay
    shapes = [(12, 12), (8, 9), (1, 70), (70, 1), (64, 2), (2, 64), (9, 8)] + ([(16, 16), (5, 13), (13, 5), (3, 100)] if tier != "quick" else [])
    seen = set()
    for (H, W) in shapes:
        L = [[y * W + x for x in range(W)] for y in range(H)]
        a = IntArray2D([v for r in L for v in r], (H, W))

        def keys(n):
            ks = [0, -1, n - 1, n, -n, -n - 1, n // 2]
            bounds = [None, 0, 1, -1, n, n - 1, n // 2, -n - 1, n + 3]
            steps = [None, 1, 2, 3, 5, -1, -2, -3, -5, n, -n]
            sl = [slice(a_, b_, c_) for a_ in bounds for b_ in bounds for c_ in steps]
            if tier == "quick":
                sl = sl[::5] + [slice(None, None, c_) for c_ in steps] + [slice(None, 0, -2), slice(n - 2, None, -2), slice(n - 1, None, -3), slice(None, 1, -3)]
            return ks, sl
        iy, sy = keys(H)
        ix, sx = keys(W)
        cases = list(itertools.product(iy, sx)) + list(itertools.product(sy, ix))
        pairs = list(itertools.product(sy, sx))
        if len(pairs) > 6000:
            pairs = pairs[:: len(pairs) // 6000 + 1]
        cases += pairs
        for (ky, kx) in cases:
            rep.evaluations += 1
            try:
                want = _nested(L, ky, kx)
            except IndexError:
                want = "IndexError"
            try:
                r = a[ky, kx]
                if isinstance(ky, int) and isinstance(kx, int):
                    got = ("scalar", r)
                elif len(r.shape) == 1:
                    got = ("1d", list(r.data))
                else:
                    got = ("2d", tuple(r.shape), list(r.data))
            except IndexError:
                got = "IndexError"
            except Exception as e:
                got = "%s: %s" % (type(e).__name__, e)
            if want != "IndexError" and want[0] == "2d" and got != "IndexError" and not isinstance(got, str) and got[0] == "2d":
                ok = (got[2] == want[2]) and (got[1] == want[1] or not want[2])     # empty selections: shape (0, w) / (h, 0) both hold no element
                ok = ok and (got[1] == want[1] or got[1][0] * got[1][1] == 0)
            else:
                ok = (got == want)
            if not ok:
                sig = "bigindex:%s" % ("IndexError-mismatch" if "IndexError" in (got, want) else "elements-differ")
                if sig in seen:
                    continue
                seen.add(sig)
                payload = dict(engine="bigindex", property="C13", shape=[H, W], ky=repr(ky), kx=repr(kx))
                rep.violation(sig, "array of shape %dx%d indexed with [%r, %r]: got %s, the nested list gives %s" % (H, W, ky, kx, str(got)[:120], str(want)[:120]),
                              write_replay("C13", "bigindex", payload))
    # coordinate lists: the elements at the listed (y, x) pairs, negative coordinates counted from the end, IndexError when a pair is
    # off the array; the caller's list is not changed, so the SAME list object used on a second array of another shape reads the
    # cells that list names there
    import copy
    import random
    rnd = random.Random(7)
    arrays = []
    for (H, W) in [(3, 4), (4, 3), (2, 5), (5, 2), (1, 6), (6, 6)]:
        L = [[1000 * H + y * W + x for x in range(W)] for y in range(H)]
        arrays.append((H, W, L, IntArray2D([v for r in L for v in r], (H, W))))
    for trial in range(60 if tier == "quick" else 600):
        k = rnd.randrange(0, 6)
        coords = [(rnd.randrange(-3, 4), rnd.randrange(-3, 4)) for _ in range(k)]
        key = [tuple(c) for c in coords]           # the library asks for tuples
        snap = copy.deepcopy(key)
        for (H, W, L, a) in rnd.sample(arrays, 3):
            rep.evaluations += 1
            try:
                want = []
                for (y, x) in snap:
                    if not (-H <= y < H and -W <= x < W):
                        raise IndexError
                    want.append(L[y][x])
            except IndexError:
                want = "IndexError"
            try:
                r = a[key]
                got = list(r.data)
            except IndexError:
                got = "IndexError"
            except Exception as e:
                got = "%s: %s" % (type(e).__name__, e)
            bad = None
            if got != want:
                bad = ("coordinate-list-elements", "array %dx%d indexed with the coordinate list %r: got %s, the nested list gives %s" % (H, W, snap, str(got)[:100], str(want)[:100]))
            elif key != snap:
                bad = ("coordinate-list-changed", "indexing a %dx%d array changed the caller's coordinate list from %r to %r" % (H, W, snap, key))
            if bad and ("bigindex:" + bad[0]) not in seen:
                seen.add("bigindex:" + bad[0])
                rep.violation("bigindex:" + bad[0], bad[1], write_replay("C13", "bigindex", dict(engine="bigindex", property="C13", coords=repr(snap), shape=[H, W])))
            if key != snap:
                key = copy.deepcopy(snap)
    rep.coverage["large_arrays_indexed"] = [list(s) for s in shapes]


def replay(payload):
    from pyvc.runner import Report
    rep = Report("C13", "quick", 0, "proof")
    run(rep, "quick")
    for v in rep.violations:
        print("still fails:", v["signature"], v["detail"][:200])
    return 1 if rep.violations else 0
