"""C03 (bounded): the text-protocol back ends, run for real against stub 'external solvers' that
speak the reference implementation of the wire protocol (specs/sugar_ref.py, stubs/).
Also provides the route-2 runs of C02."""
import itertools
import json
import os
import random
import sys
import tempfile

from .common import load_repo
from . import programs
from specs import den, sugar_ref

STUBS = os.path.join(os.path.dirname(os.path.dirname(os.path.abspath(__file__))), "stubs")
NAMES = ["sugar", "sugar_extended", "csugar", "enigma_csp", "cspuz_core"]
ENTRY = {"csugar": "pycsugar.solver", "enigma_csp": "enigma_csp.solver", "cspuz_core": "cspuz_core.solver",
         "sugar": "subprocess", "sugar_extended": "subprocess"}


class Env:
    """stages the stub solvers; collects what they received"""

    def __enter__(self):
        load_repo()
        if STUBS not in sys.path:
            sys.path.insert(1, STUBS)
        import _record
        self.rec = _record
        self.rec.CALLS.clear()
        self.rec.OVERRIDE["reply"] = None
        from cspuz.configuration import config
        self.config = config
        self.saved = (config.backend_path, config.solver_timeout)
        config.backend_path = os.path.join(STUBS, "sugar")
        config.solver_timeout = None
        fd, self.log = tempfile.mkstemp(prefix="verif_sugar_", suffix=".log")
        os.close(fd)
        fd, self.reply_file = tempfile.mkstemp(prefix="verif_sugar_reply_", suffix=".txt")
        os.close(fd)
        os.unlink(self.reply_file)
        os.environ["VERIF_SUGAR_LOG"] = self.log
        os.environ["VERIF_SUGAR_REPLY_FILE"] = self.reply_file
        return self

    def __exit__(self, *a):
        self.config.backend_path, self.config.solver_timeout = self.saved
        for p in (self.log, self.reply_file):
            if os.path.exists(p):
                os.unlink(p)
        os.environ.pop("VERIF_SUGAR_LOG", None)
        os.environ.pop("VERIF_SUGAR_REPLY_FILE", None)
        self.rec.OVERRIDE["reply"] = None
        return False

    def take_calls(self):
        """list of (entry, argv-or-None, text) since the last call"""
        out = [(e, None, t) for (e, t) in self.rec.CALLS]
        self.rec.CALLS.clear()
        if os.path.exists(self.log):
            with open(self.log) as f:
                for line in f:
                    argv, text = eval(line)
                    out.append(("subprocess", argv, text))
            open(self.log, "w").close()
        return out

    def set_reply(self, text):
        if text is None:
            self.rec.OVERRIDE["reply"] = None
            if os.path.exists(self.reply_file):
                os.unlink(self.reply_file)
        else:
            self.rec.OVERRIDE["reply"] = lambda entry, desc: text
            with open(self.reply_file, "w") as f:
                f.write(text)


def var_name(v):
    return ("b%d" if den.kind_of(v) == "bool" else "i%d") % v.id


def check_description(solver, name, calls, keys, n_base):
    """P3/P5: every description handed out declares exactly the variables, denotes the constraints,
    names the keys, through the right entry point.  returns list of (kind, detail)"""
    probs = []
    if not calls:
        return [("no-call", "the external solver was never invoked")]
    exp_decl = sorted(("bool", var_name(v)) if den.kind_of(v) == "bool" else ("int", var_name(v), v.lo, v.hi)
                      for v in solver.variables)
    asgs = list(den.all_assignments(solver.variables, 5000) or [])
    for (entry, argv, text) in calls:
        if entry != ENTRY[name]:
            probs.append(("entry-point", "backend %s invoked %s, expected %s" % (name, entry, ENTRY[name])))
        if entry == "subprocess" and (argv is None or argv != ["/dev/stdin"]):
            probs.append(("argv", "sugar was started with arguments %r" % (argv,)))
        try:
            P = sugar_ref.parse(text)
        except Exception as e:
            probs.append(("unparsable", "description does not parse: %s" % e))
            continue
        if sorted(P.decls) != exp_decl:
            probs.append(("declarations", "declared %s, solver has %s" % (sorted(P.decls)[:6], exp_decl[:6])))
            continue
        if keys is None or name == "sugar":
            if P.keys is not None:
                probs.append(("key-line", "a key line was sent in answer-finder mode"))
        else:
            want = sorted(var_name(v) for v in solver.variables if keys[v.id])
            if P.keys is None or sorted(P.keys) != want:
                probs.append(("key-line", "key line names %s, registered keys are %s" % (P.keys, want)))
        if len(P.constraints) < n_base:
            probs.append(("constraint-count", "%d constraints sent, %d posted" % (len(P.constraints), n_base)))
            continue
        if len(P.constraints) > n_base and not (name == "sugar" and keys is not None):
            probs.append(("constraint-count", "%d constraints sent, %d posted" % (len(P.constraints), n_base)))
        for i in range(n_base):
            c = solver.constraints[i]
            for a in asgs:
                byname = {var_name(v): a[v.id] for v in solver.variables}
                try:
                    got = sugar_ref.ev(P.constraints[i], byname)
                except Exception as e:
                    got = "error %s" % e
                if got is not den.ev(c, a):
                    probs.append(("denotation", "constraint %d is sent as %s which evaluates to %r under %s, posted constraint evaluates to %r"
                                  % (i, json.dumps(P.constraints[i])[:200], got, byname, den.ev(c, a))))
                    break
    return probs


def graph_program(rnd):
    """a small program using the two native graph operators (use_graph_primitive=True)"""
    load_repo()
    from cspuz import Solver, graph as G
    s = Solver()
    n = rnd.randrange(1, 5)
    edges = [(u, v) for u in range(n) for v in range(u + 1, n) if rnd.random() < 0.6]
    k = rnd.randrange(3)
    if edges and rnd.random() < 0.5:
        # multigraphs: a parallel edge (in either orientation); for the vertex constraint also a self-loop
        u, v = rnd.choice(edges)
        edges.append((v, u) if rnd.random() < 0.5 else (u, v))
        if k == 0 and rnd.random() < 0.5:
            w = rnd.randrange(n)
            edges.append((w, w))
    g = G.Graph(n)
    for (u, v) in edges:
        g.add_edge(u, v)
    def with_constants(arr):
        # raw Python booleans among the operands (next to the plain ints 0 / 1 the operator also carries: vertex numbers, sizes)
        xs = list(arr)
        if rnd.random() < 0.5:
            for i in range(len(xs)):
                if rnd.random() < 0.4:
                    xs[i] = rnd.random() < 0.5
        return xs
    if k == 0:
        x = with_constants(s.bool_array(n))
        G.active_vertices_connected(s, x, g, use_graph_primitive=True)
    elif k == 1:
        sizes = [rnd.choice([None, 1, 2]) for _ in range(n)]
        b = with_constants(s.bool_array(len(edges)))
        G.division_connected_variable_groups_with_borders(s, group_size=sizes, is_border=b, graph=g, use_graph_primitive=True)
    else:
        e = with_constants(s.bool_array(len(edges)))
        G.active_edges_single_cycle(s, e, g, use_graph_primitive=True)
    return s


def wide_program(rnd):
    """a program with thousands of variables (one key per cell or edge of a large board): only the description is judged"""
    load_repo()
    from cspuz import Solver
    s = Solver()
    n = rnd.choice([1023, 1024, 1025, 2049, 2600, 4100])
    vs = []
    for j in range(n):
        vs.append(s.bool_var() if rnd.random() < 0.7 else s.int_var(-1, 1))
    bs = [v for v in vs if den.kind_of(v) == "bool"]
    s.ensure(bs[0] | bs[1])
    return s


def _w_wide(lo, hi, seed, out):
    import warnings
    with Env() as env:
        for k in range(lo, hi):
            rnd = random.Random(seed * 7919 + k)
            s = wide_program(rnd)
            name = [n for n in NAMES if n != "sugar"][k % (len(NAMES) - 1)]
            nv = len(s.variables)
            for keys in ([True] * nv, [rnd.random() < 0.9 for _ in range(nv)]):
                out["n"] += 1
                s.is_answer_key = list(keys)
                env.set_reply("sat\n")
                env.take_calls()
                with warnings.catch_warnings():
                    warnings.simplefilter("ignore")
                    try:
                        s.solve(name)
                    except Exception as e:
                        out["fails"].append(dict(kind="wide-exception", detail="%s: %s" % (type(e).__name__, e), backend=name, mode="deduction",
                                                 program=dict(variables=nv), how=dict(kind="wide", seed=seed * 7919 + k)))
                        continue
                calls = env.take_calls()
                for (kd, detail) in check_description(s, name, calls, keys, 1):
                    out["fails"].append(dict(kind=kd, detail=detail[:400], backend=name, mode="deduction",
                                             program=dict(variables=nv, keys=sum(keys)), how=dict(kind="wide", seed=seed * 7919 + k)))
            s.is_answer_key = [False] * nv
        env.set_reply(None)


def _w(args):
    kind, lo, hi, seed = args
    out = dict(n=0, fails=[], crash=None, samples=[])
    if kind == "wide":
        try:
            _w_wide(lo, hi, seed, out)
        except Exception:
            import traceback
            out["crash"] = traceback.format_exc()[-1500:]
        return out
    try:
        with Env() as env:
            for k in range(lo, hi):
                rnd = random.Random(seed * 9973 + k)
                if kind == "graph":
                    s = graph_program(rnd)
                else:
                    s = programs.build_random(seed * 9973 + k, depth=2)
                name = NAMES[k % len(NAMES)]
                nb = len(s.constraints)
                keys_list = [None]
                keys_list.append([rnd.random() < 0.6 for _ in s.variables])
                if k % 3 == 0:
                    keys_list.append([True] * len(s.variables))
                for keys in keys_list:
                    if out.get("timeouts", 0) >= 2:
                        break
                    out["n"] += 1
                    env.take_calls()
                    if keys is None:
                        f = programs.check_find_answer(s, backend=name)
                    else:
                        f = programs.check_solve(s, keys, backend=name)
                    calls = env.take_calls()
                    probs = check_description(s, name, calls, keys, nb)
                    if f:
                        probs.append(("result:" + f["kind"], f["detail"]))
                    if f and f["kind"] == "timeout":
                        out["timeouts"] = out.get("timeouts", 0) + 1
                    for (kd, detail) in probs:
                        out["fails"].append(dict(kind=kd, detail=detail, backend=name, mode="finder" if keys is None else "deduction",
                                                 program=programs.describe(s), how=dict(kind=kind, seed=seed * 9973 + k, keys=keys)))
                    if not probs and len(out["samples"]) < 1 and calls:
                        out["samples"].append(dict(backend=name, keys=keys, description=calls[0][2][:300]))
    except Exception:
        import traceback
        out["crash"] = traceback.format_exc()[-1500:]
    return out


def reply_cases(env, rep):
    """P4: every well-formed reply is reflected into sol (right variable, right type, others None)"""
    from cspuz import Solver
    import warnings
    from pyvc.runner import write_replay
    n = 0
    for name in NAMES:
        s = Solver()
        b0 = s.bool_var()
        i1 = s.int_var(-2, 3)
        b2 = s.bool_var()
        i3 = s.int_var(0, 12)
        s.ensure(b0 | (i1 >= 0))
        vs = {"b0": b0, "i1": i1, "b2": b2, "i3": i3}
        vals = {"b0": [True, False], "i1": [-2, 0, 3], "b2": [False, True], "i3": [0, 10, 12]}

        def fmt(v):
            return ("true" if v else "false") if isinstance(v, bool) else str(v)

        def fail(kind, detail, reply):
            payload = dict(engine="sugar-replies", property="C03", backend=name, reply=reply, kind=kind, detail=detail)
            rp = write_replay("C03", "reply_" + kind, payload)
            rep.violation("reply:%s:%s" % (kind, "finder" if reply.startswith("s ") else "deduction"),
                          "%s | backend %s | reply %r" % (detail, name, reply), rp)

        # answer-finder replies: all orders of the four assignment lines
        for combo in itertools.product(*[vals[k] for k in ("b0", "i1", "b2", "i3")]):
            asg = dict(zip(("b0", "i1", "b2", "i3"), combo))
            if combo[1] not in (-2, 3) and combo[3] != 10:
                continue
            for perm in itertools.islice(itertools.permutations(asg.items()), 0, 24, 5):
                text = "s SATISFIABLE\n" + "".join("a %s\t%s\n" % (k, fmt(v)) for k, v in perm) + "a\n"
                env.set_reply(text)
                for v in vs.values():
                    v.sol = None
                r = s.find_answer(name)
                n += 1
                if r is not True:
                    fail("sat-reply-not-true", "find_answer returned %r" % (r,), text)
                for k, v in asg.items():
                    if vs[k].sol != v or type(vs[k].sol) is not type(v):
                        fail("assignment-not-reflected", "%s.sol is %r, reply says %r" % (k, vs[k].sol, v), text)
                        break
        env.set_reply("s UNSATISFIABLE\n")
        for v in vs.values():
            v.sol = 7
        r = s.find_answer(name)
        n += 1
        if r is not False or any(v.sol is not None for v in vs.values()):
            fail("unsat-reply", "find_answer returned %r, sols %s" % (r, [v.sol for v in vs.values()]), "s UNSATISFIABLE\n")
        if name == "sugar":
            continue
        # deduction replies: every subset of keys decided, a few line orders
        s.is_answer_key = [True, True, True, False]
        keys = ["b0", "i1", "b2"]
        for mask in range(8):
            decided = [k for j, k in enumerate(keys) if mask >> j & 1]
            for valsel in range(2):
                asg = {k: vals[k][valsel] for k in decided}
                for perm in itertools.permutations(asg.items()):
                    text = "sat\n" + "".join("%s %s\n" % (k, fmt(v)) for k, v in perm)
                    env.set_reply(text)
                    for v in vs.values():
                        v.sol = 99
                    with warnings.catch_warnings():
                        warnings.simplefilter("ignore")
                        r = s.solve(name)
                    n += 1
                    if r is not True:
                        fail("sat-reply-not-true", "solve returned %r" % (r,), text)
                    for k in keys + ["i3"]:
                        want = asg.get(k)
                        if vs[k].sol != want or (want is not None and type(vs[k].sol) is not type(want)):
                            fail("fact-not-reflected", "%s.sol is %r, reply decides %r" % (k, vs[k].sol, want), text)
                            break
        env.set_reply("unsat\n")
        with warnings.catch_warnings():
            warnings.simplefilter("ignore")
            r = s.solve(name)
        n += 1
        if r is not False or any(v.sol is not None for v in vs.values()):
            fail("unsat-reply", "solve returned %r, sols %s" % (r, [v.sol for v in vs.values()]), "unsat\n")
        s.is_answer_key = [False] * 4
    env.set_reply(None)
    return n


def run_c03(rep, tier, seed, nproc=8):
    from concurrent.futures import ProcessPoolExecutor
    from pyvc.runner import write_replay
    with Env() as env:
        n = reply_cases(env, rep)
        rep.evaluations += n
        rep.coverage["reply_texts_checked"] = n
    nr = 100 if tier == "quick" else 1500
    ng = 40 if tier == "quick" else 400
    nw = 8 if tier == "quick" else 48
    tasks = [("random", i, min(i + 10, nr), seed) for i in range(0, nr, 10)] + [("graph", i, min(i + 10, ng), seed + 1) for i in range(0, ng, 10)]
    tasks += [("wide", i, min(i + 2, nw), seed + 2) for i in range(0, nw, 2)]
    rep.coverage["wide_programs_1023_to_4100_variables"] = nw
    seen = set()
    with ProcessPoolExecutor(nproc) as ex:
        for r in ex.map(_w, tasks):
            rep.evaluations += r["n"]
            if r["crash"]:
                rep.crashes.append(r["crash"])
            for s in r["samples"]:
                if len(rep.samples) < 6:
                    rep.samples.append(s)
            for f in r["fails"]:
                sig = "text:%s:%s:%s" % (f["kind"], f["backend"] if f["kind"] in ("entry-point", "argv") else "any", f["mode"])
                if sig in seen:
                    continue
                seen.add(sig)
                rp = write_replay("C03", f["kind"], dict(engine="sugar", property="C03", **f))
                rep.violation(sig, "%s | backend %s (%s) | program %s" % (f["detail"], f["backend"], f["mode"], json.dumps(f["program"])[:300]), rp)
    rep.distinct.update(("c03", i) for i in range(rep.evaluations))


# ------------------------------------------------------------------------------------------------ C02
def _w_c02(args):
    lo, hi, seed, backends = args
    out = dict(n=0, fails=[], crash=None, samples=[], timeouts=0)
    try:
        with Env() as env:
            for k in range(lo, hi):
                rnd = random.Random(seed * 4241 + k)
                s = programs.build_random(seed * 4241 + k, depth=2 if k % 3 else 3)
                if k % 4 == 0:
                    # a wide-valued key that is decided next to an undecided one (values outside small ranges)
                    lo = rnd.choice([300, -70000, 1000, 257, -18, 2 ** 40])
                    extra = s.int_var(lo, lo + 2)
                    free = s.bool_var()
                    V = s.verif_vocab
                    V.ints.append(extra)
                    V.bools.append(free)
                    t = ("cmp", "eq", ("ivar", len(V.ints) - 1), ("ilit", lo + 1))
                    s.verif_terms.append(t)
                    s.ensure(programs.build(t, V))
                nv = len(s.variables)
                subsets = list(itertools.product([False, True], repeat=nv))
                if len(subsets) > 8:
                    subsets = [tuple([False] * nv), tuple([True] * nv)] + rnd.sample(subsets, 6)
                for name in backends:
                    for keys in subsets:
                        if out["timeouts"] >= 2:
                            break
                        out["n"] += 1
                        f = programs.check_solve(s, list(keys), backend=name)
                        if f:
                            if f["kind"] == "timeout":
                                out["timeouts"] += 1
                            route = "own-refinement" if name in ("z3", "sugar") else "backend-deduction"
                            f.update(route=route, backend=name, keys=list(keys), cls=programs.classify_program(s),
                                     program=programs.describe(s), how=dict(seed=seed * 4241 + k, depth=2 if k % 3 else 3))
                            out["fails"].append(f)
                if len(out["samples"]) < 1:
                    out["samples"].append(dict(program=programs.describe(s), key_subsets=len(subsets), backends=backends))
    except Exception:
        import traceback
        out["crash"] = traceback.format_exc()[-1500:]
    return out


def run_c02(rep, tier, seed, nproc=8):
    from concurrent.futures import ProcessPoolExecutor
    from pyvc.runner import write_replay
    backends = ["z3", "sugar", "sugar_extended", "csugar", "enigma_csp", "cspuz_core"]
    n = 80 if tier == "quick" else 1200
    tasks = [(i, min(i + 5, n), seed, backends if (i // 5) % 2 == 0 else ["z3", "cspuz_core"]) for i in range(0, n, 5)]
    seen = set()
    with ProcessPoolExecutor(nproc) as ex:
        for r in ex.map(_w_c02, tasks):
            rep.evaluations += r["n"]
            if r["crash"]:
                rep.crashes.append(r["crash"])
            for s in r["samples"]:
                if len(rep.samples) < 6:
                    rep.samples.append(s)
            for f in r["fails"]:
                sig = "solve:%s:%s:%s" % (f["route"], f["kind"], f["cls"])
                if sig in seen:
                    continue
                seen.add(sig)
                rp = write_replay("C02", "solve_%s_%s" % (f["route"], f["kind"]), dict(engine="solve", property="C02", **f))
                rep.violation(sig, "%s | backend %s keys %s | program %s" % (f["detail"], f["backend"], f["keys"], json.dumps(f["program"])[:300]), rp)
    # large programs with exactly one model (z3 route): every key must come out decided, with the model's value
    with Env():
        for f in programs.large_structured_programs(tier, use_solve=True):
            rep.evaluations += 1
            if f is not None:
                sig = "solve:fallback:%s:large" % f["kind"]
                if sig not in seen:
                    seen.add(sig)
                    rp = write_replay("C02", "solve_large_%s" % f["kind"], dict(engine="solve", property="C02", **f))
                    rep.violation(sig, f["detail"], rp)
        for f in programs.many_key_programs(tier):
            rep.evaluations += 1
            if f is not None:
                sig = "solve:fallback:%s:many-keys" % f["kind"]
                if sig not in seen:
                    seen.add(sig)
                    rp = write_replay("C02", "solve_manykeys_%s" % f["kind"], dict(engine="solve", property="C02", **f))
                    rep.violation(sig, f["detail"], rp)
        for f in programs.wide_constant_programs(tier, use_solve=True):
            rep.evaluations += 1
            if f is not None:
                sig = "solve:fallback:%s:wide-constant" % f["kind"]
                if sig not in seen:
                    seen.add(sig)
                    rp = write_replay("C02", "solve_wideconst_%s" % f["kind"], dict(engine="solve", property="C02", **f))
                    rep.violation(sig, f["detail"], rp)
        for f in programs.wide_operator_programs(tier, use_solve=True):
            rep.evaluations += 1
            if f is not None:
                sig = "solve:fallback:%s:wide-operator" % f["kind"]
                if sig not in seen:
                    seen.add(sig)
                    rp = write_replay("C02", "solve_wide_%s" % f["kind"], dict(engine="solve", property="C02", **f))
                    rep.violation(sig, f["detail"], rp)
    rep.distinct.update(("c02", i) for i in range(rep.evaluations))


def replay_c02(payload):
    if "how" not in payload:
        # deterministic families (large, wide-operator, wide-constant, many-keys programs): re-run them and report what still fails
        with Env():
            bad = [f for f in list(programs.large_structured_programs("quick", use_solve=True)) + list(programs.many_key_programs("quick"))
                   + list(programs.wide_constant_programs("quick", use_solve=True)) + list(programs.wide_operator_programs("quick", use_solve=True)) if f is not None]
        for f in bad[:5]:
            print("still fails:", f["detail"][:300])
        if not bad:
            print("the deterministic program families agree now")
        return 1 if bad else 0
    with Env():
        s = programs.build_random(payload["how"]["seed"], depth=payload["how"]["depth"])
        f = programs.check_solve(s, payload["keys"], backend=payload["backend"])
    print("replay:", json.dumps(programs.describe(s))[:400], "keys", payload["keys"], "backend", payload["backend"], "->", f or "agrees with brute force")
    return 1 if f else 0
