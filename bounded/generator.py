"""Bounded engines for C18 (segmentation builder) and the bounded clauses of C19 (builders,
reproducibility, shuffle bijection).  Always labelled bounded; never counted as proved."""
import ast
import copy
import itertools
import json
import os
import random

from .common import load_repo, repo_root, set_partitions


# ------------------------------------------------------------------------------------------- C18
def _connected(cells):
    cells = set(cells)
    if not cells:
        return False
    start = next(iter(cells))
    seen = {start}
    stack = [start]
    while stack:
        y, x = stack.pop()
        for d in ((1, 0), (-1, 0), (0, 1), (0, -1)):
            p = (y + d[0], x + d[1])
            if p in cells and p not in seen:
                seen.add(p)
                stack.append(p)
    return len(seen) == len(cells)


def partition_ok(h, w, B):
    """the blocks partition the board into non-empty orthogonally connected blocks"""
    if not isinstance(B, list):
        return "value is not a list"
    seen = {}
    for i, blk in enumerate(B):
        if not isinstance(blk, list) or not blk:
            return "block %d is empty or not a list" % i
        for p in blk:
            if not (isinstance(p, tuple) and len(p) == 2 and 0 <= p[0] < h and 0 <= p[1] < w):
                return "foreign cell %r" % (p,)
            if p in seen:
                return "cell %r occurs twice" % (p,)
            seen[p] = i
        if not _connected(blk):
            return "block %d is not connected" % i
    if len(seen) != h * w:
        return "cells missing"
    return None


def bounds_ok(cfg, B):
    if not (cfg["min_num"] <= len(B) <= cfg["max_num"]):
        return "number of blocks %d outside [%d, %d]" % (len(B), cfg["min_num"], cfg["max_num"])
    for blk in B:
        if not (cfg["min_size"] <= len(blk) <= cfg["max_size"]):
            return "block size %d outside [%d, %d]" % (len(blk), cfg["min_size"], cfg["max_size"])
    return None


def all_partitions(h, w):
    cells = [(y, x) for y in range(h) for x in range(w)]
    for rgs in set_partitions(len(cells)):
        blocks = {}
        for c, b in zip(cells, rgs):
            blocks.setdefault(b, []).append(c)
        bl = [blocks[k] for k in sorted(blocks)]
        if all(_connected(b) for b in bl):
            yield bl


class DrawBudgetExceeded(Exception):
    """a library routine that walks at random until a condition holds did not get there within the allotted draws"""


class ScriptedRandom:
    """stands in for the random source of segmentation.py: scripted randint/choice, then a seeded
    generator (both the global-`random` and the `srandom` spelling are served)"""

    def __init__(self, seed, script=None, budget=None):
        self.rnd = random.Random(seed)
        self.script = list(script or [])
        self.budget = budget        # number of draws after which DrawBudgetExceeded is raised (None: unlimited)

    def _draw(self):
        if self.budget is not None:
            self.budget -= 1
            if self.budget < 0:
                raise DrawBudgetExceeded()

    def randint(self, a, b):
        self._draw()
        if self.script:
            v = self.script.pop(0)
            if a <= v <= b:
                return v
        return self.rnd.randint(a, b)

    def choice(self, seq):
        return seq[self.randint(0, len(seq) - 1)]

    def shuffle(self, seq):
        self._draw()
        self.rnd.shuffle(seq)

    def random(self):
        self._draw()
        return self.rnd.random()


def _patch_random(seg, src):
    """redirect whatever random source the module uses"""
    saved = {}
    for name in ("random", "srandom"):
        if hasattr(seg, name):
            saved[name] = getattr(seg, name)
            setattr(seg, name, src)
    return saved


def _unpatch(seg, saved):
    for k, v in saved.items():
        setattr(seg, k, v)


def cfg_of(h, w, mn, mx, smn, smx):
    return dict(min_num=mn or 1, max_num=mx or h * w, min_size=smn or 1, max_size=smx or h * w,
                args=dict(min_num_blocks=mn, max_num_blocks=mx, min_block_size=smn, max_block_size=smx))


def _no_candidates_left(builder, seg, seed):
    """replays initial() step by step with the same scripted randomness and reports whether it stops because candidates()
    returned an empty list for a value that does not meet the bounds yet"""
    saved = _patch_random(seg, ScriptedRandom(seed))
    try:
        b0 = seg.SegmentationBuilder2D(builder.height, builder.width, min_num_blocks=builder.min_num_blocks, max_num_blocks=builder.max_num_blocks,
                                       min_block_size=builder.min_block_size, max_block_size=builder.max_block_size, allow_unmet_constraints_first=True)
        cur = b0.initial()
        for _ in range(10000):
            met = builder.min_num_blocks <= len(cur) <= builder.max_num_blocks and all(builder.min_block_size <= len(x) <= builder.max_block_size for x in cur)
            if met:
                return False
            cands = builder.candidates(cur)
            if not cands:
                return True
            cur = builder._copy_with_update(cur, seg.srandom.choice(cands), use_deepcopy=False)
        return False
    except Exception:
        return False
    finally:
        _unpatch(seg, saved)


def run_c18(rep, tier, seed):
    load_repo()
    import cspuz.generator.segmentation as seg
    from pyvc.runner import write_replay
    rnd = random.Random(seed)
    boards = [(1, 1), (1, 2), (2, 1), (1, 3), (1, 4), (2, 2), (2, 3), (3, 2), (2, 4), (4, 2)]
    if tier != "quick":
        boards += [(1, 6), (3, 1), (3, 3), (2, 5), (5, 2)]

    def viol(kind, detail, payload):
        payload = dict(engine="segmentation", property="C18", kind=kind, detail=detail, **payload)
        rp = write_replay("C18", kind, payload)
        rep.violation("seg:" + kind, detail + " | " + json.dumps(payload, default=str)[:300], rp)

    n_updates = 0
    for (h, w) in boards:
        parts = list(all_partitions(h, w))
        N = h * w
        cfgs = [cfg_of(h, w, None, None, None, None)]
        rng = range(1, N + 1)
        allc = [(a, b, c, d) for a in rng for b in rng if a <= b for c in rng for d in rng if c <= d]
        if tier == "quick":
            allc = rnd.sample(allc, min(len(allc), 8))
        elif len(allc) > 60:
            allc = rnd.sample(allc, 60)
        cfgs += [cfg_of(h, w, *c) for c in allc]
        for cfg in cfgs:
            b = seg.SegmentationBuilder2D(h, w, **cfg["args"])
            feasible = [p for p in parts if bounds_ok(cfg, p) is None]
            # initial()
            if feasible:
                # initial() walks at random until the bounds are met: C18 does not promise that it gets there, so the walk is
                # given a budget of draws and a walk that uses it up is counted, not judged (and cannot hang the check)
                saved = _patch_random(seg, ScriptedRandom(seed, budget=20000))
                try:
                    init = b.initial()
                    e = partition_ok(h, w, init) or bounds_ok(cfg, init)
                    if e:
                        viol("initial-invalid", e, dict(board=[h, w], cfg=cfg["args"], value=init))
                    b2 = seg.SegmentationBuilder2D(h, w, allow_unmet_constraints_first=True, **cfg["args"])
                    e = partition_ok(h, w, b2.initial())
                    if e:
                        viol("initial-invalid-unmet", e, dict(board=[h, w], cfg=cfg["args"]))
                except DrawBudgetExceeded:
                    rep.coverage["initial_walks_over_20000_draws"] = rep.coverage.get("initial_walks_over_20000_draws", 0) + 1
                except Exception as ex:
                    if isinstance(ex, (ValueError, IndexError)) and _no_candidates_left(b, seg, seed):
                        # the random walk inside initial() ran into a state from which no update is proposed and chose from the
                        # empty list: initial() then yields no value at all, and C18 speaks about the values it yields.  Counted,
                        # not judged (found by the thorough tier on the unchanged tree: 2x3 board, exactly 3 blocks of 2..3 cells)
                        rep.coverage["initial_dead_ends"] = rep.coverage.get("initial_dead_ends", 0) + 1
                    else:
                        viol("initial-exception", "%s: %s" % (type(ex).__name__, ex), dict(board=[h, w], cfg=cfg["args"]))
                finally:
                    _unpatch(seg, saved)
            for P in feasible:
                cur = [list(blk) for blk in P]
                rnd.shuffle(cur)
                for blk in cur:
                    rnd.shuffle(blk)
                snap = copy.deepcopy(cur)
                saved = _patch_random(seg, ScriptedRandom(rnd.randrange(1 << 30)))
                try:
                    cands = b.candidates(cur)
                    if cur != snap:
                        viol("candidates-mutate-input", "candidates() changed its argument", dict(board=[h, w], cfg=cfg["args"], cur=snap))
                    for u in cands:
                        n_updates += 1
                        nxt = b.copy_with_update(cur, u)
                        if cur != snap:
                            viol("update-mutates-input", "copy_with_update changed the value it was applied to",
                                 dict(board=[h, w], cfg=cfg["args"], cur=snap, update=u))
                            cur = copy.deepcopy(snap)
                        e = partition_ok(h, w, nxt) or bounds_ok(cfg, nxt)
                        if e:
                            kind = "update-invalid:" + ("bounds" if "outside" in e else ("connectivity" if "connected" in e else "partition"))
                            viol(kind, e, dict(board=[h, w], cfg=cfg["args"], cur=snap, update=u, result=nxt))
                        # history: a further update applied to the NEW value must leave both the old and
                        # the new value as they were (sharing structure is fine, mutating it is not)
                        if n_updates % 7 == 0:
                            snap2 = copy.deepcopy(nxt)
                            c2 = b.candidates(nxt)
                            if c2:
                                b.copy_with_update(nxt, c2[rnd.randrange(len(c2))])
                            if cur != snap or nxt != snap2:
                                viol("later-update-mutates-earlier-value", "a second update changed a previously produced value",
                                     dict(board=[h, w], cfg=cfg["args"], cur=snap, update=u))
                                cur = copy.deepcopy(snap)
                except Exception as ex:
                    viol("exception", "%s: %s" % (type(ex).__name__, ex), dict(board=[h, w], cfg=cfg["args"], cur=snap))
                finally:
                    _unpatch(seg, saved)
                rep.case(("seg", h, w, json.dumps(cfg["args"]), json.dumps(snap)), nontrivial=len(P) > 0,
                         sample=dict(board=[h, w], cfg=cfg["args"], value=snap, updates=len(cands)) if n_updates < 50 else None)
        # split_block for every connected block of the board and every pair of seeds
        blocks = set()
        for P in parts:
            for blk in P:
                if len(blk) >= 2:
                    blocks.add(tuple(sorted(blk)))
        for blk in sorted(blocks):
            blk = list(blk)
            for a in range(len(blk)):
                for c in range(len(blk)):
                    if a == c:
                        continue
                    saved = _patch_random(seg, ScriptedRandom(0, [a, c]))
                    try:
                        A, Bk = seg.split_block(list(blk))
                        ok = sorted(A + Bk) == sorted(blk) and A and Bk and _connected(A) and _connected(Bk)
                        if not ok:
                            viol("split-invalid", "split_block result is not two connected non-empty parts of the block",
                                 dict(block=blk, seeds=[a, c], result=[A, Bk]))
                    except Exception as ex:
                        viol("split-exception", "%s: %s" % (type(ex).__name__, ex), dict(block=blk, seeds=[a, c]))
                    finally:
                        _unpatch(seg, saved)
                    rep.evaluations += 1
    # random walks on larger boards
    # square and (strongly) non-square boards: width >= height + 2 and height >= width + 2 included
    walks = [(4, 4, 200), (5, 5, 300), (2, 6, 150), (6, 2, 150), (3, 7, 150), (7, 3, 150)] if tier == "quick" else \
        [(4, 4, 2000), (5, 5, 2000), (6, 6, 2000), (3, 7, 1000), (7, 3, 1000), (2, 9, 1000), (9, 2, 1000), (4, 8, 1000)]
    for (h, w, steps) in walks:
        for cfgargs in (dict(), dict(min_block_size=2, max_block_size=5), dict(min_num_blocks=3, max_num_blocks=6)):
            cfg = cfg_of(h, w, cfgargs.get("min_num_blocks"), cfgargs.get("max_num_blocks"), cfgargs.get("min_block_size"), cfgargs.get("max_block_size"))
            saved = _patch_random(seg, ScriptedRandom(rnd.randrange(1 << 30)))
            try:
                b = seg.SegmentationBuilder2D(h, w, **cfg["args"])
                cur = b.initial()
                for i in range(steps):
                    e = partition_ok(h, w, cur) or bounds_ok(cfg, cur)
                    if e:
                        viol("walk-invalid", e, dict(board=[h, w], cfg=cfg["args"], step=i, value=cur))
                        break
                    cands = b.candidates(cur)
                    if not cands:
                        break
                    snap = copy.deepcopy(cur)
                    if i % 5 == 0:
                        # every update proposed from this state, not only the one the walk follows
                        for u in cands:
                            alt = b.copy_with_update(cur, u)
                            e = partition_ok(h, w, alt) or bounds_ok(cfg, alt)
                            rep.evaluations += 1
                            if e:
                                kind = "update-invalid:" + ("bounds" if "outside" in e else ("connectivity" if "connected" in e else "partition"))
                                viol(kind, e + " (walk)", dict(board=[h, w], cfg=cfg["args"], cur=snap, update=u, result=alt))
                                break
                    nxt = b.copy_with_update(cur, rnd.choice(cands))
                    if cur != snap:
                        viol("update-mutates-input", "copy_with_update changed the value it was applied to (walk)", dict(board=[h, w], step=i))
                        break
                    cur = nxt
                    rep.evaluations += 1
            except Exception as ex:
                viol("walk-exception", "%s: %s" % (type(ex).__name__, ex), dict(board=[h, w], cfg=cfg["args"]))
            finally:
                _unpatch(seg, saved)
    # LARGE blocks (an implementation may treat them differently: iterative instead of recursive walks beyond some size):
    # hand-made partitions of a 16x16 board whose big block (> 200 cells) has articulation cells of several kinds --
    # a corner where the two parts touch only diagonally, a straight tail -- and the one-block board; every proposed update
    # is judged
    def big_cases():
        H = W = 16
        full = [(y, x) for y in range(H) for x in range(W)]
        big = [(y, x) for y in range(13) for x in range(W)] + [(13, 3), (13, 5), (14, 5), (14, 4)]
        single = [(13, 4)]
        rest = [c for c in full if c not in big and c not in single]
        yield "corner", [big, single, rest]
        big2 = [(y, x) for y in range(13) for x in range(W)] + [(13, 8), (14, 8), (15, 8)]
        left = [(y, x) for y in (13, 14, 15) for x in range(0, 8)]
        right = [(y, x) for y in (13, 14, 15) for x in range(9, W)]
        yield "tail", [big2, left, right]
        yield "one-block", [full]
        yield "halves", [[c for c in full if c[1] < 3], [c for c in full if c[1] >= 3]]

    def small_cases():
        # a cut cell LISTED FIRST in a block all of whose cells have at least two neighbours inside the block (two 2x2 squares
        # joined through one cell), in every rotation of the listing; 4x4 board
        A = [(0, 0), (0, 1), (1, 0), (1, 1)]
        Bq = [(2, 2), (2, 3), (3, 2), (3, 3)]
        c = (1, 2)
        rest1, rest2 = [(0, 2), (0, 3), (1, 3)], [(2, 0), (2, 1), (3, 0), (3, 1)]
        blk = [c] + A + Bq
        for r in range(len(blk)):
            yield "cut-cell-listed-at-%d" % ((len(blk) - r) % len(blk)), 4, 4, [blk[r:] + blk[:r], list(rest1), list(rest2)]

    all_cases = [(lab, 16, 16, bl) for lab, bl in big_cases()] + list(small_cases())
    for label, H, W, blocks in all_cases:
        saved = _patch_random(seg, ScriptedRandom(seed + 5))
        try:
            b = seg.SegmentationBuilder2D(H, W, initial_blocks=[list(bl) for bl in blocks], allow_unmet_constraints_first=True)
            cur = b.initial()
            e = partition_ok(H, W, cur)
            if e:
                raise AssertionError("hand-made partition is not valid: " + e)
            snap = copy.deepcopy(cur)
            for u in b.candidates(cur):
                alt = b.copy_with_update(cur, u)
                e = partition_ok(H, W, alt)
                rep.evaluations += 1
                if e:
                    viol("update-invalid:" + ("connectivity" if "connected" in e else "partition"), e + " (hand-made %dx%d board: %s)" % (H, W, label),
                         dict(board=[H, W], case=label, update=u))
                    break
            if cur != snap:
                viol("update-mutates-input", "candidates / copy_with_update changed the value (hand-made board)", dict(board=[H, W], case=label))
        except Exception as ex:
            viol("walk-exception", "%s: %s (hand-made %dx%d board, %s)" % (type(ex).__name__, ex, H, W, label), dict(board=[H, W], case=label))
        finally:
            _unpatch(seg, saved)
    rep.coverage["updates_applied"] = n_updates


# ------------------------------------------------------------------------------------------- C19
FORBIDDEN_MODULES = {"random", "time", "secrets", "uuid", "datetime"}


def static_effect_scan(rep):
    """G3a: inside cspuz/generator every random draw goes through srandom (which alone may import
    Python's random); no reference to time / os.urandom / id() / hash()."""
    root = os.path.join(repo_root(), "cspuz", "generator")
    n = 0
    for fn in sorted(os.listdir(root)):
        if not fn.endswith(".py"):
            continue
        src = open(os.path.join(root, fn)).read()
        tree = ast.parse(src)
        for node in ast.walk(tree):
            bad = None
            if isinstance(node, ast.Import):
                for a in node.names:
                    if a.name.split(".")[0] in FORBIDDEN_MODULES and fn != "srandom.py":
                        bad = "import %s" % a.name
            elif isinstance(node, ast.ImportFrom):
                if node.module and node.module.split(".")[0] in FORBIDDEN_MODULES and fn != "srandom.py":
                    bad = "from %s import ..." % node.module
            elif isinstance(node, ast.Call) and isinstance(node.func, ast.Name) and node.func.id in ("id", "hash"):
                bad = "%s() call" % node.func.id
            elif isinstance(node, ast.Attribute) and isinstance(node.value, ast.Name) and node.value.id == "os" and node.attr == "urandom":
                bad = "os.urandom"
            n += 1
            if bad:
                from pyvc.runner import write_replay
                payload = dict(engine="static-scan", property="C19", file="cspuz/generator/" + fn, line=node.lineno, what=bad)
                rp = write_replay("C19", "nondeterministic_source_" + fn, payload)
                rep.violation("scan:%s:%s" % (fn, bad.split()[0] + "-" + bad.split()[-1]),
                              "cspuz/generator/%s:%d uses %s: draws bypass the deterministic PRNG" % (fn, node.lineno, bad), rp)
    rep.coverage["static_scan_nodes"] = n


def _symmetric(h, w, grid, default):
    return all((grid[y][x] != default) == (grid[h - 1 - y][w - 1 - x] != default) for y in range(h) for x in range(w))


def _adjacent_free(h, w, grid, default, offsets):
    for y in range(h):
        for x in range(w):
            if grid[y][x] == default:
                continue
            for dy, dx in offsets:
                y2, x2 = y + dy, x + dx
                if 0 <= y2 < h and 0 <= x2 < w and grid[y2][x2] != default:
                    return False
    return True


def run_c19_builders(rep, tier, seed):
    load_repo()
    from cspuz.generator import builder as B
    import cspuz.generator.srandom as srandom
    from pyvc.runner import write_replay
    rnd = random.Random(seed)

    def viol(kind, detail, payload):
        payload = dict(engine="builders", property="C19", kind=kind, detail=detail, **payload)
        rp = write_replay("C19", kind, payload)
        rep.violation("builder:" + kind, detail + " | " + json.dumps(payload, default=str)[:300], rp)

    # Choice
    for choice, default in (([0, 1, 2], 0), (["a", "b"], "a"), ([5], 5)):
        c = B.Choice(choice, default)
        for cur in choice:
            cs = c.candidates(cur)
            rep.case(("choice", str(choice), str(cur)))
            if any(v == cur or v not in choice for v in cs) or sorted(map(str, cs)) != sorted(map(str, [v for v in choice if v != cur])):
                viol("choice-candidates", "Choice.candidates is not choice minus current", dict(choice=choice, cur=cur, got=cs))
    boards = [(1, 1), (1, 3), (2, 2), (2, 3)] + ([(3, 2), (3, 3), (1, 4)] if tier != "quick" else [])
    adj4 = [(-1, 0), (1, 0), (0, -1), (0, 1)]
    for (h, w) in boards:
        for choice, default in (([0, 1], 0), ([0, 1, 2], 0)):
            if len(choice) ** (h * w) > (600 if tier == "quick" else 20000):
                continue
            king = [(dy, dx) for dy in (-1, 0, 1) for dx in (-1, 0, 1) if (dy, dx) != (0, 0)]
            radius2 = [(dy, dx) for dy in range(-2, 3) for dx in range(-2, 3) if 0 < abs(dy) + abs(dx) <= 2]
            for symmetry in (False, True):
                # disallow_adjacent: off, the four sides, or a caller's own offset list (king moves; everything within distance 2)
                for disallow in (False, True, king, radius2):
                    adj4 = [(-1, 0), (1, 0), (0, -1), (0, 1)] if disallow is True else (disallow or [])
                    for use_move in (False, True):
                        ab = B.ArrayBuilder2D(h, w, choice, default, disallow_adjacent=(list(disallow) if isinstance(disallow, list) else disallow), symmetry=symmetry, use_move=use_move)
                        for flat in itertools.product(choice, repeat=h * w):
                            cur = [list(flat[y * w:(y + 1) * w]) for y in range(h)]
                            if symmetry and not _symmetric(h, w, cur, default):
                                continue
                            if disallow and not _adjacent_free(h, w, cur, default, adj4):
                                continue
                            snap = copy.deepcopy(cur)
                            srandom.use_deterministic_prng(True, rnd.randrange(1 << 30))
                            try:
                                cands = ab.candidates(cur)
                            finally:
                                srandom.use_deterministic_prng(False)
                            opts = dict(board=[h, w], choice=choice, symmetry=symmetry, disallow_adjacent=disallow, use_move=use_move)
                            present = {v for row in snap for v in row}
                            for u in cands:
                                is_move = len(u) in (2, 4) and use_move and all(v in present for (_, _, v) in u) and \
                                    sorted(str(snap[y][x]) for (y, x, _) in u) == sorted(str(v) for (_, _, v) in u) and len(u) > 1
                                nxt = ab.copy_with_update(cur, u)
                                if cur != snap:
                                    viol("array-mutates-previous", "copy_with_update modified the previous problem", dict(cur=snap, update=u, **opts))
                                    cur = copy.deepcopy(snap)
                                bad = [t for t in u if not (0 <= t[0] < h and 0 <= t[1] < w and t[2] in choice)]
                                if bad:
                                    viol("array-update-out-of-range", "update writes outside the board or outside the choice set", dict(cur=snap, update=u, **opts))
                                    continue
                                if symmetry and not _symmetric(h, w, nxt, default):
                                    viol("array-symmetry-broken", "non-default cells are no longer point symmetric", dict(cur=snap, update=u, result=nxt, **opts))
                                if disallow and not is_move and not _adjacent_free(h, w, nxt, default, adj4):
                                    viol("array-adjacency-broken", "a value-setting update puts two non-default cells next to each other", dict(cur=snap, update=u, result=nxt, **opts))
                                # history: a further update applied to the new problem must leave the earlier ones untouched
                                snap2 = copy.deepcopy(nxt)
                                srandom.use_deterministic_prng(True, 12345)
                                try:
                                    c2 = ab.candidates(nxt)
                                finally:
                                    srandom.use_deterministic_prng(False)
                                if c2:
                                    ab.copy_with_update(nxt, c2[len(c2) // 2])
                                if cur != snap or nxt != snap2:
                                    viol("array-later-update-mutates-earlier-problem", "a second update changed a previously produced problem", dict(cur=snap, update=u, **opts))
                                    cur = copy.deepcopy(snap)
                            rep.case(("array", json.dumps(opts), json.dumps(snap)), sample=dict(opts=opts, cur=snap, updates=len(cands)) if rnd.random() < 0.001 else None)
    # nested patterns: with_update touches exactly the addressed builder -- also when ONE builder object sits at several
    # positions of the pattern (each position is a variable of its own)
    c3 = B.Choice([0, 1, 2], 0)
    shared_ab = B.ArrayBuilder2D(2, 2, [0, 1], 0, disallow_adjacent=True)
    patterns = [
        ("distinct", [B.Choice([0, 1, 2], 0), (B.Choice(["x", "y"], "x"), 7, B.ArrayBuilder2D(1, 2, [0, 1], 0)), [B.Choice([3, 4], 3)]]),
        ("same-choice-twice", [c3, c3]),
        ("same-choice-list*3", [B.Choice([5, 6], 5)] * 3),
        ("same-array-builder-at-two-depths", (shared_ab, [shared_ab, c3], "fixed")),
    ]
    for pname, pat in patterns:
        initial, gen = B.build_neighbor_generator(pat)
        srandom.use_deterministic_prng(True, seed)
        try:
            seen = [initial]
            cur = initial
            for step in range(30 if tier == "quick" else 200):
                snaps = copy.deepcopy(seen)
                nbrs = list(gen(cur))
                if seen != snaps:
                    viol("nested-mutates-previous:" + pname, "a previously produced problem was mutated", dict(step=step, pattern=pname))
                    break
                for nb in nbrs:
                    diff = _builder_diffs(pat, cur, nb)
                    if diff is None or len(diff) != 1:
                        viol("nested-update-not-local:" + pname, "a neighbour differs from the current problem at %s builder positions (pattern %s)"
                             % ("other than" if diff is None else len(diff), pname), dict(cur=cur, neighbour=nb, pattern=pname))
                        continue
                    pos, bld, before, after = diff[0]
                    allowed = [bld.copy_with_update(before, u) for u in bld.candidates(before)] if not isinstance(bld, B.ArrayBuilder2D) else None
                    if allowed is not None and after not in allowed:
                        viol("nested-update-not-a-candidate:" + pname, "position %s changed to a value that is no candidate of its builder" % (pos,),
                             dict(cur=cur, neighbour=nb, pattern=pname))
                    if isinstance(bld, B.ArrayBuilder2D):
                        hh, ww = len(after), len(after[0])
                        offs = list(getattr(bld, "disallow_adjacent", []) or [])
                        if any(v not in bld.choice for r in after for v in r) or (offs and not _adjacent_free(hh, ww, after, bld.default, offs)):
                            viol("nested-array-update-breaks-adjacency:" + pname, "position %s: the updated board has two adjacent non-default cells or a foreign value" % (pos,),
                                 dict(cur=cur, neighbour=nb, pattern=pname))
                    rep.case(("nested", pname, json.dumps(cur, default=str), json.dumps(nb, default=str)))
                if not nbrs:
                    break
                cur = rnd.choice(nbrs)
                seen.append(cur)
        finally:
            srandom.use_deterministic_prng(False)


def _builder_diffs(pat, a, b, pos=()):
    """positions of the pattern's builders at which the problems a and b differ: [(pos, builder, sub_a, sub_b)], or None when
    they differ outside the builder positions / in shape"""
    from cspuz.generator import builder as B
    if isinstance(pat, B.Builder):
        return [] if a == b else [(pos, pat, a, b)]
    if isinstance(pat, (list, tuple)):
        if type(a) is not type(pat) or type(b) is not type(pat) or len(a) != len(pat) or len(b) != len(pat):
            return None
        out = []
        for i in range(len(pat)):
            d = _builder_diffs(pat[i], a[i], b[i], pos + (i,))
            if d is None:
                return None
            out += d
        return out
    return [] if (a == pat and b == pat) else None


def _diff_positions(a, b, pos=()):
    if isinstance(a, (list, tuple)) and isinstance(b, (list, tuple)) and len(a) == len(b) and not _is_grid(a):
        out = []
        for i, (x, y) in enumerate(zip(a, b)):
            out += _diff_positions(x, y, pos + (i,))
        return out
    return [] if a == b else [pos]


def _is_grid(v):
    return isinstance(v, list) and v and all(isinstance(r, list) and r and not isinstance(r[0], (list, tuple)) for r in v) and len(v) == 1 and len(v[0]) == 2


def run_c19_repro(rep, tier, seed):
    """G3b: same seed -> same candidate sequence and result, whatever Python's global random state"""
    load_repo()
    from cspuz.generator import builder as B, core
    import cspuz.generator.srandom as srandom
    from cspuz.generator.segmentation import SegmentationBuilder2D
    from pyvc.runner import write_replay
    rnd = random.Random(seed)
    patterns = {
        "array": lambda: B.ArrayBuilder2D(3, 3, [0, 1, 2], 0, symmetry=True),
        "array-move": lambda: B.ArrayBuilder2D(2, 3, [0, 1], 0, use_move=True),
        "nested": lambda: [B.Choice([0, 1, 2], 0), (B.ArrayBuilder2D(2, 2, [0, 1], 0, disallow_adjacent=True), B.Choice("ab", "a"))],
        "segmentation": lambda: SegmentationBuilder2D(3, 3, min_block_size=1, max_block_size=4),
        "segmentation-initial": lambda: (SegmentationBuilder2D(2, 4, min_num_blocks=2, max_block_size=3), B.Choice([0, 1], 0)),
    }
    # ONE builder object used for both runs of a pair (and for all pairs): blocks handed in by the caller that do not meet the
    # builder's own limits yet (initial() walks them into shape) -- the caller's blocks are the starting point of every run
    given = [[(y, x) for y in range(2) for x in range(4)]]
    shared_seg = SegmentationBuilder2D(2, 4, initial_blocks=given, max_block_size=3)
    shared_arr = B.ArrayBuilder2D(2, 3, [0, 1, 2], 0, initial=[[1, 0, 2], [0, 0, 1]], disallow_adjacent=True)
    patterns["segmentation-given-blocks (one builder object for all runs)"] = lambda: shared_seg
    patterns["array-given-initial (one builder object for all runs)"] = lambda: shared_arr
    given_snap = json.dumps(given)
    runs = 3 if tier == "quick" else 12
    for name, mk in patterns.items():
        for r in range(runs):
            s = rnd.randrange(1 << 31)
            traces = []
            for gseed in (1, 99991):
                random.seed(gseed)
                srandom.use_deterministic_prng(True, s)
                trace = []
                budget = [25]

                def solver(problem):
                    trace.append(json.dumps(problem, default=str))
                    budget[0] -= 1
                    h = hash(trace[-1]) if False else sum(map(ord, trace[-1]))
                    return (h % 3 != 0, h % 7)

                try:
                    res = core.generate_problem(solver, builder_pattern=mk(), max_steps=6,
                                                uniqueness=lambda a: a == 0, score=lambda a: a)
                except Exception as ex:
                    res = "exception %s: %s" % (type(ex).__name__, ex)
                finally:
                    srandom.use_deterministic_prng(False)
                traces.append((trace, json.dumps(res, default=str)))
            rep.case(("repro", name, s), sample=dict(pattern=name, seed=s, candidates=len(traces[0][0])) if r == 0 else None)
            if json.dumps(given) != given_snap:
                rp = write_replay("C19", "repro_given_blocks_changed", dict(engine="repro", property="C19", pattern=name, seed=s))
                rep.violation("repro:caller-blocks-changed", "generate_problem changed the blocks the caller handed to SegmentationBuilder2D(initial_blocks=...): %s" % json.dumps(given)[:200], rp)
                given[:] = json.loads(given_snap)
                given[:] = [[tuple(c) for c in blk] for blk in given]
            if traces[0] != traces[1]:
                payload = dict(engine="repro", property="C19", pattern=name, seed=s,
                               first_difference=next((i for i, (a, b) in enumerate(zip(traces[0][0], traces[1][0])) if a != b), None))
                rp = write_replay("C19", "repro_" + name, payload)
                rep.violation("repro:%s" % ("segmentation" if "segmentation" in name else "builders"),
                              "same deterministic seed, different global random state -> different candidate sequence (pattern %s, seed %d)" % (name, s), rp)


def run_c19_shuffle(rep, tier):
    """the map (j_1 .. j_{n-1}) -> permutation realised by shuffle is a bijection (n <= 6 / 7):
    together with the proved uniform draws this gives uniformity over the permutations"""
    load_repo()
    import cspuz.generator.deterministic_random as dr
    from pyvc.runner import write_replay
    nmax = 6 if tier == "quick" else 7
    real = dr.randint
    try:
        for n in range(0, nmax + 1):
            perms = set()
            count = 0
            for js in itertools.product(*[range(i + 1) for i in range(1, n)]):
                script = list(js)
                calls = []

                def fake(a, b):
                    calls.append((a, b))
                    return script.pop(0)

                dr.randint = fake
                seq = list(range(n))
                dr.shuffle(seq)
                count += 1
                perms.add(tuple(seq))
                if any(c != (0, i + 1) for i, c in enumerate(calls)) or sorted(seq) != list(range(n)):
                    rp = write_replay("C19", "shuffle_draws", dict(engine="shuffle", property="C19", n=n, draws=list(js), calls=calls, result=seq))
                    rep.violation("shuffle:draw-ranges", "shuffle of %d items drew from %s and produced %s" % (n, calls, seq), rp)
                    break
            rep.evaluations += count
            rep.distinct.add(("shuffle", n))
            import math
            if len(perms) != math.factorial(n) or count != math.factorial(n):
                rp = write_replay("C19", "shuffle_bijection", dict(engine="shuffle", property="C19", n=n, sequences=count, permutations=len(perms)))
                rep.violation("shuffle:not-a-bijection", "n=%d: %d draw sequences give %d distinct permutations (n! = %d)" % (n, count, len(perms), math.factorial(n)), rp)
    finally:
        dr.randint = real


CROSS_SCRIPT = r"""
import json, random, sys
sys.path.insert(0, sys.argv[1])
import cspuz
from cspuz.generator import builder as B, core
import cspuz.generator.srandom as srandom
seed = int(sys.argv[2])
random.seed(int(sys.argv[3]))
srandom.use_deterministic_prng(True, seed)
pats = {
  "str-sym": lambda: B.ArrayBuilder2D(3, 4, ["..", "^1", "v2", "<3", ">0"], "..", symmetry=True),
  "str-move": lambda: B.ArrayBuilder2D(2, 3, ["..", "aa", "bb"], "..", use_move=True, disallow_adjacent=True),
  "nested": lambda: [B.Choice(["x", "y", "z"], "x"), (B.ArrayBuilder2D(2, 2, ["a", "b", "c"], "a", symmetry=True), B.Choice([0, 1], 0))],
  "negints": lambda: B.ArrayBuilder2D(3, 3, [0, -1, -2, -7], 0, symmetry=True),
}
out = {}
for name, mk in pats.items():
    trace = []
    def solver(p):
        trace.append(json.dumps(p))
        h = sum(map(ord, trace[-1]))
        return (h % 3 != 0, h % 5)
    res = core.generate_problem(solver, builder_pattern=mk(), max_steps=5, uniqueness=lambda a: a == 0, score=lambda a: a)
    out[name] = [trace, json.dumps(res)]
print(json.dumps(out))
"""


def run_c19_cross_process(rep, tier, seed):
    """G3b across interpreter processes: same deterministic seed, different PYTHONHASHSEED and global random
    state -> identical candidate sequence and result (string-valued choice sets included)"""
    import subprocess
    import sys
    import tempfile
    from pyvc.runner import write_replay
    with tempfile.NamedTemporaryFile("w", suffix=".py", delete=False) as f:
        f.write(CROSS_SCRIPT)
        script = f.name
    try:
        outs = []
        envs = [("0", 1), ("1", 2), ("2024", 3)] + ([("77", 4), ("random", 5)] if tier != "quick" else [])
        for (hs, gs) in envs:
            env = dict(os.environ, PYTHONHASHSEED=hs)
            p = subprocess.run([sys.executable, script, repo_root(), str(seed % 1000 + 7), str(gs)], capture_output=True, text=True, env=env, timeout=300)
            if p.returncode != 0:
                rep.crashes.append("cross-process run failed: " + p.stderr[-400:])
                return
            outs.append(json.loads(p.stdout.strip().split("\n")[-1]))
            rep.evaluations += 1
        for name in outs[0]:
            rep.distinct.add(("cross", name))
            for i, o in enumerate(outs[1:], 1):
                if o[name] != outs[0][name]:
                    payload = dict(engine="repro-cross-process", property="C19", pattern=name, hashseeds=[envs[0][0], envs[i][0]])
                    rp = write_replay("C19", "repro_cross_" + name, payload)
                    rep.violation("repro:cross-process:%s" % name, "same deterministic seed but PYTHONHASHSEED %s vs %s give different candidates/results for pattern %s" % (envs[0][0], envs[i][0], name), rp)
                    break
    finally:
        os.unlink(script)
