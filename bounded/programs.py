"""Generator of constraint programs built through cspuz's PUBLIC API (operator overloads, then/cond,
alldifferent/count_true/fold_*, literals as operands) and the end-to-end checks of C01 / C02.
Oracle: brute force over all assignments with the reference semantics specs/den.py.
Bounded: never counted as proved."""
import itertools
import json
import random

from .common import load_repo
from specs import den


class Vocab:
    def __init__(self, solver, bools, ints):
        self.s = solver
        self.bools = bools
        self.ints = ints


def gen_int(rnd, d, V, lits=True):
    from cspuz import count_true, cond
    c = rnd.random()
    if d <= 0 or c < 0.25:
        if not lits or rnd.random() < 0.7:
            return rnd.choice(V.ints)
        return rnd.randint(-3, 3)
    k = rnd.randrange(8)
    if k == 0:
        e = gen_int(rnd, d - 1, V, lits=False)
        return -e
    if k in (1, 2):
        a, b = gen_int(rnd, d - 1, V), gen_int(rnd, d - 1, V)
        if isinstance(a, int) and isinstance(b, int):
            a = gen_int(rnd, d - 1, V, lits=False)
        return a + b if k == 1 else a - b
    if k == 3:
        c_ = gen_bool(rnd, d - 1, V, lits=False)
        return c_.cond(gen_int(rnd, d - 1, V), gen_int(rnd, d - 1, V))
    if k == 4:
        n = rnd.randrange(0, 4)
        return count_true([gen_bool(rnd, d - 1, V) for _ in range(n)])
    if k == 5:
        return cond(gen_bool(rnd, d - 1, V, lits=False), gen_int(rnd, d - 1, V), gen_int(rnd, d - 1, V))
    if k == 6:
        # nested iterables for count_true
        return count_true([gen_bool(rnd, d - 1, V)], (gen_bool(rnd, d - 1, V),), [[gen_bool(rnd, d - 1, V)]])
    return gen_bool(rnd, d - 1, V, lits=False).count_true()


def gen_bool(rnd, d, V, lits=True):
    from cspuz import fold_or, fold_and, alldifferent
    from cspuz.constraints import then
    c = rnd.random()
    if d <= 0 or c < 0.2:
        if not lits or rnd.random() < 0.75:
            return rnd.choice(V.bools)
        return rnd.random() < 0.5
    k = rnd.randrange(14)
    if k < 6:
        a, b = gen_int(rnd, d - 1, V), gen_int(rnd, d - 1, V)
        if isinstance(a, int) and isinstance(b, int):
            a = gen_int(rnd, d - 1, V, lits=False)
        return [a == b, a != b, a <= b, a < b, a >= b, a > b][k]
    if k == 6:
        return ~gen_bool(rnd, d - 1, V, lits=False)
    if k in (7, 8, 9, 10, 11):
        a, b = gen_bool(rnd, d - 1, V), gen_bool(rnd, d - 1, V)
        if isinstance(a, bool) and isinstance(b, bool):
            a = gen_bool(rnd, d - 1, V, lits=False)
        if k == 7:
            return a & b
        if k == 8:
            return a | b
        if k == 9:
            return a == b if not isinstance(a, bool) else b == a
        if k == 10:
            return a != b if not isinstance(a, bool) else b != a
        return a ^ b
    if k == 12:
        a = gen_bool(rnd, d - 1, V, lits=False)
        b = gen_bool(rnd, d - 1, V)
        return a.then(b) if rnd.random() < 0.5 else then(a, b)
    n = rnd.randrange(0, 4)
    which = rnd.randrange(3)
    if which == 0:
        return fold_or([gen_bool(rnd, d - 1, V) for _ in range(n)])
    if which == 1:
        return fold_and([gen_bool(rnd, d - 1, V) for _ in range(n)])
    return alldifferent([gen_int(rnd, d - 1, V) for _ in range(n)])


DOMAINS = [(0, 1), (-2, 1), (3, 3), (0, 3), (-1, 0), (-3, -3)]


def new_program(rnd, nb=None, ni=None):
    load_repo()
    from cspuz import Solver
    s = Solver()
    nb = rnd.randrange(1, 3) if nb is None else nb
    ni = rnd.randrange(1, 3) if ni is None else ni
    bools = [s.bool_var() for _ in range(nb)]
    ints = [s.int_var(*rnd.choice(DOMAINS)) for _ in range(ni)]
    return s, Vocab(s, bools, ints)


def describe(solver):
    """JSON-able rendering of a program (via the sugar printer-independent den structure)"""
    def r(e):
        if isinstance(e, (bool, int)) or e is None:
            return repr(e)
        if den.is_var(e):
            return ("b%d" if den.kind_of(e) == "bool" else "i%d") % e.id
        return "(%s %s)" % (e.op.name, " ".join(r(o) for o in e.operands))
    vs = ["b%d" % v.id if den.kind_of(v) == "bool" else "i%d[%d,%d]" % (v.id, v.lo, v.hi) for v in solver.variables]
    return dict(variables=vs, constraints=[r(c) for c in solver.constraints])


def one_operator_matrix():
    """complete matrix: every operator form x operand kinds (variable / literal) x arity 0..3"""
    load_repo()
    from cspuz import Solver, count_true, fold_or, fold_and, alldifferent, cond
    from cspuz.constraints import then
    out = []

    def prog(build, label):
        s = Solver()
        b = [s.bool_var() for _ in range(3)]
        i = [s.int_var(-1, 2), s.int_var(0, 2), s.int_var(1, 1)]
        r = build(s, b, i)
        for c in (r if isinstance(r, list) else [r]):
            s.ensure(c)
        out.append((label, s))

    ik = [("var", lambda i: i[0]), ("lit", lambda i: 1), ("var2", lambda i: i[1])]
    bk = [("var", lambda b: b[0]), ("lit", lambda b: True), ("lit0", lambda b: False), ("var2", lambda b: b[1])]
    import operator as op
    for name, f in [("eq", op.eq), ("ne", op.ne), ("le", op.le), ("lt", op.lt), ("ge", op.ge), ("gt", op.gt)]:
        for (ka, fa) in ik:
            for (kb, fb) in ik:
                if ka == "lit" and kb == "lit":
                    continue
                prog(lambda s, b, i, f=f, fa=fa, fb=fb: f(fa(i), fb(i)), "%s(%s,%s)" % (name, ka, kb))
    for name, f in [("add", op.add), ("sub", op.sub)]:
        for (ka, fa) in ik:
            for (kb, fb) in ik:
                if ka == "lit" and kb == "lit":
                    continue
                for t in (-1, 0, 2, 3):
                    prog(lambda s, b, i, f=f, fa=fa, fb=fb, t=t: f(fa(i), fb(i)) == t, "%s(%s,%s)==%d" % (name, ka, kb, t))
    for t in (-2, 1):
        prog(lambda s, b, i, t=t: -i[0] == t, "neg==%d" % t)
        prog(lambda s, b, i, t=t: (i[0] - i[1] - i[2]) == t, "sub3==%d" % t)
        prog(lambda s, b, i, t=t: (2 - i[0]) == t, "rsub==%d" % t)
        prog(lambda s, b, i, t=t: (i[0] + i[1] + 1 + i[2]) == t + 3, "add4==%d" % t)
    for name, f in [("and", op.and_), ("or", op.or_), ("xor", op.xor), ("iff", lambda a, b: a == b), ("bxor", lambda a, b: a != b)]:
        for (ka, fa) in bk:
            for (kb, fb) in bk:
                if ka.startswith("lit") and kb.startswith("lit"):
                    continue
                if ka.startswith("lit") and name in ("iff", "bxor"):
                    prog(lambda s, b, i, f=f, fa=fa, fb=fb: f(fb(b), fa(b)), "%s(%s,%s)" % (name, kb, ka))
                else:
                    prog(lambda s, b, i, f=f, fa=fa, fb=fb: f(fa(b), fb(b)), "%s(%s,%s)" % (name, ka, kb))
                prog(lambda s, b, i, f=f, fa=fa, fb=fb: ~(f(fb(b), fa(b)) if ka.startswith("lit") and name in ("iff", "bxor") else f(fa(b), fb(b))), "not %s(%s,%s)" % (name, ka, kb))
    for (kb_, fb) in bk:
        prog(lambda s, b, i, fb=fb: b[2].then(fb(b)), "then(var,%s)" % kb_)
        prog(lambda s, b, i, fb=fb: then(b[2], fb(b)), "then_fn(var,%s)" % kb_)
        prog(lambda s, b, i, fb=fb: ~b[2].then(fb(b)), "not then(var,%s)" % kb_)
    for (ka, fa) in ik:
        for (kb2, fb2) in ik:
            for t in (0, 1, 2):
                prog(lambda s, b, i, fa=fa, fb2=fb2, t=t: b[0].cond(fa(i), fb2(i)) == t, "cond(%s,%s)==%d" % (ka, kb2, t))
                prog(lambda s, b, i, fa=fa, fb2=fb2, t=t: cond(b[0], fa(i), fb2(i)) == t, "cond_fn(%s,%s)==%d" % (ka, kb2, t))
    items_b = [lambda b: b[0], lambda b: b[1], lambda b: True, lambda b: False, lambda b: ~b[2]]
    for n in range(0, 4):
        for combo in itertools.product(range(len(items_b)), repeat=n):
            if n == 3 and len(set(combo)) < 2:
                continue
            mk = lambda b, combo=combo: [items_b[k](b) for k in combo]
            prog(lambda s, b, i, mk=mk: fold_or(mk(b)), "fold_or%s" % (combo,))
            prog(lambda s, b, i, mk=mk: fold_and(mk(b)), "fold_and%s" % (combo,))
            prog(lambda s, b, i, mk=mk: ~fold_or(mk(b)), "not fold_or%s" % (combo,))
            prog(lambda s, b, i, mk=mk: ~fold_and(mk(b)), "not fold_and%s" % (combo,))
            for t in range(0, n + 1):
                prog(lambda s, b, i, mk=mk, t=t: count_true(mk(b)) == t, "count_true%s==%d" % (combo, t))
            prog(lambda s, b, i, mk=mk, n=n: i[0] == count_true(mk(b)), "var==count_true%s" % (combo,))
    items_i = [lambda i: i[0], lambda i: i[1], lambda i: 1, lambda i: 2, lambda i: i[2]]
    for n in range(0, 4):
        for combo in itertools.product(range(len(items_i)), repeat=n):
            mk = lambda i, combo=combo: [items_i[k](i) for k in combo]
            prog(lambda s, b, i, mk=mk: alldifferent(mk(i)), "alldifferent%s" % (combo,))
            prog(lambda s, b, i, mk=mk: ~alldifferent(mk(i)), "not alldifferent%s" % (combo,))
    # literals posted directly
    prog(lambda s, b, i: [True, b[0]], "ensure(True)")
    prog(lambda s, b, i: [False], "ensure(False)")
    prog(lambda s, b, i: [], "no constraint")
    return out


class Timeout(Exception):
    pass


class time_limit:
    """a real solver call that does not come back within the limit is reported (kind `timeout`)"""

    def __init__(self, secs=10):
        self.secs = secs

    def _raise(self, *a):
        raise Timeout("no result after %d s" % self.secs)

    def __enter__(self):
        import signal
        self.old = signal.signal(signal.SIGALRM, self._raise)
        signal.alarm(self.secs)

    def __exit__(self, *a):
        import signal
        signal.alarm(0)
        signal.signal(signal.SIGALRM, self.old)
        return False


def check_find_answer(solver, backend=None):
    """returns None or a dict describing the failure"""
    sols = den.brute_solutions(solver.variables, solver.constraints)
    if sols is None:
        return None
    for v in solver.variables:
        v.sol = None
    try:
        with time_limit():
            r = solver.find_answer(backend) if backend is not None else solver.find_answer()
    except Timeout as e:
        return dict(kind="timeout", detail=str(e), expected_sat=bool(sols))
    except Exception as e:
        return dict(kind="exception:%s" % type(e).__name__, detail="%s: %s" % (type(e).__name__, str(e)[:200]), expected_sat=bool(sols))
    if r is not True and r is not False:
        return dict(kind="result-type", detail="find_answer returned %r" % (r,))
    if r != bool(sols):
        return dict(kind="sat-mismatch", detail="find_answer says %s but %d satisfying assignments exist" % (r, len(sols)),
                    witness=sols[0] if sols else None)
    if r:
        asg = {}
        for v in solver.variables:
            asg[v.id] = v.sol
            want = bool if den.kind_of(v) == "bool" else int
            if type(v.sol) is not want:
                return dict(kind="sol-type", detail="variable %d has sol %r" % (v.id, v.sol))
        if asg not in sols:
            return dict(kind="sol-not-a-model", detail="the values left in sol %s do not satisfy the constraints / bounds" % asg)
    return None


def expected_common(solver, keys):
    sols = den.brute_solutions(solver.variables, solver.constraints)
    if sols is None:
        return None, None
    if not sols:
        return False, {}
    out = {}
    for v in solver.variables:
        if keys[v.id]:
            vals = {s[v.id] for s in sols}
            out[v.id] = next(iter(vals)) if len(vals) == 1 else None
    return True, out


def check_solve(solver, keys, backend=None):
    import warnings
    exp_sat, exp = expected_common(solver, keys)
    if exp_sat is None:
        return None
    solver.is_answer_key = list(keys)
    for v in solver.variables:
        v.sol = None
    try:
        with warnings.catch_warnings():
            warnings.simplefilter("ignore")
            with time_limit():
                r = solver.solve(backend) if backend is not None else solver.solve()
    except Timeout as e:
        return dict(kind="timeout", detail=str(e), expected_sat=exp_sat)
    except Exception as e:
        return dict(kind="exception:%s" % type(e).__name__, detail="%s: %s" % (type(e).__name__, str(e)[:200]), expected_sat=exp_sat)
    if r is not True and r is not False:
        return dict(kind="result-type", detail="solve returned %r" % (r,))
    if r != exp_sat:
        return dict(kind="sat-mismatch", detail="solve says %s, expected %s" % (r, exp_sat))
    if r:
        bad = []
        for v in solver.variables:
            if keys[v.id]:
                want = exp[v.id]
                if v.sol != want or (want is not None and type(v.sol) is not type(want)):
                    bad.append((v.id, v.sol, want))
        if bad:
            return dict(kind="decided-facts", detail="(variable, reported, common value or None): %s" % bad[:5])
    return None


# ------------------------------------------------------------------------------------------------
def classify_program(solver):
    feats = set()

    def walk(e):
        if isinstance(e, (bool, int)) or e is None:
            return
        op = e.op.name
        if op in ("BOOL_CONSTANT", "INT_CONSTANT"):
            feats.add("constant-node")
        if op == "ALLDIFF":
            nonlit = [o for o in e.operands if not isinstance(o, int)]
            if len(e.operands) < 2 or not nonlit:
                feats.add("alldiff-degenerate")
        if op in ("AND", "OR", "ADD") and len(e.operands) == 0:
            feats.add("empty-nary")
        if op != "VAR":
            for o in e.operands:
                walk(o)

    for c in solver.constraints:
        if isinstance(c, bool):
            feats.add("literal-constraint")
        walk(c)
    return "+".join(sorted(feats)) or "ordinary"


def build_random(seed, depth=3):
    rnd = random.Random(seed)
    s, V = new_program(rnd)
    for _ in range(rnd.randrange(1, 4)):
        s.ensure(gen_bool(rnd, rnd.randrange(1, depth + 1), V))
    return s


def _w_c01(args):
    kind, lo, hi, seed = args
    out = dict(n=0, fails=[], crash=None, samples=[])
    try:
        load_repo()
        if kind == "matrix":
            progs = one_operator_matrix()[lo:hi]
            for label, s in progs:
                out["n"] += 1
                f = check_find_answer(s)
                if f:
                    f.update(cls=classify_program(s), program=describe(s), label=label, how=dict(kind="matrix", label=label))
                    out["fails"].append(f)
        elif kind == "random":
            for k in range(lo, hi):
                s = build_random(seed * 1000003 + k)
                out["n"] += 1
                f = check_find_answer(s)
                if f:
                    f.update(cls=classify_program(s), program=describe(s), how=dict(kind="random", seed=seed * 1000003 + k))
                    out["fails"].append(f)
                elif len(out["samples"]) < 2:
                    out["samples"].append(describe(s))
        elif kind == "session":
            for k in range(lo, hi):
                rnd = random.Random(seed * 7919 + k)
                s, V = new_program(rnd)
                for step in range(rnd.randrange(2, 6)):
                    a = rnd.random()
                    if a < 0.3:
                        V.bools.append(s.bool_var())
                    elif a < 0.5:
                        V.ints.append(s.int_var(*rnd.choice(DOMAINS)))
                    s.ensure(gen_bool(rnd, 2, V))
                    out["n"] += 1
                    f = check_find_answer(s)
                    if f:
                        f.update(cls=classify_program(s), program=describe(s), how=dict(kind="session", seed=seed * 7919 + k, step=step))
                        out["fails"].append(f)
                        break
    except Exception:
        import traceback
        out["crash"] = traceback.format_exc()[-1500:]
    return out


def run_c01(rep, tier, seed, nproc=16):
    from concurrent.futures import ProcessPoolExecutor
    from pyvc.runner import write_replay
    load_repo()
    nm = len(one_operator_matrix())
    tasks = [("matrix", i, min(i + 100, nm), seed) for i in range(0, nm, 100)]
    nr = 400 if tier == "quick" else 6000
    ns = 60 if tier == "quick" else 600
    tasks += [("random", i, min(i + 50, nr), seed) for i in range(0, nr, 50)]
    tasks += [("session", i, min(i + 20, ns), seed) for i in range(0, ns, 20)]
    seen = set()
    with ProcessPoolExecutor(nproc) as ex:
        for r in ex.map(_w_c01, tasks):
            rep.evaluations += r["n"]
            if r["crash"]:
                rep.crashes.append(r["crash"])
            for s in r["samples"]:
                if len(rep.samples) < 6:
                    rep.samples.append(s)
            for f in r["fails"]:
                sig = "e2e:find_answer:%s:%s" % (f["kind"], f["cls"])
                if sig in seen:
                    continue
                seen.add(sig)
                payload = dict(engine="programs", property="C01", **{k: v for k, v in f.items()})
                rp = write_replay("C01", "find_answer_%s_%s" % (f["kind"], f["cls"]), payload)
                rep.violation(sig, "%s | program %s" % (f["detail"], json.dumps(f["program"])[:400]), rp)
    rep.coverage["matrix_programs"] = nm
    rep.distinct.update(("c01", i) for i in range(rep.evaluations))


def replay_c01(payload):
    load_repo()
    how = payload["how"]
    if how["kind"] == "matrix":
        s = dict(one_operator_matrix())[how["label"]]
    elif how["kind"] == "random":
        s = build_random(how["seed"])
    else:
        rnd = random.Random(how["seed"])
        s, V = new_program(rnd)
        for step in range(how["step"] + 1):
            a = rnd.random()
            if a < 0.3:
                V.bools.append(s.bool_var())
            elif a < 0.5:
                V.ints.append(s.int_var(*rnd.choice(DOMAINS)))
            s.ensure(gen_bool(rnd, 2, V))
        # note: the session's number of steps was drawn before the loop
    f = check_find_answer(s)
    print("replay:", json.dumps(describe(s))[:500], "->", f or "agrees with brute force")
    return 1 if f else 0
