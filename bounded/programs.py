"""Generator of constraint programs built through cspuz's PUBLIC API (operator overloads, then/cond,
alldifferent/count_true/fold_*, literals as operands) and the end-to-end checks of C01 / C02.
Oracle: brute force over all assignments with the reference semantics specs/den.py.
Bounded: never counted as proved."""
import itertools
import json
import random

from .common import load_repo
from specs import den


class Vocab:
    def __init__(self, solver, bools, ints):
        self.s = solver
        self.bools = bools
        self.ints = ints


# Abstract terms (tuples) are generated first; `build` turns them into cspuz expressions through the
# PUBLIC API, `meaning` evaluates them independently (the intended mathematical meaning).  The oracle
# therefore also covers the constructors (operator overloads, then/cond, count_true, fold_*, alldifferent).
CMPS = ["eq", "ne", "le", "lt", "ge", "gt"]


def gen_int(rnd, d, V, lits=True):
    c = rnd.random()
    if d <= 0 or c < 0.25:
        if not lits or rnd.random() < 0.7:
            return ("ivar", rnd.randrange(len(V.ints)))
        return ("ilit", rnd.randint(-3, 3) if rnd.random() < 0.65 else rnd.choice(WIDE_LITS))
    k = rnd.randrange(8)
    if k == 0:
        return ("neg", gen_int(rnd, d - 1, V, lits=False))
    if k in (1, 2):
        a, b = gen_int(rnd, d - 1, V), gen_int(rnd, d - 1, V)
        if a[0] == "ilit" and b[0] == "ilit":
            a = gen_int(rnd, d - 1, V, lits=False)
        return ("add" if k == 1 else "sub", a, b)
    if k == 3:
        return ("cond_m", gen_bool(rnd, d - 1, V, lits=False), gen_int(rnd, d - 1, V), gen_int(rnd, d - 1, V))
    if k == 4:
        return ("count_true", [gen_bool(rnd, d - 1, V) for _ in range(rnd.randrange(0, 4))], "flat")
    if k == 5:
        return ("cond_f", gen_bool(rnd, d - 1, V, lits=False), gen_int(rnd, d - 1, V), gen_int(rnd, d - 1, V))
    if k == 6:
        return ("count_true", [gen_bool(rnd, d - 1, V) for _ in range(3)], "nested")
    return ("bcount", gen_bool(rnd, d - 1, V, lits=False))


def gen_bool(rnd, d, V, lits=True):
    c = rnd.random()
    if d <= 0 or c < 0.2:
        if not lits or rnd.random() < 0.75:
            return ("bvar", rnd.randrange(len(V.bools)))
        return ("blit", rnd.random() < 0.5)
    k = rnd.randrange(14)
    if k < 6:
        a, b = gen_int(rnd, d - 1, V), gen_int(rnd, d - 1, V)
        if a[0] == "ilit" and b[0] == "ilit":
            a = gen_int(rnd, d - 1, V, lits=False)
        return ("cmp", CMPS[k], a, b)
    if k == 6:
        return ("not", gen_bool(rnd, d - 1, V, lits=False))
    if k in (7, 8, 9, 10, 11):
        a, b = gen_bool(rnd, d - 1, V), gen_bool(rnd, d - 1, V)
        if a[0] == "blit" and b[0] == "blit":
            a = gen_bool(rnd, d - 1, V, lits=False)
        return (["and", "or", "iff", "bne", "xor"][k - 7], a, b)
    if k == 12:
        return ("then_m" if rnd.random() < 0.5 else "then_f", gen_bool(rnd, d - 1, V, lits=False), gen_bool(rnd, d - 1, V))
    n = rnd.randrange(0, 4)
    which = rnd.randrange(3)
    if which == 0:
        return ("fold_or", [gen_bool(rnd, d - 1, V) for _ in range(n)])
    if which == 1:
        return ("fold_and", [gen_bool(rnd, d - 1, V) for _ in range(n)])
    return ("alldiff", [gen_int(rnd, d - 1, V) for _ in range(n)])


def build(t, V):
    """abstract term -> cspuz expression (or Python literal) through the public API"""
    import operator as op
    from cspuz import count_true, fold_or, fold_and, alldifferent, cond
    from cspuz.constraints import then
    k = t[0]
    B = lambda x: build(x, V)
    if k == "bvar":
        return V.bools[t[1]]
    if k == "ivar":
        return V.ints[t[1]]
    if k in ("blit", "ilit"):
        return t[1]
    if k == "neg":
        return -B(t[1])
    if k == "add":
        return B(t[1]) + B(t[2])
    if k == "sub":
        return B(t[1]) - B(t[2])
    if k == "cmp":
        return {"eq": op.eq, "ne": op.ne, "le": op.le, "lt": op.lt, "ge": op.ge, "gt": op.gt}[t[1]](B(t[2]), B(t[3]))
    if k == "not":
        return ~B(t[1])
    if k == "and":
        return B(t[1]) & B(t[2])
    if k == "or":
        return B(t[1]) | B(t[2])
    if k == "xor":
        return B(t[1]) ^ B(t[2])
    if k in ("iff", "bne"):
        a, b = B(t[1]), B(t[2])
        if isinstance(a, bool):      # a Python bool on the left: Python dispatches to the reflected method
            a, b = b, a
        return (a == b) if k == "iff" else (a != b)
    if k == "then_m":
        return B(t[1]).then(B(t[2]))
    if k == "then_f":
        return then(B(t[1]), B(t[2]))
    if k == "cond_m":
        return B(t[1]).cond(B(t[2]), B(t[3]))
    if k == "cond_f":
        return cond(B(t[1]), B(t[2]), B(t[3]))
    if k == "bcount":
        return B(t[1]).count_true()
    if k == "count_true":
        items = [B(x) for x in t[1]]
        if t[2] == "nested" and len(items) == 3:
            return count_true([items[0]], (items[1],), [[items[2]]])
        return count_true(items)
    if k == "fold_or":
        return fold_or([B(x) for x in t[1]])
    if k == "fold_and":
        return fold_and([B(x) for x in t[1]])
    if k == "alldiff":
        return alldifferent([B(x) for x in t[1]])
    raise ValueError(k)


def meaning(t, V, asg):
    """the intended value of an abstract term under {variable id: value}"""
    k = t[0]
    M = lambda x: meaning(x, V, asg)
    if k == "bvar":
        return asg[V.bools[t[1]].id]
    if k == "ivar":
        return asg[V.ints[t[1]].id]
    if k in ("blit", "ilit"):
        return t[1]
    if k == "neg":
        return -M(t[1])
    if k == "add":
        return M(t[1]) + M(t[2])
    if k == "sub":
        return M(t[1]) - M(t[2])
    if k == "cmp":
        a, b = M(t[2]), M(t[3])
        return {"eq": a == b, "ne": a != b, "le": a <= b, "lt": a < b, "ge": a >= b, "gt": a > b}[t[1]]
    if k == "not":
        return not M(t[1])
    if k == "and":
        return M(t[1]) and M(t[2])
    if k == "or":
        return M(t[1]) or M(t[2])
    if k in ("xor", "bne"):
        return M(t[1]) != M(t[2])
    if k == "iff":
        return M(t[1]) == M(t[2])
    if k in ("then_m", "then_f"):
        return (not M(t[1])) or M(t[2])
    if k in ("cond_m", "cond_f"):
        return M(t[2]) if M(t[1]) else M(t[3])
    if k == "bcount":
        return 1 if M(t[1]) else 0
    if k == "count_true":
        return sum(1 for x in t[1] if M(x))
    if k == "fold_or":
        return any(M(x) for x in t[1])
    if k == "fold_and":
        return all(M(x) for x in t[1])
    if k == "alldiff":
        vs = [M(x) for x in t[1]]
        return len(set(vs)) == len(vs)
    raise ValueError(k)


def intended_solutions(solver, V, terms, cap=200000):
    gen = den.all_assignments(solver.variables, cap)
    if gen is None:
        return None
    return [a for a in gen if all(meaning(t, V, a) is True for t in terms)]


DOMAINS = [(0, 1), (-2, 1), (3, 3), (0, 3), (-1, 0), (-3, -3), (255, 258), (-19, -16), (1000, 1001), (-70001, -70000), (2 ** 40, 2 ** 40 + 1)]
WIDE_LITS = [-70000, -50, -18, -17, -16, 15, 16, 17, 255, 256, 257, 258, 300, 1000, 1001, 2 ** 40]


def new_program(rnd, nb=None, ni=None):
    load_repo()
    from cspuz import Solver
    s = Solver()
    nb = rnd.randrange(1, 3) if nb is None else nb
    ni = rnd.randrange(1, 3) if ni is None else ni
    bools = [s.bool_var() for _ in range(nb)]
    ints = [s.int_var(*rnd.choice(DOMAINS)) for _ in range(ni)]
    return s, Vocab(s, bools, ints)


def describe(solver):
    """JSON-able rendering of a program (via the sugar printer-independent den structure)"""
    def r(e):
        if isinstance(e, (bool, int)) or e is None:
            return repr(e)
        if den.is_var(e):
            return ("b%d" if den.kind_of(e) == "bool" else "i%d") % e.id
        return "(%s %s)" % (e.op.name, " ".join(r(o) for o in e.operands))
    vs = ["b%d" % v.id if den.kind_of(v) == "bool" else "i%d[%d,%d]" % (v.id, v.lo, v.hi) for v in solver.variables]
    return dict(variables=vs, constraints=[r(c) for c in solver.constraints])


def one_operator_matrix():
    """complete matrix: every operator form x operand kinds (variable / literal) x arity 0..3,
    as abstract terms (label, list of constraint terms)"""
    out = []
    bv = lambda k: ("bvar", k)
    iv = lambda k: ("ivar", k)
    ik = [("var", iv(0)), ("lit", ("ilit", 1)), ("var2", iv(1))]
    bk = [("var", bv(0)), ("lit", ("blit", True)), ("lit0", ("blit", False)), ("var2", bv(1))]
    for name in CMPS:
        for (ka, a) in ik:
            for (kb, b) in ik:
                if ka == "lit" and kb == "lit":
                    continue
                out.append(("%s(%s,%s)" % (name, ka, kb), [("cmp", name, a, b)]))
    for name in ("add", "sub"):
        for (ka, a) in ik:
            for (kb, b) in ik:
                if ka == "lit" and kb == "lit":
                    continue
                for t in (-1, 0, 2, 3):
                    out.append(("%s(%s,%s)==%d" % (name, ka, kb, t), [("cmp", "eq", (name, a, b), ("ilit", t))]))
    for t in (-2, 1):
        out.append(("neg==%d" % t, [("cmp", "eq", ("neg", iv(0)), ("ilit", t))]))
        out.append(("sub3==%d" % t, [("cmp", "eq", ("sub", ("sub", iv(0), iv(1)), iv(2)), ("ilit", t))]))
        out.append(("rsub==%d" % t, [("cmp", "eq", ("sub", ("ilit", 2), iv(0)), ("ilit", t))]))
        out.append(("add4==%d" % t, [("cmp", "eq", ("add", ("add", ("add", iv(0), iv(1)), ("ilit", 1)), iv(2)), ("ilit", t + 3))]))
        out.append(("lit-first==%d" % t, [("cmp", "eq", ("ilit", t), ("add", ("ilit", 1), iv(0)))]))
    for name in ("and", "or", "xor", "iff", "bne"):
        for (ka, a) in bk:
            for (kb, b) in bk:
                if ka.startswith("lit") and kb.startswith("lit"):
                    continue
                out.append(("%s(%s,%s)" % (name, ka, kb), [(name, a, b)]))
                out.append(("not %s(%s,%s)" % (name, ka, kb), [("not", (name, a, b))]))
    for (kb_, b) in bk:
        for form in ("then_m", "then_f"):
            out.append(("%s(var,%s)" % (form, kb_), [(form, bv(2), b)]))
            out.append(("not %s(var,%s)" % (form, kb_), [("not", (form, bv(2), b))]))
    for (ka, a) in ik:
        for (kb2, b2) in ik:
            for t in (0, 1, 2):
                for form in ("cond_m", "cond_f"):
                    out.append(("%s(%s,%s)==%d" % (form, ka, kb2, t), [("cmp", "eq", (form, bv(0), a, b2), ("ilit", t))]))
    items_b = [bv(0), bv(1), ("blit", True), ("blit", False), ("not", bv(2))]
    for n in range(0, 4):
        for combo in itertools.product(range(len(items_b)), repeat=n):
            if n == 3 and len(set(combo)) < 2:
                continue
            items = [items_b[k] for k in combo]
            out.append(("fold_or%s" % (combo,), [("fold_or", items)]))
            out.append(("fold_and%s" % (combo,), [("fold_and", items)]))
            out.append(("not fold_or%s" % (combo,), [("not", ("fold_or", items))]))
            out.append(("not fold_and%s" % (combo,), [("not", ("fold_and", items))]))
            for t in range(0, n + 1):
                out.append(("count_true%s==%d" % (combo, t), [("cmp", "eq", ("count_true", items, "flat"), ("ilit", t))]))
            out.append(("var==count_true%s" % (combo,), [("cmp", "eq", iv(0), ("count_true", items, "nested" if n == 3 else "flat"))]))
    # two-level forms: a comparison whose operands are themselves sums / counts / conditionals or constant-valued counts, in
    # both orders (a back end that rewrites such nests -- cardinality constraints, flattened chains -- must keep the meaning)
    counts = [("count_true", [bv(0), bv(1)], "flat"), ("count_true", [bv(0), ("blit", True), bv(2)], "flat"), ("count_true", [], "flat"),
              ("count_true", [("blit", False), ("blit", False)], "flat"), ("count_true", [("not", bv(1))], "flat"),
              ("add", ("count_true", [bv(0), bv(1)], "flat"), ("ilit", 1)), ("cond_m", bv(0), ("ilit", 1), ("ilit", 0)),
              ("add", ("cond_m", bv(0), ("ilit", 1), ("ilit", 0)), ("cond_m", bv(1), ("ilit", 1), ("ilit", 0))),
              ("sub", ("neg", iv(0)), iv(1)), ("neg", ("sub", iv(0), iv(1)))]
    others = [iv(0)] + [("ilit", k) for k in (-1, 0, 1, 2, 3)]
    for name in CMPS:
        for ia, a in enumerate(counts):
            for ib, b in enumerate(counts + others):
                if ib < len(counts) and ib < ia:
                    continue
                out.append(("%s(nest%d,nest%d)" % (name, ia, ib), [("cmp", name, a, b), bv(0)]))
                out.append(("%s(nest%d,nest%d) swapped" % (name, ib, ia), [("cmp", name, b, a), ("not", bv(1))]))
    items_i = [iv(0), iv(1), ("ilit", 1), ("ilit", 2), iv(2)]
    for n in range(0, 4):
        for combo in itertools.product(range(len(items_i)), repeat=n):
            items = [items_i[k] for k in combo]
            out.append(("alldifferent%s" % (combo,), [("alldiff", items)]))
            out.append(("not alldifferent%s" % (combo,), [("not", ("alldiff", items))]))
    out.append(("ensure(True)", [("blit", True), bv(0)]))
    out.append(("ensure(False)", [("blit", False)]))
    out.append(("no constraint", []))
    out.append(("bcount", [("cmp", "eq", ("bcount", bv(1)), ("ilit", 1))]))
    for c in WIDE_LITS:
        out.append(("wide-const %d" % c, [("cmp", "eq", ("add", iv(0), ("ilit", c)), ("ilit", c + 1))]))
        out.append(("wide-const-ge %d" % c, [("cmp", "ge", ("add", iv(1), ("ilit", c)), ("ilit", c + 3))]))
        out.append(("wide-count %d" % c, [("cmp", "eq", ("add", ("count_true", [bv(0), ("blit", True)], "flat"), ("ilit", c)), ("ilit", c + 1))]))
    return out


def build_matrix_program(terms):
    load_repo()
    from cspuz import Solver
    s = Solver()
    b = [s.bool_var() for _ in range(3)]
    i = [s.int_var(-1, 2), s.int_var(0, 2), s.int_var(1, 1)]
    V = Vocab(s, b, i)
    s.verif_terms, s.verif_vocab = list(terms), V
    for t in terms:
        s.ensure(build(t, V))
    return s


class Timeout(Exception):
    pass


class time_limit:
    """a real solver call that does not come back within the limit is reported (kind `timeout`)"""

    def __init__(self, secs=10):
        self.secs = secs

    def _raise(self, *a):
        raise Timeout("no result after %d s" % self.secs)

    def __enter__(self):
        import signal
        self.old = signal.signal(signal.SIGALRM, self._raise)
        signal.alarm(self.secs)

    def __exit__(self, *a):
        import signal
        signal.alarm(0)
        signal.signal(signal.SIGALRM, self.old)
        return False


def check_find_answer(solver, backend=None):
    """returns None or a dict describing the failure"""
    try:
        sols = den.brute_solutions(solver.variables, solver.constraints)
    except (AssertionError, den.IllTyped, IndexError) as e:
        # a node posted by the library has no meaning in the reference semantics (e.g. the operand list of a native graph
        # operator does not have the layout its own header announces): whatever a back end makes of it is not "the posted
        # constraints"
        return dict(kind="posted-node-is-malformed", detail="a posted constraint node cannot be evaluated by the reference semantics: %s: %s" % (type(e).__name__, str(e)[:200]))
    if sols is None:
        return None
    if getattr(solver, "verif_terms", None) is not None:
        # independent oracle: the intended meaning of the program as written through the API
        intended = intended_solutions(solver, solver.verif_vocab, solver.verif_terms)
        if intended is not None and intended != sols:
            only = [a for a in intended if a not in sols][:1] or [a for a in sols if a not in intended][:1]
            return dict(kind="constructed-tree-differs-from-program", detail="the expression trees built through the API do not mean what the program says: e.g. assignment %s (%d intended solutions, %d solutions of the built trees)" % (only, len(intended), len(sols)))
    for v in solver.variables:
        v.sol = None
    try:
        with time_limit():
            r = solver.find_answer(backend) if backend is not None else solver.find_answer()
    except Timeout as e:
        return dict(kind="timeout", detail=str(e), expected_sat=bool(sols))
    except Exception as e:
        return dict(kind="exception:%s" % type(e).__name__, detail="%s: %s" % (type(e).__name__, str(e)[:200]), expected_sat=bool(sols))
    if r is not True and r is not False:
        return dict(kind="result-type", detail="find_answer returned %r" % (r,))
    if r != bool(sols):
        return dict(kind="sat-mismatch", detail="find_answer says %s but %d satisfying assignments exist" % (r, len(sols)),
                    witness=sols[0] if sols else None)
    if r:
        asg = {}
        for v in solver.variables:
            asg[v.id] = v.sol
            want = bool if den.kind_of(v) == "bool" else int
            if type(v.sol) is not want:
                return dict(kind="sol-type", detail="variable %d has sol %r" % (v.id, v.sol))
        if asg not in sols:
            return dict(kind="sol-not-a-model", detail="the values left in sol %s do not satisfy the constraints / bounds" % asg)
    return None


def expected_common(solver, keys):
    sols = den.brute_solutions(solver.variables, solver.constraints)
    if sols is None:
        return None, None
    if not sols:
        return False, {}
    out = {}
    for v in solver.variables:
        if keys[v.id]:
            vals = {s[v.id] for s in sols}
            out[v.id] = next(iter(vals)) if len(vals) == 1 else None
    return True, out


def check_solve(solver, keys, backend=None):
    import warnings
    try:
        exp_sat, exp = expected_common(solver, keys)
    except (AssertionError, den.IllTyped, IndexError) as e:
        return dict(kind="posted-node-is-malformed", detail="a posted constraint node cannot be evaluated by the reference semantics: %s: %s" % (type(e).__name__, str(e)[:200]))
    if exp_sat is None:
        return None
    solver.is_answer_key = list(keys)
    for v in solver.variables:
        v.sol = None
    try:
        with warnings.catch_warnings():
            warnings.simplefilter("ignore")
            with time_limit():
                r = solver.solve(backend) if backend is not None else solver.solve()
    except Timeout as e:
        return dict(kind="timeout", detail=str(e), expected_sat=exp_sat)
    except Exception as e:
        return dict(kind="exception:%s" % type(e).__name__, detail="%s: %s" % (type(e).__name__, str(e)[:200]), expected_sat=exp_sat)
    if r is not True and r is not False:
        return dict(kind="result-type", detail="solve returned %r" % (r,))
    if r != exp_sat:
        return dict(kind="sat-mismatch", detail="solve says %s, expected %s" % (r, exp_sat))
    if r:
        bad = []
        for v in solver.variables:
            if keys[v.id]:
                want = exp[v.id]
                if v.sol != want or (want is not None and type(v.sol) is not type(want)):
                    bad.append((v.id, v.sol, want))
        if bad:
            return dict(kind="decided-facts", detail="(variable, reported, common value or None): %s" % bad[:5])
    return None


# ------------------------------------------------------------------------------------------------
def classify_program(solver):
    feats = set()

    def walk(e):
        if isinstance(e, (bool, int)) or e is None:
            return
        op = e.op.name
        if op in ("BOOL_CONSTANT", "INT_CONSTANT"):
            feats.add("constant-node")
        if op == "ALLDIFF":
            nonlit = [o for o in e.operands if not isinstance(o, int)]
            if len(e.operands) < 2 or not nonlit:
                feats.add("alldiff-degenerate")
        if op in ("AND", "OR", "ADD") and len(e.operands) == 0:
            feats.add("empty-nary")
        if op != "VAR":
            for o in e.operands:
                walk(o)

    for c in solver.constraints:
        if isinstance(c, bool):
            feats.add("literal-constraint")
        walk(c)
    return "+".join(sorted(feats)) or "ordinary"


def build_random(seed, depth=3):
    rnd = random.Random(seed)
    s, V = new_program(rnd)
    s.verif_terms, s.verif_vocab = [], V
    for _ in range(rnd.randrange(1, 4)):
        t = gen_bool(rnd, rnd.randrange(1, depth + 1), V)
        s.verif_terms.append(t)
        s.ensure(build(t, V))
    return s


def _w_c01(args):
    kind, lo, hi, seed = args
    out = dict(n=0, fails=[], crash=None, samples=[])
    try:
        load_repo()
        if kind == "matrix":
            progs = one_operator_matrix()[lo:hi]
            for label, terms in progs:
                s = build_matrix_program(terms)
                out["n"] += 1
                f = check_find_answer(s)
                if f:
                    f.update(cls=classify_program(s), program=describe(s), label=label, how=dict(kind="matrix", label=label))
                    out["fails"].append(f)
        elif kind == "random":
            for k in range(lo, hi):
                s = build_random(seed * 1000003 + k)
                out["n"] += 1
                f = check_find_answer(s)
                if f:
                    f.update(cls=classify_program(s), program=describe(s), how=dict(kind="random", seed=seed * 1000003 + k))
                    out["fails"].append(f)
                elif len(out["samples"]) < 2:
                    out["samples"].append(describe(s))
        elif kind == "session":
            for k in range(lo, hi):
                rnd = random.Random(seed * 7919 + k)
                s, V = new_program(rnd)
                s.verif_terms, s.verif_vocab = [], V
                for step in range(rnd.randrange(2, 6)):
                    a = rnd.random()
                    if a < 0.3:
                        V.bools.append(s.bool_var())
                    elif a < 0.5:
                        V.ints.append(s.int_var(*rnd.choice(DOMAINS)))
                    t = gen_bool(rnd, 2, V)
                    s.verif_terms.append(t)
                    s.ensure(build(t, V))
                    out["n"] += 1
                    f = check_find_answer(s)
                    if f:
                        f.update(cls=classify_program(s), program=describe(s), how=dict(kind="session", seed=seed * 7919 + k, step=step))
                        out["fails"].append(f)
                        break
    except Exception:
        import traceback
        out["crash"] = traceback.format_exc()[-1500:]
    return out


def shared_subterm_programs():
    """programs in which ONE expression object is used in several constraints / at several places of a constraint (building
    `t + c` must not change `t`): written out by hand with their meaning; yields None or a failure dict"""
    load_repo()
    from cspuz import Solver, count_true
    import itertools as _it

    def case(name, nb, ni, build, pred):
        s = Solver()
        bs = [s.bool_var() for _ in range(nb)]
        is_ = [s.int_var(0, 3) for _ in range(ni)]
        for c in build(bs, is_):
            s.ensure(c)
        sols = [(bv, iv) for bv in _it.product([False, True], repeat=nb) for iv in _it.product(range(4), repeat=ni) if pred(bv, iv)]
        try:
            r = s.find_answer()
        except Exception as e:
            return dict(kind="exception:%s" % type(e).__name__, detail="shared-subterm program %s: %s: %s" % (name, type(e).__name__, str(e)[:150]), program=[name])
        if bool(r) != bool(sols):
            return dict(kind="sat-mismatch", detail="shared-subterm program %s: solver says %r, %d assignments satisfy the program as written" % (name, r, len(sols)), program=[name])
        if r:
            got = (tuple(v.sol for v in bs), tuple(v.sol for v in is_))
            if got not in sols:
                return dict(kind="sol-not-a-model", detail="shared-subterm program %s: sol %s is no model of the program as written" % (name, got), program=[name])
        return None

    def p1(b, i):
        t = i[0] + i[1]
        return [t + i[2] == 6, t == 2]
    yield case("t=a+b; t+c==6; t==2", 0, 3, p1, lambda b, i: i[0] + i[1] + i[2] == 6 and i[0] + i[1] == 2)

    def p2(b, i):
        n = count_true(b)
        return [n + i[0] == 3, n == 1]
    yield case("n=count_true(xs); n+k==3; n==1", 3, 1, p2, lambda b, i: sum(b) + i[0] == 3 and sum(b) == 1)

    def p3(b, i):
        t = i[0] - i[1]
        return [t - i[2] == 0, t == 1, (t + 1) + 1 == 3]
    yield case("t=a-b; t-c==0; t==1; t+1+1==3", 0, 3, p3, lambda b, i: i[0] - i[1] - i[2] == 0 and i[0] - i[1] == 1)

    def p4(b, i):
        c = b[0] & b[1]
        return [c | b[2], ~(c & b[2]), c == b[0]]
    yield case("c=x&y; c|z; ~(c&z); c==x", 3, 0, p4, lambda b, i: ((b[0] and b[1]) or b[2]) and not ((b[0] and b[1]) and b[2]) and ((b[0] and b[1]) == b[0]))

    def p5(b, i):
        t = i[0] + 1
        u = t + t
        return [u == 4, t + i[1] == 3]
    yield case("t=a+1; u=t+t; u==4; t+b==3", 0, 2, p5, lambda b, i: 2 * (i[0] + 1) == 4 and i[0] + 1 + i[1] == 3)

    def p6(b, i):
        n = count_true(b[:2])
        m = n + count_true(b[2:])
        return [m == 2, n == 0]
    yield case("n=count(x,y); m=n+count(z,w); m==2; n==0", 4, 0, p6, lambda b, i: sum(b) == 2 and sum(b[:2]) == 0)


def large_structured_programs(tier, use_solve=False):
    """yields None (agreement) or a failure dict per program; programs over n = 130 / 257 variables:
       chain   x0, x_i -> x_{i+1}                      exactly one model (all true)            [+ not x_{n-1}: unsatisfiable]
       ladder  y_0 = 0, y_{i+1} = y_i + 1 (ints)       exactly one model (y_i = i)             [+ y_{n-1} != n-1: unsatisfiable]
       blocks  exactly one of every 3 consecutive vars x_{3k}, x_{3k+1}, x_{3k+2}, and x_{3k} for all k: one model
    checked: find_answer / solve verdict, and every reported value (solve: every key is decided)"""
    load_repo()
    from cspuz import Solver, count_true
    for n in ((130,) if tier == "quick" else (130, 257)):
        for kind in ("chain", "chain-unsat", "ladder", "ladder-unsat", "blocks"):
            s = Solver()
            if kind.startswith("chain"):
                xs = [s.bool_var() for _ in range(n)]
                s.ensure(xs[0])
                for i in range(n - 1):
                    s.ensure(xs[i].then(xs[i + 1]))
                if kind.endswith("unsat"):
                    s.ensure(~xs[n - 1])
                want = {v.id: True for v in xs}
                keys = xs
            elif kind.startswith("ladder"):
                ys = [s.int_var(0, n) for _ in range(n)]
                s.ensure(ys[0] == 0)
                for i in range(n - 1):
                    s.ensure(ys[i + 1] == ys[i] + 1)
                if kind.endswith("unsat"):
                    s.ensure(ys[n - 1] != n - 1)
                want = {v.id: i for i, v in enumerate(ys)}
                keys = ys
            else:
                m3 = n - n % 3
                xs = [s.bool_var() for _ in range(m3)]
                for k in range(0, m3, 3):
                    s.ensure(count_true(xs[k:k + 3]) == 1)
                    s.ensure(xs[k])
                want = {v.id: (i % 3 == 0) for i, v in enumerate(xs)}
                keys = xs
            sat = not kind.endswith("unsat")
            try:
                if use_solve:
                    s.add_answer_key(keys)
                    r = s.solve()
                else:
                    r = s.find_answer()
            except Exception as e:
                yield dict(kind="exception:%s" % type(e).__name__, detail="large program %s(n=%d): %s: %s" % (kind, n, type(e).__name__, str(e)[:160]), program=[kind, n])
                continue
            if bool(r) != sat or (r is not True and r is not False):
                yield dict(kind="sat-mismatch", detail="large program %s(n=%d): the solver says %r, by construction it is %ssatisfiable" % (kind, n, r, "" if sat else "un"), program=[kind, n])
                continue
            if sat:
                bad = [(v.id, v.sol, want[v.id]) for v in keys if v.sol != want[v.id] or type(v.sol) is not type(want[v.id])]
                if bad:
                    yield dict(kind="sol-not-the-model", detail="large program %s(n=%d): its only model is not what sol reports, e.g. (id, sol, model) %s" % (kind, n, bad[:3]), program=[kind, n])
                    continue
            yield None


def many_key_programs(tier):
    """solve() with hundreds of answer keys (one per cell of a large board): n keys of which all but the last few are pinned by
    unit constraints (booleans and integers); the free ones must come out as None, the pinned ones with their values.
    yields None or a failure dict"""
    load_repo()
    from cspuz import Solver
    for n in ((520, 1100) if tier == "quick" else (511, 512, 513, 520, 700, 1024, 1025, 1100, 2100)):
        for tail in (1, 4):
            s = Solver()
            vs, want = [], {}
            for i in range(n):
                if i % 3 == 2:
                    v = s.int_var(0, 3)
                    if i < n - tail:
                        s.ensure(v == (i % 4))
                        want[v.id] = i % 4
                    else:
                        want[v.id] = None
                else:
                    v = s.bool_var()
                    if i < n - tail:
                        s.ensure(v if i % 2 else ~v)
                        want[v.id] = bool(i % 2)
                    else:
                        want[v.id] = None
                vs.append(v)
            s.add_answer_key(vs)
            try:
                r = s.solve()
            except Exception as e:
                yield dict(kind="exception:%s" % type(e).__name__, detail="%d answer keys, the last %d free: %s: %s" % (n, tail, type(e).__name__, str(e)[:160]), program=["many-keys", n, tail])
                continue
            if r is not True:
                yield dict(kind="sat-mismatch", detail="%d answer keys, the last %d free: solve() returned %r" % (n, tail, r), program=["many-keys", n, tail])
                continue
            bad = [(v.id, v.sol, want[v.id]) for v in vs if v.sol != want[v.id] or (want[v.id] is not None and type(v.sol) is not type(want[v.id]))]
            if bad:
                yield dict(kind="decided-facts", detail="%d answer keys, the last %d free: (id, sol, expected) %s" % (n, tail, bad[:4]), program=["many-keys", n, tail])
            else:
                yield None


def wide_operator_programs(tier, use_solve=False):
    """one n-ary operator node with k operands (k around the powers of two and 100), all operands pinned by unit constraints so
    that ONE operand at position p decides the value; a result variable is tied to the node: exactly one model.
       count   x_p true, others false;  T == count_true(x)            -> T = 1
       or      x_p true, others false;  B == fold_or(x)               -> B true
       and     x_p false, others true;  B == fold_and(x)              -> B false
       alldiff y_i = i except y_p = y_q (q next to p);  B == alldifferent(y)   -> B false   (and all distinct -> true)"""
    load_repo()
    from cspuz import Solver, count_true, fold_or, fold_and, alldifferent
    ks = (2, 3, 31, 32, 33, 34, 63, 64, 65, 66, 97, 100, 129) if tier == "quick" else tuple(range(2, 70)) + (95, 96, 97, 98, 99, 100, 127, 128, 129, 130, 257)
    for k in ks:
        for p in sorted({0, k // 2, k - 1}):
            for kind in ("count", "or", "and", "alldiff", "alldiff-true"):
                if kind == "alldiff-true" and p != 0:
                    continue
                s = Solver()
                if kind in ("count", "or", "and"):
                    xs = [s.bool_var() for _ in range(k)]
                    hot = (kind != "and")
                    for i, x in enumerate(xs):
                        s.ensure(x if ((i == p) == hot) else ~x)
                    if kind == "count":
                        r_ = s.int_var(0, k)
                        s.ensure(r_ == count_true(xs))
                        want = 1
                    else:
                        r_ = s.bool_var()
                        s.ensure(r_ == (fold_or(xs) if kind == "or" else fold_and(xs)))
                        want = (kind == "or")
                else:
                    ys = [s.int_var(0, k) for _ in range(k)]
                    q = p + 1 if p + 1 < k else p - 1
                    for i, y in enumerate(ys):
                        s.ensure(y == (q if (i == p and kind == "alldiff") else i))
                    r_ = s.bool_var()
                    s.ensure(r_ == alldifferent(ys))
                    want = (kind == "alldiff-true")
                try:
                    if use_solve:
                        s.add_answer_key(r_)
                        r = s.solve()
                    else:
                        r = s.find_answer()
                except Exception as e:
                    yield dict(kind="exception:%s" % type(e).__name__, detail="wide operator %s(k=%d, p=%d): %s: %s" % (kind, k, p, type(e).__name__, str(e)[:160]), program=[kind, k, p])
                    continue
                if r is not True:
                    yield dict(kind="sat-mismatch", detail="wide operator %s(k=%d, p=%d): the solver says %r, the program has exactly one model" % (kind, k, p, r), program=[kind, k, p])
                elif r_.sol != want or type(r_.sol) is not type(want):
                    yield dict(kind="sol-not-the-model", detail="wide operator %s with %d operands, deciding operand at position %d: result reported as %r, its only value is %r" % (kind, k, p, r_.sol, want), program=[kind, k, p])
                else:
                    yield None


def wide_constant_programs(tier, use_solve=False):
    """integer constants and domains around the machine-word boundaries (2**31, 2**32, 2**63, 2**64, 10**30 and their
    negatives): x in [c-1, c+1] with  x == c | x != c and x >= c | x + 1 == c + 1 | x - c == 0 | x > c - 1 and x < c + 1 | -x == -c
    -- each has exactly one model"""
    load_repo()
    from cspuz import Solver
    cs = []
    for b in (2 ** 31, 2 ** 32, 2 ** 62, 2 ** 63, 2 ** 64, 10 ** 30):
        cs += [b - 1, b, b + 1, -b + 1, -b, -b - 1]
    if tier == "quick":
        cs = cs[::2] + [2 ** 63, 2 ** 63 + 1, 2 ** 64 - 1, -(2 ** 63) - 1, -(2 ** 64) + 1]
    for c in cs:
        for kind in ("eq", "ne-ge", "plus", "minus", "between", "neg"):
            s = Solver()
            x = s.int_var(c - 1, c + 1)
            want = c
            if kind == "eq":
                s.ensure(x == c)
            elif kind == "ne-ge":
                s.ensure(x != c)
                s.ensure(x >= c)
                want = c + 1
            elif kind == "plus":
                s.ensure(x + 1 == c + 1)
            elif kind == "minus":
                s.ensure(x - c == 0)
            elif kind == "between":
                s.ensure((x > c - 1) & (x < c + 1))
            else:
                s.ensure(-x == -c)
            try:
                if use_solve:
                    s.add_answer_key(x)
                    r = s.solve()
                else:
                    r = s.find_answer()
            except Exception as e:
                yield dict(kind="exception:%s" % type(e).__name__, detail="wide constant %s(c=%d): %s: %s" % (kind, c, type(e).__name__, str(e)[:160]), program=[kind, str(c)])
                continue
            if r is not True:
                yield dict(kind="sat-mismatch", detail="wide constant %s(c=%d): the solver says %r, the program has exactly one model" % (kind, c, r), program=[kind, str(c)])
            elif x.sol != want or type(x.sol) is not int:
                yield dict(kind="sol-not-the-model", detail="wide constant %s(c=%d): x reported as %r, its only value is %d" % (kind, c, x.sol, want), program=[kind, str(c)])
            else:
                yield None


def run_c01(rep, tier, seed, nproc=16):
    from concurrent.futures import ProcessPoolExecutor
    from pyvc.runner import write_replay
    load_repo()
    nm = len(one_operator_matrix())
    tasks = [("matrix", i, min(i + 100, nm), seed) for i in range(0, nm, 100)]
    nr = 400 if tier == "quick" else 6000
    ns = 60 if tier == "quick" else 600
    tasks += [("random", i, min(i + 50, nr), seed) for i in range(0, nr, 50)]
    tasks += [("session", i, min(i + 20, ns), seed) for i in range(0, ns, 20)]
    seen = set()
    with ProcessPoolExecutor(nproc) as ex:
        for r in ex.map(_w_c01, tasks):
            rep.evaluations += r["n"]
            if r["crash"]:
                rep.crashes.append(r["crash"])
            for s in r["samples"]:
                if len(rep.samples) < 6:
                    rep.samples.append(s)
            for f in r["fails"]:
                sig = "e2e:find_answer:%s:%s" % (f["kind"], f["cls"])
                if sig in seen:
                    continue
                seen.add(sig)
                payload = dict(engine="programs", property="C01", **{k: v for k, v in f.items()})
                rp = write_replay("C01", "find_answer_%s_%s" % (f["kind"], f["cls"]), payload)
                rep.violation(sig, "%s | program %s" % (f["detail"], json.dumps(f["program"])[:400]), rp)
    rep.coverage["matrix_programs"] = nm
    # LARGE programs whose meaning is known by construction (a size-dependent branch of Solver or of a back end -- batching
    # constraints, declaring variables in blocks -- never runs on programs small enough for the brute-force oracle)
    for f in shared_subterm_programs():
        rep.evaluations += 1
        if f is not None:
            sig = "e2e:find_answer:%s:shared-subterm" % f["kind"]
            if sig not in seen:
                seen.add(sig)
                payload = dict(engine="programs", property="C01", **f)
                rp = write_replay("C01", "find_answer_%s_shared" % f["kind"], payload)
                rep.violation(sig, f["detail"], rp)
    for f in large_structured_programs(tier):
        rep.evaluations += 1
        if f is not None:
            sig = "e2e:find_answer:%s:large" % f["kind"]
            if sig not in seen:
                seen.add(sig)
                payload = dict(engine="programs", property="C01", **f)
                rp = write_replay("C01", "find_answer_%s_large" % f["kind"], payload)
                rep.violation(sig, f["detail"], rp)
    for f in wide_constant_programs(tier):
        rep.evaluations += 1
        if f is not None:
            sig = "e2e:find_answer:%s:wide-constant" % f["kind"]
            if sig not in seen:
                seen.add(sig)
                payload = dict(engine="programs", property="C01", **f)
                rp = write_replay("C01", "find_answer_%s_wideconst" % f["kind"], payload)
                rep.violation(sig, f["detail"], rp)
    for f in wide_operator_programs(tier):
        rep.evaluations += 1
        if f is not None:
            sig = "e2e:find_answer:%s:wide-operator" % f["kind"]
            if sig not in seen:
                seen.add(sig)
                payload = dict(engine="programs", property="C01", **f)
                rp = write_replay("C01", "find_answer_%s_wide" % f["kind"], payload)
                rep.violation(sig, f["detail"], rp)
    rep.distinct.update(("c01", i) for i in range(rep.evaluations))


def replay_c01(payload):
    load_repo()
    if "how" not in payload:
        # large / wide-operator / shared-subterm families: deterministic, re-run the family and report what still fails
        bad = [f for f in list(large_structured_programs("quick")) + list(wide_operator_programs("quick")) + list(wide_constant_programs("quick")) if f is not None]
        for f in bad[:5]:
            print("still fails:", f["detail"])
        if not bad:
            print("the deterministic program families agree now (payload: %s)" % json.dumps(payload.get("program"))[:200])
        return 1 if bad else 0
    how = payload["how"]
    if how["kind"] == "matrix":
        s = build_matrix_program(dict(one_operator_matrix())[how["label"]])
    elif how["kind"] == "random":
        s = build_random(how["seed"])
    else:
        rnd = random.Random(how["seed"])
        s, V = new_program(rnd)
        s.verif_terms, s.verif_vocab = [], V
        nsteps = rnd.randrange(2, 6)
        for step in range(how["step"] + 1):
            a = rnd.random()
            if a < 0.3:
                V.bools.append(s.bool_var())
            elif a < 0.5:
                V.ints.append(s.int_var(*rnd.choice(DOMAINS)))
            t = gen_bool(rnd, 2, V)
            s.verif_terms.append(t)
            s.ensure(build(t, V))
        # note: the session's number of steps was drawn before the loop
    f = check_find_answer(s)
    print("replay:", json.dumps(describe(s))[:500], "->", f or "agrees with brute force")
    return 1 if f else 0
