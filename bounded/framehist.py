"""C14 (native tier): read sequences on one BoolGridFrame.  Every read frame[Y, X] of a sequence of three (any coordinates on,
beside and beyond the doubled lattice, successful or not) must give what the same read gives on a fresh frame over the same two
arrays: the same variable object, or the same exception type.  Accessors may keep state, but it must not leak between reads."""
import itertools

from .common import load_repo


def run(rep, tier):
    load_repo()
    from cspuz import Solver
    from cspuz.grid_frame import BoolGridFrame
    from pyvc.runner import write_replay
    shapes = [(1, 1), (1, 2), (2, 1)] + ([(2, 2), (0, 2), (3, 1)] if tier != "quick" else [])
    seen = set()
    for (h, w) in shapes:
        s = Solver()
        hz, vt = s.bool_array((h + 1, w)), s.bool_array((h, w + 1))
        coords = [(Y, X) for Y in range(-2, 2 * h + 3) for X in range(-2, 2 * w + 3)]

        def read(fr, c):
            try:
                return ("value", id(fr[c]))
            except Exception as e:
                return ("exception", type(e).__name__)
        truth = {c: read(BoolGridFrame(s, h, w, horizontal=hz, vertical=vt), c) for c in coords}
        seqs = itertools.product(coords, repeat=3)
        if tier == "quick" and len(coords) ** 3 > 60000:
            seqs = itertools.islice(seqs, 0, None, len(coords) ** 3 // 60000 + 1)
        for seq in seqs:
            fr = BoolGridFrame(s, h, w, horizontal=hz, vertical=vt)
            for step, c in enumerate(seq):
                rep.evaluations += 1
                got = read(fr, c)
                if got != truth[c]:
                    sig = "framehist:read-depends-on-earlier-reads"
                    if sig not in seen:
                        seen.add(sig)
                        rep.violation(sig, "frame %dx%d, reads %s: read %d gives %s, on a fresh frame over the same arrays it gives %s"
                                      % (h, w, list(seq), step, got[0] + ":" + str(got[1]), truth[c][0] + ":" + str(truth[c][1])),
                                      write_replay("C14", "framehist", dict(engine="framehist", property="C14", shape=[h, w], reads=[list(c_) for c_ in seq])))
                    break
    rep.coverage["read_sequences_of_three_on_shapes"] = [list(x) for x in shapes]


def replay(payload):
    from pyvc.runner import Report
    rep = Report("C14", "quick", 0, "proof")
    run(rep, "quick")
    for v in rep.violations:
        print("still fails:", v["signature"], v["detail"][:200])
    return 1 if rep.violations else 0
