"""Symbolic proxies with Python's operator semantics.

Python semantics assumed by this encoding (listed in the evidence as trusted base):
  * `int` is the SMT sort Int (unbounded, as in Python); `//` and `%` are floor division and its
    remainder (sign of the divisor), division by zero raises ZeroDivisionError;
  * `bool` is a subtype of `int`: arithmetic on a bool uses 1/0, `True == 1`;
  * truth value of an int is `!= 0`; `and`/`or` are handled by the interpreter (operand values);
  * bit operations are only available on values with a statically known non-negative bit width
    (`SBV`), evaluated on 128-bit vectors whose width is never exceeded (checked syntactically),
    or as `x & (2^k - 1) == x mod 2^k` on an unbounded int (Python's infinite two's complement);
  * `float(x) / 2**k` is the exact rational (Real sort).
"""

import z3
from .ctx import CTX, OutOfSubset

BVW = 128


class PyRaise(Exception):
    """A Python exception raised by the code under contract (value = real exception instance)."""

    def __init__(self, exc):
        Exception.__init__(self, repr(exc))
        self.exc = exc


def _zint(o):
    """python/proxy -> z3 Int term, or None if o is not int-like."""
    if isinstance(o, SInt):
        return o.t
    if isinstance(o, SBool):
        return z3.If(o.t, z3.IntVal(1), z3.IntVal(0))
    if isinstance(o, bool):
        return z3.IntVal(1 if o else 0)
    if isinstance(o, int):
        return z3.IntVal(o)
    if isinstance(o, SBV):
        return z3.BV2Int(o.t, False)
    return None


def _zbool(o):
    if isinstance(o, SBool):
        return o.t
    if isinstance(o, bool):
        return z3.BoolVal(o)
    return None


def py_floordiv(a, b):
    return z3.If(b > 0, a / b, (-a) / (-b))


def py_mod(a, b):
    return a - b * py_floordiv(a, b)


def is_sym(v):
    return isinstance(v, (SInt, SBool, SStr, SRef, SBV, SReal))


def mk_int(t):
    t = z3.simplify(t)
    if z3.is_int_value(t):
        return t.as_long()
    return SInt(t)


def mk_bool(t):
    t = z3.simplify(t)
    if z3.is_true(t):
        return True
    if z3.is_false(t):
        return False
    return SBool(t)


class SInt:
    __slots__ = ("t", "bits")

    def __init__(self, t, bits=None):
        self.t = t
        self.bits = bits

    def __repr__(self):
        return "SInt(%s)" % self.t

    __hash__ = None

    def _bin(self, o, f, rev=False):
        z = _zint(o)
        if z is None:
            if isinstance(o, SReal) or isinstance(o, float):
                return NotImplemented
            return NotImplemented
        return mk_int(f(z, self.t) if rev else f(self.t, z))

    def __add__(self, o):
        return self._bin(o, lambda a, b: a + b)

    def __radd__(self, o):
        return self._bin(o, lambda a, b: a + b, True)

    def __sub__(self, o):
        return self._bin(o, lambda a, b: a - b)

    def __rsub__(self, o):
        return self._bin(o, lambda a, b: a - b, True)

    def __mul__(self, o):
        return self._bin(o, lambda a, b: a * b)

    def __rmul__(self, o):
        return self._bin(o, lambda a, b: a * b, True)

    def __neg__(self):
        return mk_int(-self.t)

    def __pos__(self):
        return self

    def __abs__(self):
        return mk_int(z3.If(self.t >= 0, self.t, -self.t))

    def _divlike(self, o, f, rev):
        z = _zint(o)
        if z is None:
            return NotImplemented
        a, b = (z, self.t) if rev else (self.t, z)
        if CTX.branch(b == 0):
            raise PyRaise(ZeroDivisionError("integer division or modulo by zero"))
        return mk_int(f(a, b))

    def __floordiv__(self, o):
        return self._divlike(o, py_floordiv, False)

    def __rfloordiv__(self, o):
        return self._divlike(o, py_floordiv, True)

    def __mod__(self, o):
        return self._divlike(o, py_mod, False)

    def __rmod__(self, o):
        return self._divlike(o, py_mod, True)

    def __truediv__(self, o):
        return SReal(z3.ToReal(self.t)) / o

    def __pow__(self, o):
        if isinstance(o, int) and not isinstance(o, bool) and 0 <= o <= 8:
            r = z3.IntVal(1)
            for _ in range(o):
                r = r * self.t
            return mk_int(r)
        raise OutOfSubset("pow with symbolic operands")

    def __rpow__(self, o):
        raise OutOfSubset("pow with symbolic exponent")

    def _cmp(self, o, f):
        z = _zint(o)
        if z is None:
            if isinstance(o, SReal):
                return NotImplemented
            return NotImplemented
        return mk_bool(f(self.t, z))

    def __lt__(self, o):
        return self._cmp(o, lambda a, b: a < b)

    def __le__(self, o):
        return self._cmp(o, lambda a, b: a <= b)

    def __gt__(self, o):
        return self._cmp(o, lambda a, b: a > b)

    def __ge__(self, o):
        return self._cmp(o, lambda a, b: a >= b)

    def __eq__(self, o):
        z = _zint(o)
        if z is None:
            return False
        return mk_bool(self.t == z)

    def __ne__(self, o):
        z = _zint(o)
        if z is None:
            return True
        return mk_bool(self.t != z)

    def __bool__(self):
        return CTX.branch(self.t != 0)

    # bit operations -----------------------------------------------------------
    def __and__(self, o):
        if isinstance(o, int) and not isinstance(o, bool) and o >= 0 and (o & (o + 1)) == 0:
            k = o.bit_length()
            r = py_mod(self.t, z3.IntVal(1 << k))
            return SInt(z3.simplify(r), bits=k)
        raise OutOfSubset("& on unbounded symbolic int")

    __rand__ = __and__

    def as_bv(self):
        if self.bits is None:
            raise OutOfSubset("bit operation on an int without known width")
        return SBV(z3.Int2BV(self.t, BVW), self.bits)

    def __xor__(self, o):
        return self.as_bv() ^ o

    def __rxor__(self, o):
        return self.as_bv().__rxor__(o)

    def __or__(self, o):
        return self.as_bv() | o

    def __lshift__(self, o):
        return self.as_bv() << o

    def __rshift__(self, o):
        return self.as_bv() >> o


class SBool:
    __slots__ = ("t",)

    def __init__(self, t):
        self.t = t

    def __repr__(self):
        return "SBool(%s)" % self.t

    __hash__ = None

    def __bool__(self):
        return CTX.branch(self.t)

    def _i(self):
        return SInt(z3.If(self.t, z3.IntVal(1), z3.IntVal(0)))

    def __eq__(self, o):
        b = _zbool(o)
        if b is not None:
            return mk_bool(self.t == b)
        z = _zint(o)
        if z is None:
            return False
        return mk_bool(_zint(self) == z)

    def __ne__(self, o):
        r = self.__eq__(o)
        if isinstance(r, bool):
            return not r
        return mk_bool(z3.Not(r.t))

    def __and__(self, o):
        b = _zbool(o)
        if b is None:
            raise OutOfSubset("& of bool and non-bool")
        return mk_bool(z3.And(self.t, b))

    __rand__ = __and__

    def __or__(self, o):
        b = _zbool(o)
        if b is None:
            raise OutOfSubset("| of bool and non-bool")
        return mk_bool(z3.Or(self.t, b))

    __ror__ = __or__

    def __xor__(self, o):
        b = _zbool(o)
        if b is None:
            raise OutOfSubset("^ of bool and non-bool")
        return mk_bool(z3.Xor(self.t, b))

    __rxor__ = __xor__

    def __invert__(self):
        raise OutOfSubset("~ on a Python bool")

    def __add__(self, o):
        return self._i() + o

    def __radd__(self, o):
        return o + self._i()

    def __sub__(self, o):
        return self._i() - o

    def __rsub__(self, o):
        return o - self._i()

    def __mul__(self, o):
        return self._i() * o

    def __rmul__(self, o):
        return o * self._i()

    def __neg__(self):
        return -self._i()

    def __lt__(self, o):
        return self._i() < o

    def __le__(self, o):
        return self._i() <= o

    def __gt__(self, o):
        return self._i() > o

    def __ge__(self, o):
        return self._i() >= o


class SReal:
    """exact rational (used only for float(x) / 2**k)."""

    __slots__ = ("t",)

    def __init__(self, t):
        self.t = t

    __hash__ = None

    @staticmethod
    def _z(o):
        if isinstance(o, SReal):
            return o.t
        zi = _zint(o)
        if zi is not None:
            return z3.ToReal(zi)
        if isinstance(o, float):
            return z3.RealVal(repr(o))
        return None

    def __truediv__(self, o):
        z = SReal._z(o)
        if z is None:
            return NotImplemented
        if CTX.branch(z == 0):
            raise PyRaise(ZeroDivisionError("float division by zero"))
        return SReal(self.t / z)

    def __rtruediv__(self, o):
        z = SReal._z(o)
        if z is None:
            return NotImplemented
        if CTX.branch(self.t == 0):
            raise PyRaise(ZeroDivisionError("float division by zero"))
        return SReal(z / self.t)

    def __lt__(self, o):
        return mk_bool(self.t < SReal._z(o))

    def __le__(self, o):
        return mk_bool(self.t <= SReal._z(o))

    def __gt__(self, o):
        return mk_bool(self.t > SReal._z(o))

    def __ge__(self, o):
        return mk_bool(self.t >= SReal._z(o))

    def __eq__(self, o):
        z = SReal._z(o)
        return False if z is None else mk_bool(self.t == z)

    def __mul__(self, o):
        return SReal(self.t * SReal._z(o))

    __rmul__ = __mul__


class SBV:
    """Non-negative integer of statically bounded bit width, on BVW-bit vectors."""

    __slots__ = ("t", "bits")

    def __init__(self, t, bits):
        if bits > BVW - 1:
            raise OutOfSubset("bit-vector width %d exceeds the modelled %d bits" % (bits, BVW))
        self.t = t
        self.bits = bits

    __hash__ = None

    def __repr__(self):
        return "SBV(%s,<=%d bits)" % (self.t, self.bits)

    @staticmethod
    def _of(o):
        if isinstance(o, SBV):
            return o
        if isinstance(o, bool):
            o = int(o)
        if isinstance(o, int):
            if o < 0:
                raise OutOfSubset("bit operation with a negative constant")
            return SBV(z3.BitVecVal(o, BVW), o.bit_length())
        if isinstance(o, SInt):
            return o.as_bv()
        return None

    def _simp(self, t, bits):
        return SBV(z3.simplify(t), bits)

    def __xor__(self, o):
        b = SBV._of(o)
        if b is None:
            return NotImplemented
        return self._simp(self.t ^ b.t, max(self.bits, b.bits))

    __rxor__ = __xor__

    def __or__(self, o):
        b = SBV._of(o)
        if b is None:
            return NotImplemented
        return self._simp(self.t | b.t, max(self.bits, b.bits))

    __ror__ = __or__

    def __and__(self, o):
        b = SBV._of(o)
        if b is None:
            return NotImplemented
        return self._simp(self.t & b.t, min(self.bits, b.bits))

    __rand__ = __and__

    def __lshift__(self, o):
        if not (isinstance(o, int) and not isinstance(o, bool) and 0 <= o):
            raise OutOfSubset("shift by a symbolic amount")
        return self._simp(self.t << o, self.bits + o)

    def __rshift__(self, o):
        if not (isinstance(o, int) and not isinstance(o, bool) and 0 <= o):
            raise OutOfSubset("shift by a symbolic amount")
        return self._simp(z3.LShR(self.t, o), max(self.bits - o, 0))

    def _cmp(self, o, f):
        b = SBV._of(o) if not (isinstance(o, int) and o < 0) else None
        if b is None:
            zi = _zint(o)
            if zi is None:
                return NotImplemented
            return mk_bool(f(z3.BV2Int(self.t, False), zi, False))
        return mk_bool(f(self.t, b.t, True))

    def __lt__(self, o):
        return self._cmp(o, lambda a, b, bv: z3.ULT(a, b) if bv else a < b)

    def __le__(self, o):
        return self._cmp(o, lambda a, b, bv: z3.ULE(a, b) if bv else a <= b)

    def __gt__(self, o):
        return self._cmp(o, lambda a, b, bv: z3.UGT(a, b) if bv else a > b)

    def __ge__(self, o):
        return self._cmp(o, lambda a, b, bv: z3.UGE(a, b) if bv else a >= b)

    def __eq__(self, o):
        r = self._cmp(o, lambda a, b, bv: a == b)
        return False if r is NotImplemented else r

    def __ne__(self, o):
        r = self._cmp(o, lambda a, b, bv: a != b)
        return True if r is NotImplemented else r

    def __bool__(self):
        return CTX.branch(self.t != 0)

    def to_int(self):
        return SInt(z3.BV2Int(self.t, False), bits=self.bits)

    def __mod__(self, o):
        return self.to_int() % o

    def __add__(self, o):
        return self.to_int() + o

    __radd__ = __add__

    def __sub__(self, o):
        return self.to_int() - o


class SStr:
    __slots__ = ("t",)

    def __init__(self, t):
        self.t = t

    __hash__ = None

    def __repr__(self):
        return "SStr(%s)" % self.t

    def __eq__(self, o):
        if isinstance(o, SStr):
            return mk_bool(self.t == o.t)
        if isinstance(o, str):
            return mk_bool(self.t == z3.StringVal(o))
        return False

    def __ne__(self, o):
        r = self.__eq__(o)
        if isinstance(r, bool):
            return not r
        return mk_bool(z3.Not(r.t))

    def __add__(self, o):
        if isinstance(o, SStr):
            return SStr(z3.Concat(self.t, o.t))
        if isinstance(o, str):
            return SStr(z3.Concat(self.t, z3.StringVal(o))) if o else self
        return NotImplemented

    def __radd__(self, o):
        if isinstance(o, str):
            return SStr(z3.Concat(z3.StringVal(o), self.t)) if o else self
        return NotImplemented

    def __bool__(self):
        return CTX.branch(z3.Length(self.t) != 0)


def zstr(o):
    if isinstance(o, SStr):
        return o.t
    if isinstance(o, str):
        return z3.StringVal(o)
    return None


def mk_str(t):
    t = z3.simplify(t)
    if z3.is_string_value(t):
        return t.as_string()
    return SStr(t)


class SRef:
    """Opaque object identity."""

    __slots__ = ("t",)

    def __init__(self, t):
        self.t = t

    __hash__ = None

    def __repr__(self):
        return "SRef(%s)" % self.t

    def __eq__(self, o):
        if isinstance(o, SRef):
            return mk_bool(self.t == o.t)
        return False

    def __ne__(self, o):
        if isinstance(o, SRef):
            return mk_bool(self.t != o.t)
        return True


# ---------------------------------------------------------------------------- logic helpers
def _b(o):
    if isinstance(o, SBool):
        return o.t
    if isinstance(o, bool):
        return z3.BoolVal(o)
    if isinstance(o, (SInt, SBV, SStr)):
        return bool(o)
    raise TypeError("not a boolean: %r" % (o,))


def And(*xs):
    if CTX.mode == "native":
        return all(xs)
    return mk_bool(z3.And([_b(x) for x in xs]))


def Or(*xs):
    if CTX.mode == "native":
        return any(xs)
    return mk_bool(z3.Or([_b(x) for x in xs]))


def Not(x):
    if CTX.mode == "native":
        return not x
    return mk_bool(z3.Not(_b(x)))


def implies(a, b):
    if CTX.mode == "native":
        return (not a) or bool(b)
    return mk_bool(z3.Implies(_b(a), _b(b)))


def ite(c, a, b):
    if isinstance(c, bool):
        return a if c else b
    za, zb = _zint(a), _zint(b)
    if isinstance(a, (SBool, bool)) and isinstance(b, (SBool, bool)):
        return mk_bool(z3.If(c.t, _zbool(a), _zbool(b)))
    if za is not None and zb is not None:
        return mk_int(z3.If(c.t, za, zb))
    sa, sb = zstr(a), zstr(b)
    if sa is not None and sb is not None:
        return mk_str(z3.If(c.t, sa, sb))
    return a if bool(c) else b
