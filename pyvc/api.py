"""Harness API: contracts are written as ordinary Python against these functions.

The same harness text is
  * the proved contract (mode `sym`: inputs symbolic, the real function interpreted from its AST,
    every `check` decided by the SMT solver on every path),
  * the run-time contract / replay (mode `native`: inputs concrete, the real function imported from
    $VERIF_REPO and executed by CPython),
  * the encoding cross-check (mode `interp`: inputs concrete, the real function run through the
    pyvc interpreter; must agree with `native`).
"""

import importlib
import os
import sys
import time
import traceback

import z3

from .ctx import TimeBudget
from .ctx import CTX, PathEnd, OutOfSubset, Oblig
from .sym import (SInt, SBool, SStr, SRef, SBV, SReal, PyRaise, mk_int, mk_bool, mk_str, And, Or, Not, implies, ite,
                  _zint, is_sym, BVW)
from .values import VList, VObj, VDict, VSet, Opaque, AbstractSeq, ClassVal, HostFn, FuncVal, BoundMethod, EnumMember
from . import interp as _interp_mod
from .interp import Interp, LoopSpec, NS, repo_root

HARNESSES = {}
_LEMMAS = set()
_INTERP = None
_LOOP_SPECS = {}


def interp():
    global _INTERP
    if _INTERP is None:
        _INTERP = Interp()
        _INTERP.loop_specs = _LOOP_SPECS
    return _INTERP


def reset_interp():
    global _INTERP
    _INTERP = None


def modelled():
    return CTX.mode in ("sym", "interp")


class Harness:
    structural = False      # obligations that restate HOW the code does something the property does not prescribe

    def __init__(self, fn, prop, name, cases, native_inputs, max_paths, group):
        self.fn = fn
        self.prop = prop
        self.name = name
        self.cases = cases
        self.native_inputs = native_inputs
        self.max_paths = max_paths
        self.group = group


def harness(prop, cases=None, native_inputs=None, max_paths=4000, name=None, group="main", structural=False):
    """register a contract harness.  cases: list of dicts (concrete case splits, e.g. None/int tags);
    native_inputs(case) -> iterable of input dicts for the bounded native run."""

    def deco(fn):
        nm = name or fn.__name__
        HARNESSES[(prop, nm)] = Harness(fn, prop, nm, cases or [{}], native_inputs, max_paths, group)
        HARNESSES[(prop, nm)].structural = structural
        return fn

    return deco


def loop_spec(func_key, ordinal, inv=None, modifies=(), types=None, at_head=None, at_end=None, ghost_havoc=None, abstract=False,
              at_exit=None):
    """at_exit(ns): called on the path that leaves the loop normally, in the state the loop was left in (invariant and the
    negated guard assumed); for range loops ns.exit_index is the value the loop ran up to"""
    sp = LoopSpec(inv, modifies, types, at_head=at_head, at_end=at_end, ghost_havoc=ghost_havoc)
    sp.abstract = abstract
    sp.at_exit = at_exit
    _LOOP_SPECS[(func_key, ordinal)] = sp


def replace_object(ns, old, new):
    """a ghost view takes the place of a heap object: every local variable and every field of a local object that
    referred to `old` now refers to `new` (aliases stay aliases)"""
    sc = ns._scope
    while sc is not None:
        for k, v in list(sc.vars.items()):
            if v is old:
                sc.vars[k] = new
            elif isinstance(v, VObj):
                for fk, fv in list(v.fields.items()):
                    if fv is old:
                        v.fields[fk] = new
        sc = sc.parent if sc.func is None else None


def callback(fn):
    """a Python callable the code under contract may call (uninterpreted callback with ghost log)"""
    fn._pyvc_callback = True
    return fn


# ---------------------------------------------------------------------------- inputs
def _native_input(name, default):
    if name in CTX.native_inputs:
        return CTX.native_inputs[name]
    return default


def sint(name, bits=None):
    if CTX.mode == "sym":
        t = z3.Int(name)
        CTX.register_input(name, "int", t)
        if bits is not None:
            CTX.assume(z3.And(t >= 0, t < (1 << bits)))
            return SInt(t, bits=bits)
        return SInt(t)
    return _native_input(name, 0)


def sbv(name, bits):
    """non-negative integer below 2**bits, represented as a bit vector"""
    if CTX.mode == "sym":
        t = z3.BitVec(name, BVW)
        CTX.register_input(name, "bv", t)
        CTX.assume(z3.ULT(t, z3.BitVecVal(1 << bits, BVW)))
        return SBV(t, bits)
    return _native_input(name, 0)


def sbool(name):
    if CTX.mode == "sym":
        t = z3.Bool(name)
        CTX.register_input(name, "bool", t)
        return SBool(t)
    return bool(_native_input(name, False))


def sstr(name):
    if CTX.mode == "sym":
        t = z3.String(name)
        CTX.register_input(name, "str", t)
        return SStr(t)
    return _native_input(name, "")


def sref(name):
    if CTX.mode == "sym":
        return SRef(z3.Int("ref_" + name))
    return ("ref", name)


def fresh_int(hint="k"):
    """a fresh universally quantified integer (sym mode only; native callers use forall_range)."""
    assert CTX.mode == "sym"
    return SInt(z3.Int(CTX.fresh_name(hint)))


def slist(name, kind, length, native_elems=None):
    """list of `length` opaque elements ('ref') or integers ('int')."""
    if CTX.mode == "sym":
        return VList.symbolic("L_" + name, kind, length)
    n = length
    if native_elems is not None:
        elems = list(native_elems)
    elif kind == "ref":
        elems = [("elem", name, i) for i in range(n)]
    else:
        elems = list(_native_input(name, [0] * n))
    return VList(elems) if CTX.mode == "interp" else elems


def mklist(items):
    return VList(list(items)) if modelled() else list(items)


def mkdict(d):
    return VDict(dict(d)) if modelled() else dict(d)


# ---------------------------------------------------------------------------- access to the real code
def _native_module(relpath):
    root = repo_root()
    if sys.path[0] != root:
        sys.path.insert(0, root)
    modname = relpath[:-3].replace("/", ".")
    if modname.endswith(".__init__"):
        modname = modname[: -len(".__init__")]
    m = importlib.import_module(modname)
    f = getattr(m, "__file__", "") or ""
    if not os.path.realpath(f).startswith(os.path.realpath(root)):
        raise RuntimeError("module %s was imported from %s, not from %s" % (modname, f, root))
    return m


def REAL(relpath, qualname):
    """the function under contract: interpreted from source (sym/interp) or the live object (native)."""
    if modelled():
        it = interp()
        m = it.module(relpath)
        v = m
        for part in qualname.split("."):
            v = it.getattr(v, part)

        def run(*args, **kwargs):
            from .values import FuncVal as _FV
            prev = (getattr(CTX, "target_key", None), getattr(CTX, "target_depth", 0))
            if isinstance(v, _FV):
                CTX.target_key, CTX.target_depth = it.func_key(v), 0
            try:
                return it.call(v, list(args), kwargs)
            finally:
                CTX.target_key, CTX.target_depth = prev

        run.val = v
        return run
    m = _native_module(relpath)
    v = m
    for part in qualname.split("."):
        v = getattr(v, part)
    return v


def CLS(relpath, name):
    if modelled():
        return interp().module(relpath).get(name)
    return getattr(_native_module(relpath), name)


def construct(cls, *args, **kwargs):
    """instantiate a class of the code under contract (runs its real __init__)"""
    if isinstance(cls, ClassVal):
        return interp().call(cls, list(args), kwargs)
    return cls(*args, **kwargs)


def OBJ(relpath, clsname, **fields):
    """an instance with the given fields, bypassing __init__ (the harness states the invariant)."""
    if modelled():
        cls = interp().module(relpath).get(clsname)
        return VObj(cls, dict(fields))
    cls = getattr(_native_module(relpath), clsname)
    o = cls.__new__(cls)
    for k, v in fields.items():
        object.__setattr__(o, k, v)
    return o


def GLOBAL(relpath, name):
    if modelled():
        return interp().module(relpath).get(name)
    return getattr(_native_module(relpath), name)


class override_global:
    """temporarily replace a module-level name of the code under contract (both modes)."""

    def __init__(self, relpath, name, value):
        self.relpath, self.name, self.value = relpath, name, value

    def __enter__(self):
        if modelled():
            self._old = CTX.overrides.get((self.relpath, self.name), _MISSING)
            CTX.overrides[(self.relpath, self.name)] = self.value
        else:
            m = _native_module(self.relpath)
            self._old = getattr(m, self.name, _MISSING)
            setattr(m, self.name, self.value)
        return self

    def __exit__(self, *a):
        if modelled():
            if self._old is _MISSING:
                CTX.overrides.pop((self.relpath, self.name), None)
            else:
                CTX.overrides[(self.relpath, self.name)] = self._old
        else:
            m = _native_module(self.relpath)
            if self._old is _MISSING:
                delattr(m, self.name)
            else:
                setattr(m, self.name, self._old)
        return False


_MISSING = object()


class Outcome:
    def __init__(self, value=None, exc=None, excobj=None):
        self.value = value
        self.exc = exc  # exception class name or None
        self.excobj = excobj

    @property
    def raised(self):
        return self.exc is not None

    def is_exc(self, *names):
        import builtins
        if self.exc is None:
            return False
        if self.exc in names:
            return True
        for n in names:
            c = getattr(builtins, n, None)
            if isinstance(c, type) and isinstance(self.excobj, c):
                return True
        return False

    def __repr__(self):
        return "Outcome(raise %s)" % self.exc if self.exc else "Outcome(%r)" % (self.value,)


def call(f, *args, **kwargs):
    """run the function under contract; exceptions it raises become an Outcome."""
    try:
        v = f(*args, **kwargs)
        if CTX.mode != "sym":
            CTX.outcomes.append("return")
        return Outcome(value=v)
    except PyRaise as p:
        if CTX.mode != "sym":
            CTX.outcomes.append(type(p.exc).__name__)
        return Outcome(exc=type(p.exc).__name__, excobj=p.exc)
    except (PathEnd, OutOfSubset):
        raise
    except Exception as e:
        if modelled():
            raise
        CTX.outcomes.append(type(e).__name__)
        return Outcome(exc=type(e).__name__, excobj=e)


# ---------------------------------------------------------------------------- generic accessors
def attr(o, name):
    if isinstance(o, (VObj, ClassVal)) or (modelled() and not isinstance(o, (int, str, tuple, slice))):
        return interp().getattr(o, name)
    return getattr(o, name)


def length(x):
    from .values import GhostVal as _GV
    if isinstance(x, _GV):
        return x.pv_len()
    if isinstance(x, VList):
        return x.len()
    if isinstance(x, AbstractSeq):
        return x.length
    if isinstance(x, SStr):
        return mk_int(z3.Length(x.t))
    if isinstance(x, VObj):
        return interp().call(interp().getattr(x, "__len__"), [], {})
    return len(x)


def item(x, i):
    if isinstance(x, (VList,)):
        return x.get(i)
    if isinstance(x, (SStr,)) or (isinstance(x, str) and is_sym(i)):
        from .hostmodels import str_getitem
        return str_getitem(interp(), x, i)
    return x[i]


def isinst(v, relpath, clsname):
    if modelled():
        from .hostmodels import py_isinstance
        return py_isinstance(interp(), v, interp().module(relpath).get(clsname))
    return isinstance(v, getattr(_native_module(relpath), clsname))


def same(a, b):
    """object identity / opaque-element equality"""
    if isinstance(a, SRef) or isinstance(b, SRef):
        return a == b
    if modelled():
        return interp().is_(a, b)
    return a is b or (isinstance(a, tuple) and a == b)


def is_list(v):
    return isinstance(v, (list, VList))


# ---------------------------------------------------------------------------- assume / check
class _NativeFail(Exception):
    pass


def requires(cond):
    if CTX.mode == "sym":
        if isinstance(cond, (SBool,)):
            CTX.assume_checked(cond.t)
        elif not cond:
            raise PathEnd("requires False")
    else:
        if not cond:
            raise PathEnd("requires False")


def assume_fact(cond):
    """ground instance of a trusted fact about an uninterpreted function (counted in the evidence)."""
    if CTX.mode == "sym":
        CTX.facts += 1
        CTX.assume(cond.t if isinstance(cond, SBool) else cond)


_CUR = {"prefix": ""}


def check(name, cond):
    full = _CUR["prefix"] + name
    if CTX.mode == "sym":
        c = cond.t if isinstance(cond, SBool) else (cond if isinstance(cond, bool) else bool(cond))
        return CTX.check(full, c).status == "proved"
    ok = bool(cond)
    CTX.native_log.append((full, ok))
    return ok


def forall_range(n, pred, hint="k"):
    """forall k in [0, n): pred(k)   (sym: fresh k; native/interp: enumeration)"""
    if CTX.mode == "sym":
        k = fresh_int(hint)
        body = implies(And(k >= 0, k < n), pred(k))
        if getattr(CTX, "assuming", 0):
            # in an assumed formula (loop invariant being assumed) the quantifier is a real one
            if isinstance(body, bool):
                return body
            return SBool(z3.ForAll([k.t], body.t))
        return body      # in a goal: k is a fresh (universally quantified) constant
    return all(bool(pred(k)) for k in range(n))


def lemma(harness_name, cond):
    """use an instance of a lemma that is proved by its own harness (dependency recorded)."""
    if CTX.mode == "sym":
        _LEMMAS.add(harness_name)
        CTX.assume(cond.t if isinstance(cond, SBool) else cond)


def raw_item(lst, idx):
    """element of a list at a (normalised) position without the IndexError outcome"""
    if isinstance(lst, VList) and not lst.is_concrete():
        from .values import _elem_wrap
        return _elem_wrap(lst.kind, z3.Select(lst.arr, _zint(idx)))
    if isinstance(lst, VList):
        if isinstance(idx, int):
            return lst.items[idx]
        snap = lst.snapshot()
        snap.make_symbolic("ref")
        from .values import _elem_wrap
        return _elem_wrap("ref", z3.Select(snap.arr, _zint(idx)))
    return lst[idx]


def py_lower(s):
    """str.lower (uninterpreted in sym mode)"""
    if isinstance(s, SStr):
        from .hostmodels import UF
        return SStr(UF["lower"](s.t))
    return s.lower()


def one_of(x, options):
    """x equals one of the constant options"""
    return Or(*[x == o for o in options])


def events(kind=None):
    return [e for e in CTX.events if kind is None or e[0] == kind]


def ghost(name, default=None):
    return CTX.ghost.setdefault(name, default)


def watch(kind, func_key, var, fn):
    CTX.watches[(kind, func_key, var)] = fn


def watch_call(func_key, fn):
    CTX.watches[("call", func_key)] = fn


def use_contract(func_key, fn):
    CTX.contracts[func_key] = fn


# ---------------------------------------------------------------------------- running a harness
class Case:
    def __init__(self, d):
        self.__dict__.update(d)
        self._d = dict(d)

    def __repr__(self):
        return ",".join("%s=%s" % kv for kv in sorted(self._d.items())) or "-"


class HarnessResult:
    def __init__(self, prop, name, case):
        self.prop, self.name, self.case = prop, name, case
        self.obligs = []       # list of dict
        self.undecided = []    # list of str
        self.paths = 0
        self.completed = 0
        self.cover_ok = False
        self.secs = 0.0
        self.functions = {}
        self.facts = 0
        self.crash = None
        self.events = []


def _has_quantifier(e, seen=None):
    seen = {} if seen is None else seen
    k = e.get_id()
    if k in seen:
        return seen[k]
    if z3.is_quantifier(e):
        seen[k] = True
        return True
    r = any(_has_quantifier(c, seen) for c in e.children())
    seen[k] = r
    return r


def _cover_reached():
    """vacuity guard: the end of the harness is reachable, i.e. the path condition is satisfiable (`assert False`
    there would be refuted).  Model finding under quantified assumptions (representation invariants, loop
    invariants) is not something z3 does reliably, so the test has two stages: the full path condition with a
    short budget; if z3 gives up, the quantifier-free part of it (every input constraint, `requires`, branch
    decision and ground fact) must be satisfiable."""
    CTX.solver.set("timeout", 4000)
    try:
        r = CTX.solver.check()
        if r == z3.sat:
            return True
        if r == z3.unsat:
            return False
        qf = z3.Solver()
        qf.set("timeout", 8000)
        seen = {}
        for a in CTX.solver.assertions():
            if not _has_quantifier(a, seen):
                qf.add(a)
        return qf.check() == z3.sat
    finally:
        CTX.solver.set("timeout", CTX.timeout_ms)


def run_sym(h, case_d, timeout_ms=20000, max_paths=None):
    """explore all paths of harness h for one case; returns HarnessResult"""
    reset_interp()
    CTX.reset_all()
    CTX.start_sym(timeout_ms)
    _LEMMAS.clear()
    _interp_mod.LOOP_HEADERS_SEEN.clear()
    res = HarnessResult(h.prop, h.name, repr(Case(case_d)))
    t0 = time.time()
    _CUR["prefix"] = "%s/%s[%s]/" % (h.prop, h.name, repr(Case(case_d)))
    work = [[]]
    limit = max_paths or h.max_paths
    canary_refuted = False
    # wall-clock budget of one harness case (the slowest case of the pinned tree takes about a minute; quick: 4 minutes, thorough: 16): a run past it is
    # undecided -- changed code may send the interpreter into a very long loop or an explosion of paths
    budget_s = float(os.environ.get("PYVC_CASE_BUDGET_S", "0") or 0) or (240.0 if timeout_ms <= 150000 else 960.0)
    CTX.deadline = t0 + budget_s
    CTX.ticks = 0
    while work:
        if res.paths >= limit:
            res.undecided.append("path budget %d exhausted" % limit)
            break
        if time.time() > CTX.deadline:
            res.undecided.append("time budget of %d s for one harness case used up after %d paths" % (budget_s, res.paths))
            break
        prefix = work.pop()
        CTX.reset_path(prefix)
        CTX.watches.clear()
        CTX.contracts.clear()
        CTX.overrides.clear()
        CTX.paths = res.paths
        res.paths += 1
        CTX.solver.push()
        try:
            try:
                h.fn(Case(case_d))
                res.completed += 1
                if not canary_refuted and _cover_reached():
                    canary_refuted = True
            except PathEnd:
                pass
            except TimeBudget:
                res.undecided.append("time budget of %d s for one harness case used up inside path %d" % (budget_s, res.paths))
                CTX.deadline = 0.0
            except PyRaise as p:
                r = CTX.solver.check()
                nm = _CUR["prefix"] + "no-unexpected-exception"
                if r == z3.sat:
                    CTX.obligs.append(Oblig(nm, "refuted", model=CTX.model_inputs(CTX.solver.model()), path=CTX.paths,
                                            detail=("imprecise: %s; " % CTX.imprecise if getattr(CTX, "imprecise", None) else "")
                                            + "unexpected %s: %s" % (type(p.exc).__name__, p.exc)))
                elif r == z3.unknown:
                    CTX.obligs.append(Oblig(nm, "unknown", path=CTX.paths, detail="unexpected %s" % type(p.exc).__name__))
            except OutOfSubset as e:
                if os.environ.get("PYVC_DEBUG"):
                    traceback.print_exc()
                res.undecided.append("out of subset: %s" % e)
            except RecursionError:
                res.undecided.append("interpreter recursion limit")
            except Exception as e:
                # the contract text itself failed on this code (an attribute it expects is gone, a value has another
                # shape ...): the contract does not apply to the code as it is now -- undecided, never an alarm.  On
                # the unchanged tree this shows up as baseline obligations that were not produced.
                if os.environ.get("PYVC_DEBUG"):
                    traceback.print_exc()
                res.undecided.append("harness not applicable to this code: %s: %s" % (type(e).__name__, str(e)[:200]))
        finally:
            CTX.solver.pop()
        res.facts = max(res.facts, CTX.facts)
        work.extend(CTX.worklist)
        CTX.worklist = []
    res.cover_ok = canary_refuted
    for ob in CTX.obligs:
        res.obligs.append(ob.as_dict() | ({"smt2": ob.smt2} if ob.smt2 else {}))
    res.functions = dict(interp().functions_seen)
    res.loop_headers = dict(_interp_mod.LOOP_HEADERS_SEEN)
    res.lemmas = sorted(_LEMMAS)
    res.secs = time.time() - t0
    return res


def run_concrete(h, case_d, inputs, mode):
    """run harness natively or through the interpreter on concrete inputs.
    returns (status, log) with status in ok | skipped | fail:<names> | exc:<Type>"""
    if mode == "interp":
        reset_interp()
    CTX.reset_all()
    CTX.mode = mode
    CTX.native_inputs = dict(inputs)
    _CUR["prefix"] = ""
    try:
        h.fn(Case(case_d))
    except PathEnd:
        return "skipped", list(CTX.native_log)
    except OutOfSubset as e:
        return "oos:%s" % e, list(CTX.native_log)
    except PyRaise as p:
        return "exc:%s" % type(p.exc).__name__, list(CTX.native_log)
    except Exception as e:
        return "exc:%s" % type(e).__name__, list(CTX.native_log) + [("traceback", traceback.format_exc()[-1500:])]
    finally:
        CTX.mode = "native"
    bad = [n for n, ok in CTX.native_log if not ok]
    if bad:
        return "fail:" + ",".join(sorted(set(bad))), list(CTX.native_log)
    return "ok", list(CTX.native_log)
