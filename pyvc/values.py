"""Heap values of the pyvc interpreter (lists, dicts, objects, functions, classes, modules)."""

import z3
from .ctx import CTX, OutOfSubset
from .sym import SInt, SBool, SRef, SStr, SBV, PyRaise, mk_int, mk_bool, _zint, is_sym

UNROLL_LIMIT = 256


class Opaque:
    """A value about which nothing is known (result of an uninterpreted callback, etc.)."""

    _n = 0

    def __init__(self, label="opaque"):
        self.label = label

    def __repr__(self):
        return "<Opaque %s>" % self.label


class AbstractSeq:
    """a sequence of unknown length whose elements are produced by `factory()` (fresh values of the
    right shape each time): used for e.g. graph.edges = pairs of ints."""

    def __init__(self, factory, label="seq", length=None):
        self.factory = factory
        self.label = label
        self.length = length

    def __repr__(self):
        return "<AbstractSeq %s>" % self.label


class EnumMember:
    def __init__(self, cls, name, value):
        self.cls = cls
        self.name = name
        self.value = value

    def __repr__(self):
        return "%s.%s" % (self.cls.name, self.name)

    def __hash__(self):
        return hash((self.cls.name, self.name))

    def __eq__(self, o):
        return self is o or (isinstance(o, EnumMember) and o.cls is self.cls and o.name == self.name)


class FuncVal:
    def __init__(self, module, node, qualname, scope=None, cls=None):
        self.module = module
        self.node = node
        self.qualname = qualname
        self.scope = scope  # enclosing Scope for nested functions / lambdas
        self.cls = cls
        self.kind = "function"  # function | staticmethod

    def __repr__(self):
        return "<FuncVal %s>" % self.qualname


class BoundMethod:
    def __init__(self, func, self_obj):
        self.func = func
        self.self_obj = self_obj


class PropertyVal:
    def __init__(self, fget, fset=None):
        self.fget = fget
        self.fset = fset


class HostFn:
    def __init__(self, fn, name=None, raw=False):
        self.fn = fn
        self.name = name or getattr(fn, "__name__", "host")
        self.raw = raw  # raw: fn(interp, args, kwargs)

    def __repr__(self):
        return "<HostFn %s>" % self.name


class HostModule:
    def __init__(self, name, attrs):
        self.name = name
        self.attrs = attrs

    def __repr__(self):
        return "<HostModule %s>" % self.name


class ClassVal:
    def __init__(self, name, module, node):
        self.name = name
        self.module = module
        self.node = node
        self.bases = []
        self.attrs = {}
        self.is_enum = False

    def mro(self):
        out = [self]
        for b in self.bases:
            if isinstance(b, ClassVal):
                for c in b.mro():
                    if c not in out:
                        out.append(c)
        return out

    def lookup(self, name):
        for c in self.mro():
            if name in c.attrs:
                return c.attrs[name], c
        return None, None

    def __repr__(self):
        return "<ClassVal %s>" % self.name


def born(obj):
    """creation serial of a heap object (lists, sets, dicts, instances): lets a loop tell the objects that existed before it"""
    obj._born = getattr(CTX, "births", 0)
    CTX.births = obj._born + 1


def note_write(obj):
    """an in-place change of a heap object (dynamic frame check of loops, interp._frame_check)"""
    w = getattr(CTX, "writes", None)
    if w is not None:
        w.append(obj)


class VObj:
    _ids = 0

    def __init__(self, cls, fields=None):
        self.cls = cls
        self.fields = fields if fields is not None else {}
        born(self)

    def __repr__(self):
        return "<VObj %s %s>" % (self.cls.name, list(self.fields))


class RangeVal:
    def __init__(self, start, stop, step=1):
        self.start, self.stop, self.step = start, stop, step

    def concrete(self):
        return all(isinstance(v, int) for v in (self.start, self.stop, self.step))


class IterVal:
    """iterator over a concrete python list of values (already materialised)."""

    def __init__(self, items):
        self.items = list(items)


class OneShotIter:
    """an iterator object (e.g. itertools.chain): yields the elements of `src` once, then nothing"""

    def __init__(self, src):
        self.src = src
        self.consumed = False

    def take(self):
        if self.consumed:
            return VList([])
        self.consumed = True
        return self.src


class VDict:
    """dict: concrete keys in .d; keys that contain symbolic values live in the association list .sym (kept
    pairwise distinct under the path condition by the interpreter's store)"""

    def __init__(self, d=None):
        self._d = dict(d or {})
        self._sym = []
        self.abstract = False  # abstract: changed in place by a loop whose contract says nothing about it
        born(self)

    def _content(self, what):
        if self.abstract:
            from .ctx import OutOfSubset
            raise OutOfSubset("content of a dict that a loop changes in place without a contract for it")
        return what

    d = property(lambda self: self._content(self._d), lambda self, v: setattr(self, "_d", v))
    sym = property(lambda self: self._content(self._sym), lambda self, v: setattr(self, "_sym", v))


class VSet:
    def __init__(self, items=None):
        self.items = list(items or [])
        self.abstract = False  # abstract: nothing is known about the elements (membership, length, truth: out of subset)
        born(self)


NONE_SENTINEL = z3.Int("py_None_sentinel")


def _elem_wrap(kind, term):
    if kind == "optint":
        # Optional[int]: None is a sentinel integer that is assumed distinct from every int stored
        if CTX.branch(term == NONE_SENTINEL):
            return None
        return mk_int(term)
    if kind == "int":
        return mk_int(term)
    if kind == "ref":
        return SRef(term)
    if kind == "opaque":
        return Opaque("elem")
    if kind == "str":
        return SStr(term)
    raise OutOfSubset("list kind %s" % kind)


def _range_sort(kind):
    return z3.StringSort() if kind == "str" else z3.IntSort()


def _default_elem(kind):
    return z3.StringVal("") if kind == "str" else z3.IntVal(0)


def kind_of_value(v):
    """element kind under which a value can be stored in a symbolic list"""
    if isinstance(v, (str, SStr)):
        return "str"
    if isinstance(v, (bool, SBool)):
        return "ref"
    if _zint(v) is not None:
        return "int"
    return "ref"


class GhostVal:
    """A value implemented by the harness: the abstract view of a data structure of the code under
    contract (a list of lists, a table, a set ...).  The interpreter forwards the operations the real
    code performs on it to the pv_* methods; an operation that is not provided is outside the subset.
    What the methods assume about the concrete structure is the representation invariant stated by the
    harness (and listed among its assumptions)."""

    pv_pytype = "object"      # 'list' | 'set' | 'dict' | 'tuple' | 'object'  (isinstance / truthiness)

    def _no(self, what):
        raise OutOfSubset("%s on ghost value %s" % (what, type(self).__name__))

    def pv_len(self):
        self._no("len")

    def pv_getitem(self, k):
        self._no("subscript")

    def pv_setitem(self, k, v):
        self._no("item assignment")

    def pv_iter(self):
        """python list of items, an AbstractSeq, or None"""
        self._no("iteration")

    def pv_contains(self, x):
        self._no("membership")

    def pv_getattr(self, name):
        self._no("attribute %s" % name)

    def pv_binop(self, opname, other, reflected):
        self._no("operator %s" % opname)

    def pv_unop(self, opname):
        self._no("unary %s" % opname)

    def pv_truthy(self):
        n = self.pv_len()
        return n != 0


class PointwiseSeq(GhostVal):
    """an immutable list of (possibly symbolic) length whose k-th element is fn(k), evaluated on demand; used for
    comprehensions over ghost sequences, their flattening by sum(..., []) and concatenations with ordinary lists"""
    pv_pytype = "list"

    def __init__(self, length, fn, label="pointwise"):
        self.length = length            # int or z3 int term (>= 0)
        self.fn = fn
        self.label = label

    def pv_len(self):
        return self.length if isinstance(self.length, int) else mk_int(self.length)

    def pv_getitem(self, k):
        if isinstance(k, slice):
            raise OutOfSubset("slice of a pointwise list")
        n = self.pv_len()
        if isinstance(k, (bool, SBool)):
            k = k + 0
        if not isinstance(k, (int, SInt)):
            raise PyRaise(TypeError("list indices must be integers or slices"))
        ok = (k >= -n) & (k < n) if not (isinstance(k, int) and isinstance(n, int)) else (-n <= k < n)
        if not bool(ok):
            raise PyRaise(IndexError("list index out of range"))
        neg = k < 0
        if isinstance(neg, bool):
            j = k + n if neg else k
        else:
            j = (k + n) if bool(neg) else k
        return self.fn(j)

    def pv_iter(self):
        if isinstance(self.length, int) and self.length <= UNROLL_LIMIT:
            return [self.fn(i) for i in range(self.length)]
        return None

    def pv_copy(self):
        return PointwiseSeq(self.length, self.fn, self.label)

    def pv_binop(self, opname, other, reflected):
        if opname != "Add":
            self._no("operator %s" % opname)
        return concat_seqs(other, self) if reflected else concat_seqs(self, other)


def _seq_len(x):
    if isinstance(x, PointwiseSeq):
        return x.pv_len()
    if isinstance(x, VList):
        return x.len()
    raise OutOfSubset("concatenation with %r" % (x,))


def _seq_get(x, j):
    if isinstance(x, PointwiseSeq):
        return x.fn(j)
    return x.get(j)


def concat_seqs(a, b):
    """a + b for lists of which at least one is pointwise: again pointwise"""
    la, lb = _seq_len(a), _seq_len(b)
    tot = la + lb
    length = tot if isinstance(tot, int) else z3.simplify(tot.t)

    def fn(j):
        if bool(j < la):
            return _seq_get(a, j)
        return _seq_get(b, j - la)

    return PointwiseSeq(length, fn, "concat")


_obj_ids = {}


def _zb(b):
    return z3.BoolVal(b) if isinstance(b, bool) else b.t


def _elem_unwrap(kind, v):
    if kind == "optint":
        if v is None:
            return NONE_SENTINEL
        z = _zint(v)
        if z is None:
            raise OutOfSubset("non-int stored in an Optional[int] list")
        CTX.assume(z != NONE_SENTINEL)
        return z
    if kind == "int":
        z = _zint(v)
        if z is None:
            raise OutOfSubset("non-int stored in an int list")
        return z
    if kind == "opaque":
        return z3.Int(CTX.fresh_name("oq"))
    if kind == "str":
        if isinstance(v, str):
            return z3.StringVal(v)
        if isinstance(v, SStr):
            return v.t
        raise OutOfSubset("non-str stored in a str list")
    if kind == "ref":
        if isinstance(v, SRef):
            return v.t
        if isinstance(v, (VObj, VList, tuple)) or v is None or isinstance(v, (str, EnumMember, Opaque)):
            k = id(v)
            if k not in _obj_ids:
                _obj_ids[k] = (len(_obj_ids), v)
            return z3.IntVal(-1000000 - _obj_ids[k][0])
        z = _zint(v)
        if z is not None:
            return z
        k = id(v)
        if k not in _obj_ids:
            _obj_ids[k] = (len(_obj_ids), v)
        return z3.IntVal(-1000000 - _obj_ids[k][0])
    raise OutOfSubset("list kind %s" % kind)


class VList:
    """Python list.  Either `items` (concrete length, arbitrary element values) or a symbolic
    representation (length term, SMT array Int->Int, element kind 'int' or 'ref')."""

    def __init__(self, items=None, length=None, arr=None, kind=None):
        self.items = items if (items is not None or length is not None) else []
        self.length = length
        self.arr = arr
        self.kind = kind
        born(self)

    # -- constructors
    @staticmethod
    def symbolic(name, kind, length):
        arr = z3.Array(name, z3.IntSort(), _range_sort(kind))
        lz = _zint(length)
        return VList(None, lz, arr, kind)

    def is_concrete(self):
        return self.items is not None

    def make_symbolic(self, kind):
        """switch representation in place (used when a loop havocs the list)."""
        if self.items is None:
            return
        arr = z3.K(z3.IntSort(), _default_elem(kind))
        for i, v in enumerate(self.items):
            arr = z3.Store(arr, i, _elem_unwrap(kind, v))
        self.length = z3.IntVal(len(self.items))
        self.arr = arr
        self.kind = kind
        self.items = None

    def havoc(self, kind=None):
        if self.items is not None:
            self.make_symbolic(kind or "ref")
        if kind is not None:
            self.kind = kind
        self.length = z3.Int(CTX.fresh_name("len"))
        self.arr = z3.Array(CTX.fresh_name("arr"), z3.IntSort(), _range_sort(self.kind))
        CTX.assume(self.length >= 0)

    def snapshot(self):
        if self.items is not None:
            return VList(list(self.items))
        return VList(None, self.length, self.arr, self.kind)

    # -- basic protocol
    def len(self):
        if self.items is not None:
            return len(self.items)
        return mk_int(self.length)

    def _norm_index(self, i):
        """python index normalisation; raises IndexError as outcome."""
        n = self.len()
        if isinstance(i, (bool, SBool)):
            i = i + 0
        if isinstance(i, int) and isinstance(n, int):
            if not -n <= i < n:
                raise PyRaise(IndexError("list index out of range"))
            return i % n if n else i
        lo, hi = (i >= -n), (i < n)
        if isinstance(lo, bool) and isinstance(hi, bool):
            ok = lo and hi
        else:
            ok = mk_bool(z3.And(_zb(lo), _zb(hi)))
        if not bool(ok):
            raise PyRaise(IndexError("list index out of range"))
        neg = i < 0
        if isinstance(neg, bool):
            return i + n if neg else i
        return mk_int(z3.If(neg.t, _zint(i) + _zint(n), _zint(i)))

    def get(self, i):
        if isinstance(i, slice):
            return self.slice(i)
        if not isinstance(i, (int, SInt, SBool, SBV)):
            raise PyRaise(TypeError("list indices must be integers or slices"))
        if isinstance(i, SBV):
            i = i.to_int()
        j = self._norm_index(i)
        if self.items is not None:
            if isinstance(j, int):
                return self.items[j]
            # symbolic index into a concrete list: case split
            for k in range(len(self.items)):
                if bool(j == k):
                    return self.items[k]
            raise PyRaise(IndexError("list index out of range"))
        return _elem_wrap(self.kind, z3.Select(self.arr, _zint(j)))

    def set(self, i, v):
        j = self._norm_index(i)
        note_write(self)
        if self.items is not None:
            if isinstance(j, int):
                self.items[j] = v
                return
            for k in range(len(self.items)):
                if bool(j == k):
                    self.items[k] = v
                    return
            raise PyRaise(IndexError("list assignment index out of range"))
        self.arr = z3.Store(self.arr, _zint(j), _elem_unwrap(self.kind, v))

    __getitem__ = get

    def append(self, v):
        note_write(self)
        if self.items is not None:
            self.items.append(v)
        else:
            self.arr = z3.Store(self.arr, self.length, _elem_unwrap(self.kind, v))
            self.length = z3.simplify(self.length + 1)

    def extend(self, other_items):
        """other_items: python list of values or a VList"""
        note_write(self)
        if isinstance(other_items, VList):
            if other_items.items is not None:
                other_items = other_items.items
            else:
                o = other_items
                if self.items is not None:
                    self.make_symbolic(o.kind)
                if self.kind != o.kind and z3.is_int_value(z3.simplify(self.length)) and z3.simplify(self.length).as_long() == 0:
                    self.kind = o.kind
                    self.arr = o.arr
                    self.length = o.length
                    return
                if self.kind != o.kind:
                    # mixed element kinds: keep the length, forget the contents
                    la = self.length
                    self.kind = "ref"
                    self.arr = z3.Array(CTX.fresh_name("mixed"), z3.IntSort(), z3.IntSort())
                    self.length = z3.simplify(la + o.length)
                    return
                k = z3.Int(CTX.fresh_name("k"))
                la = self.length
                self.arr = z3.Lambda([k], z3.If(k < la, z3.Select(self.arr, k), z3.Select(o.arr, k - la)))
                self.length = z3.simplify(la + o.length)
                return
        for v in list(other_items):
            self.append(v)

    def concat(self, other):
        r = self.snapshot()
        r.extend(other)
        return r

    def slice(self, s):
        if self.items is not None and all(
            v is None or (isinstance(v, int)) for v in (s.start, s.stop, s.step)
        ):
            return VList(self.items[s])
        # CPython list slicing on a symbolic list / with symbolic bounds: the elements selected by
        # range(*slice.indices(len)) in order (model = specs/pyslice.py, validated against CPython)
        import sys as _sys
        import os as _os
        root = _os.path.dirname(_os.path.dirname(_os.path.abspath(__file__)))
        if root not in _sys.path:
            _sys.path.insert(0, root)
        from specs import pyslice
        if s.step is not None and not isinstance(s.step, int):
            if CTX.branch(_zint(s.step) == 0):
                raise PyRaise(ValueError("slice step cannot be zero"))
        elif s.step == 0:
            raise PyRaise(ValueError("slice step cannot be zero"))
        src = self.snapshot()
        if src.items is not None:
            kind = "int" if all(_zint(x) is not None and not isinstance(x, (bool, SBool)) for x in src.items) else "ref"
            src.make_symbolic(kind)
        n = src.len()
        s0, e0, st0 = pyslice.indices(n, s.start, s.stop, s.step)
        cnt = pyslice.range_len(s0, e0, st0)
        k = z3.Int(CTX.fresh_name("sk"))
        arr = z3.Lambda([k], z3.Select(src.arr, _zint(s0) + k * _zint(st0)))
        return VList(None, z3.simplify(_zint(cnt)), arr, src.kind)

    def iter_items(self):
        if self.items is None:
            raise OutOfSubset("iteration over a symbolic-length list without an invariant")
        return list(self.items)

    def __repr__(self):
        if self.items is not None:
            return "VList(%r)" % (self.items,)
        return "VList(sym len=%s kind=%s)" % (self.length, self.kind)
