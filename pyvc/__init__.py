"""pyvc: a small verification-condition generator for a subset of Python (see DESIGN.md 1.3)."""
