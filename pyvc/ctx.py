"""Execution context of pyvc: decision-replay path exploration, path condition, obligations.

One `Ctx` lives per process (`CTX`).  A *harness* (a contract written as ordinary Python, see
pyvc/api.py) is run repeatedly; each run follows one path.  Whenever a symbolic boolean is asked
for its truth value (`SBool.__bool__`, or the interpreter evaluating an `if`), `Ctx.branch` either
replays the recorded decision or asks the solver which sides are feasible, follows one and queues
the other.  Because paths are re-executed from the start, no state has to be copied.
"""

import time
import z3


class PathEnd(Exception):
    """The current path ends here (infeasible, or a loop-preservation path that is finished)."""


class TimeBudget(BaseException):
    """raised by the interpreter when a harness runs past its wall-clock budget (BaseException: no handler of the code under test
    or of a harness may swallow it)"""


class OutOfSubset(Exception):
    """The code under contract uses something pyvc does not model: verdict `undecided`."""


class Budget(Exception):
    pass


class Oblig:
    __slots__ = ("name", "status", "model", "secs", "solver", "path", "detail", "smt2")

    def __init__(self, name, status, model=None, secs=0.0, solver="z3", path=0, detail="", smt2=None):
        self.name = name
        self.status = status  # proved | refuted | unknown
        self.model = model
        self.secs = secs
        self.solver = solver
        self.path = path
        self.detail = detail
        self.smt2 = smt2

    def as_dict(self):
        return dict(name=self.name, status=self.status, model=self.model, secs=round(self.secs, 4),
                    solver=self.solver, path=self.path, detail=self.detail)


class Ctx:
    def __init__(self):
        self.mode = "native"  # native | sym | interp
        self.timeout_ms = 20000
        self.branch_timeout_ms = 3000
        self.reset_all()

    # ------------------------------------------------------------------ lifecycle
    def reset_all(self):
        self.solver = None
        self.worklist = []
        self.obligs = []
        self.paths = 0
        self.paths_completed = 0
        self.native_inputs = {}
        self.native_log = []
        self.outcomes = []
        self.watches = {}
        self.contracts = {}
        self.overrides = {}
        self.reset_path([])

    def reset_path(self, decisions):
        self.decisions = list(decisions)
        self.pos = 0
        self.fresh = 0
        self.inputs = {}
        self.input_order = []
        self.events = []
        self.ghost = {}
        self.facts = 0
        self.assumed = []
        self.scoped = 0
        self.imprecise = None
        self.births = 0      # creation serial of heap objects (dynamic frame check of loops)
        self.writes = []     # heap objects changed in place, in order

    def start_sym(self, timeout_ms=None):
        self.mode = "sym"
        self.slow_feasibility = False
        if timeout_ms:
            self.timeout_ms = timeout_ms
        self.solver = z3.Solver()
        self.solver.set("timeout", self.timeout_ms)

    # ------------------------------------------------------------------ symbols
    def fresh_name(self, hint="t"):
        self.fresh += 1
        return "%s!%d" % (hint, self.fresh)

    def register_input(self, name, kind, term):
        self.inputs[name] = (kind, term)
        self.input_order.append(name)

    # ------------------------------------------------------------------ branching
    def _feasible(self, c):
        # short budget: `unknown` counts as feasible (sound: an infeasible path only adds
        # vacuously true obligations)
        # z3 refutes quickly (E-matching) but may search long for a model under quantified assumptions: once a
        # feasibility test has come back `unknown` in this harness run, later ones get a much shorter budget
        self.solver.set("timeout", self.branch_timeout_ms if not getattr(self, "slow_feasibility", False) else 300)
        r = self.solver.check(c)
        self.solver.set("timeout", self.timeout_ms)
        if r == z3.unknown:
            self.slow_feasibility = True
        return r != z3.unsat

    def assume(self, cond):
        if isinstance(cond, bool):
            if not cond:
                raise PathEnd("assume False")
            return
        self.solver.add(cond)
        self.assumed.append(cond)

    def assume_checked(self, cond):
        """assume + feasibility test (used for `requires`, so vacuity is noticed)."""
        self.assume(cond)
        # short budget: `unknown` counts as feasible (as in branch(): an infeasible path only adds vacuous obligations;
        # vacuity of the whole harness is guarded separately by the cover check)
        self.solver.set("timeout", self.branch_timeout_ms if not getattr(self, "slow_feasibility", False) else 300)
        try:
            r = self.solver.check()
        finally:
            self.solver.set("timeout", self.timeout_ms)
        if r == z3.unknown:
            self.slow_feasibility = True
        if r == z3.unsat:
            raise PathEnd("infeasible")

    def branch(self, cond):
        if isinstance(cond, bool):
            return cond
        cond = z3.simplify(cond)
        if z3.is_true(cond):
            return True
        if z3.is_false(cond):
            return False
        if self.pos < len(self.decisions):
            c = self.decisions[self.pos]
            self.pos += 1
            self.solver.add(cond if c else z3.Not(cond))
            return bool(c)
        t = self._feasible(cond)
        f = self._feasible(z3.Not(cond))
        if t and f and self.scoped:
            raise OutOfSubset("data-dependent branch inside a pointwise (comprehension) scope")
        if t and f:
            self.worklist.append(self.decisions[:] + [0])
            c = 1
        elif t:
            c = 1
        elif f:
            c = 0
        else:
            raise PathEnd("infeasible")
        self.decisions.append(c)
        self.pos += 1
        self.solver.add(cond if c else z3.Not(cond))
        return bool(c)

    def push_scope(self, cond):
        """local assumption (for evaluating a comprehension element at an arbitrary in-range index)"""
        self.solver.push()
        self.solver.add(cond)
        self.scoped += 1

    def pop_scope(self):
        self.scoped -= 1
        self.solver.pop()

    def choose(self, n):
        """Non-deterministic choice among n alternatives, all explored."""
        if self.pos < len(self.decisions):
            c = self.decisions[self.pos]
            self.pos += 1
            return c
        for alt in range(1, n):
            self.worklist.append(self.decisions[:] + [alt])
        self.decisions.append(0)
        self.pos += 1
        return 0

    # ------------------------------------------------------------------ obligations
    def model_inputs(self, model):
        out = {}
        for name in self.input_order:
            kind, term = self.inputs[name]
            try:
                v = model.eval(term, model_completion=True)
                if kind == "int":
                    out[name] = v.as_long()
                elif kind == "bool":
                    out[name] = z3.is_true(v)
                elif kind == "str":
                    out[name] = v.as_string()
                elif kind == "bv":
                    out[name] = v.as_long()
                else:
                    out[name] = str(v)
            except Exception as e:  # pragma: no cover
                out[name] = "?%s" % e
        return out

    def check(self, name, cond):
        """Decide `path condition => cond`.  Returns the Oblig."""
        t0 = time.time()
        if isinstance(cond, bool):
            if cond:
                ob = Oblig(name, "proved", secs=0.0, solver="const", path=self.paths)
            else:
                r = self.solver.check()
                if r == z3.unsat:
                    ob = Oblig(name, "proved", secs=time.time() - t0, path=self.paths, detail="vacuous path")
                else:
                    m = self.model_inputs(self.solver.model()) if r == z3.sat else None
                    ob = Oblig(name, "refuted" if r == z3.sat else "unknown", model=m,
                               secs=time.time() - t0, path=self.paths,
                               detail=("imprecise: " + self.imprecise + "; " if getattr(self, "imprecise", None) else "") + "condition is literally False")
            self.obligs.append(ob)
            return ob
        self.solver.push()
        self.solver.add(z3.Not(cond))
        r = self.solver.check()
        secs = time.time() - t0
        if r == z3.unsat:
            ob = Oblig(name, "proved", secs=secs, path=self.paths)
        elif r == z3.sat:
            ob = Oblig(name, "refuted", model=self.model_inputs(self.solver.model()), secs=secs,
                       path=self.paths, detail=("imprecise: " + self.imprecise) if getattr(self, "imprecise", None) else "")
        else:
            smt2 = None
            try:
                smt2 = self.solver.to_smt2()
            except Exception:
                pass
            ob = Oblig(name, "unknown", secs=secs, path=self.paths,
                       detail=self.solver.reason_unknown(), smt2=smt2)
        self.solver.pop()
        if ob.status == "proved":
            # assert-then-assume: a proved condition may be used by later obligations of the path
            self.solver.add(cond)
        self.obligs.append(ob)
        return ob

    def event(self, kind, **data):
        self.events.append((kind, data))


CTX = Ctx()
