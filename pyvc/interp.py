"""AST interpreter for the Python subset pyvc verifies.

The functions under contract are read from `$VERIF_REPO` (default /repo) on every run; nothing is
copied by hand.  The extraction drops: type annotations, docstrings, `@overload` stubs,
`typing.cast(T, e)` (treated as `e`), `# type:` comments.  Anything else that is not modelled
raises `OutOfSubset` (verdict: undecided).
"""

import ast
import time as _time
import hashlib
import os

import z3

from .ctx import CTX, PathEnd, OutOfSubset, TimeBudget
from .sym import (SInt, SBool, SStr, SRef, SBV, SReal, PyRaise, mk_int, mk_bool, mk_str, _zint, _zbool, zstr,
                  is_sym, ite)
from .values import (Opaque, AbstractSeq, OneShotIter, EnumMember, FuncVal, BoundMethod, PropertyVal, HostFn, HostModule, ClassVal, VObj,
                     RangeVal, IterVal, VDict, VSet, VList, GhostVal, PointwiseSeq, UNROLL_LIMIT, note_write)


def repo_root():
    return os.environ.get("VERIF_REPO", "/repo")



def deep_sym(x):
    if isinstance(x, tuple):
        return any(deep_sym(y) for y in x)
    return is_sym(x)


class _Return(Exception):
    def __init__(self, value):
        self.value = value


class _Break(Exception):
    pass


class _Continue(Exception):
    pass


class Scope:
    def __init__(self, module, parent=None, qualname="<module>", func=None):
        self.vars = {}
        self.module = module
        self.parent = parent
        self.qualname = qualname
        self.func = func
        self.nonlocals = set()
        self.globals_ = set()
        self.cls = None  # class whose method this is (for super() and name mangling)

    def lookup(self, name):
        s = self
        while s is not None:
            if name in s.vars:
                return s.vars[name]
            s = s.parent
        return self.module.get(name)

    def assign(self, name, v):
        if name in self.globals_:
            self.module.set_global(name, v)
            return
        if name in self.nonlocals:
            s = self.parent
            while s is not None:
                if name in s.vars:
                    s.vars[name] = v
                    return
                s = s.parent
        self.vars[name] = v


_MISSING = object()


class ModuleVal:
    def __init__(self, interp, relpath):
        self.interp = interp
        self.relpath = relpath
        self.path = os.path.join(repo_root(), relpath)
        with open(self.path) as f:
            self.source = f.read()
        self.tree = ast.parse(self.source)
        self.cache = {}
        self.defs = {}
        self._index(self.tree.body)
        self.scope = Scope(self)

    def _index(self, body):
        for st in body:
            if isinstance(st, (ast.FunctionDef, ast.ClassDef)):
                if isinstance(st, ast.FunctionDef) and _is_overload(st):
                    continue
                self.defs[st.name] = st
            elif isinstance(st, ast.Assign):
                for t in st.targets:
                    if isinstance(t, ast.Name) and t.id not in self.defs:
                        self.defs[t.id] = st
            elif isinstance(st, ast.AnnAssign):
                if isinstance(st.target, ast.Name) and st.value is not None and st.target.id not in self.defs:
                    self.defs[st.target.id] = st
            elif isinstance(st, (ast.Import, ast.ImportFrom)):
                for a in st.names:
                    nm = a.asname or a.name.split(".")[0]
                    if nm not in self.defs:
                        self.defs[nm] = (st, a)
            elif isinstance(st, ast.Try):
                self._index(st.body)
            elif isinstance(st, ast.If):
                # `if TYPE_CHECKING:` blocks are dropped
                t = st.test
                if isinstance(t, ast.Name) and t.id == "TYPE_CHECKING":
                    continue
                self._index(st.body)

    def set_global(self, name, v):
        self.cache[name] = v

    def get(self, name):
        ov = CTX.overrides.get((self.relpath, name), _MISSING)
        if ov is not _MISSING:
            return ov
        if name in self.cache:
            return self.cache[name]
        if name in self.defs:
            d = self.defs[name]
            self.cache[name] = v = self._eval_def(name, d)
            return v
        if name in self.interp.builtins:
            return self.interp.builtins[name]
        raise PyRaise(NameError("name %r is not defined (module %s)" % (name, self.relpath)))

    def _eval_def(self, name, d):
        it = self.interp
        if isinstance(d, ast.FunctionDef):
            return FuncVal(self, d, d.name, scope=None)
        if isinstance(d, ast.ClassDef):
            return it.build_class(d, self.scope, d.name)
        if isinstance(d, tuple):
            st, a = d
            return it.do_import(self, st, a)
        if isinstance(d, ast.Assign):
            v = it.eval(d.value, self.scope)
            if len(d.targets) == 1 and isinstance(d.targets[0], ast.Name):
                return v
            raise OutOfSubset("module-level unpacking assignment of %s" % name)
        if isinstance(d, ast.AnnAssign):
            return it.eval(d.value, self.scope)
        raise OutOfSubset("module-level definition of %s" % name)

    def source_hash(self, node):
        seg = ast.get_source_segment(self.source, node) or ""
        return hashlib.sha256(seg.encode()).hexdigest()[:16]


def _is_overload(fd):
    for d in fd.decorator_list:
        if isinstance(d, ast.Name) and d.id == "overload":
            return True
        if isinstance(d, ast.Attribute) and d.attr == "overload":
            return True
    return False


def _assigned_names(stmts):
    out = set()

    class V(ast.NodeVisitor):
        def visit_Name(self, n):
            if isinstance(n.ctx, (ast.Store, ast.Del)):
                out.add(n.id)

        def visit_FunctionDef(self, n):
            out.add(n.name)

        def visit_Lambda(self, n):
            pass

        def visit_ListComp(self, n):
            pass

        visit_SetComp = visit_DictComp = visit_GeneratorExp = visit_ListComp

    for s in stmts:
        V().visit(s)
    return out


_MUTATORS = {"append", "extend", "add", "insert", "pop", "remove", "clear", "update", "sort", "reverse", "discard", "setdefault", "popitem"}


def _mutated_names(stmts):
    """local names whose object is changed in place by the statements: x.append(..), x[i] = .., x[i] += .., del x[i]"""
    out = set()

    def base(n):
        while isinstance(n, (ast.Subscript, ast.Attribute)):
            n = n.value
        return n.id if isinstance(n, ast.Name) else None

    class V(ast.NodeVisitor):
        def visit_Call(self, n):
            if isinstance(n.func, ast.Attribute) and n.func.attr in _MUTATORS:
                b = base(n.func.value)
                if b is not None:
                    out.add(b)
            self.generic_visit(n)

        def visit_Subscript(self, n):
            if isinstance(n.ctx, (ast.Store, ast.Del)):
                b = base(n.value)
                if b is not None:
                    out.add(b)
            self.generic_visit(n)

        def visit_FunctionDef(self, n):
            pass

        def visit_Lambda(self, n):
            pass

    for s in stmts:
        V().visit(s)
    return out


def loop_header(s):
    """fingerprint of a loop statement: what it iterates over / its guard (not its body)"""
    try:
        if isinstance(s, ast.For):
            return "for %s in %s" % (ast.unparse(s.target), ast.unparse(s.iter))
        return "while %s" % ast.unparse(s.test)
    except Exception:
        return "?"


EXPECTED_LOOP_HEADERS = {}      # (func key, ordinal) -> header on the tree the contracts were written for (baseline)
LOOP_HEADERS_SEEN = {}


def _loops_in_order(fd):
    loops = []

    def walk(stmts):
        for s in stmts:
            if isinstance(s, (ast.FunctionDef, ast.ClassDef)):
                continue
            if isinstance(s, (ast.For, ast.While)):
                loops.append(s)
            for fld in ("body", "orelse", "finalbody"):
                if hasattr(s, fld):
                    walk(getattr(s, fld))
            if isinstance(s, ast.Try):
                for h in s.handlers:
                    walk(h.body)

    walk(fd.body)
    return loops


class LoopSpec:
    def __init__(self, inv=None, modifies=(), types=None, name=None, at_head=None, at_end=None, ghost_havoc=None):
        self.ghost_havoc = ghost_havoc  # havocs harness-level ghost state the loop body modifies
        self.at_head = at_head  # called at the start of the iteration path (lemma instances); its
        self.at_end = at_end    # result is handed to at_end(ns, token) after the body (one-step effect)
        self.inv = inv
        self.modifies = list(modifies)
        self.types = dict(types or {})
        self.name = name
        self.at_exit = None     # called on the normal-exit path, in the state the loop was left in


class NS:
    """view of a function's variables handed to invariants and watches."""

    def __init__(self, scope, old=None, extra=None):
        object.__setattr__(self, "_scope", scope)
        object.__setattr__(self, "_old", old)
        object.__setattr__(self, "_extra", extra or {})

    def __getattr__(self, name):
        if name == "old":
            return _OldNS(self._old)
        if name in self._extra:
            return self._extra[name]
        try:
            return self._scope.lookup(name)
        except PyRaise:
            raise OutOfSubset("contract refers to unknown variable %r" % name)


class _OldNS:
    def __init__(self, d):
        self._d = d or {}

    def __getattr__(self, name):
        if name in self._d:
            return self._d[name]
        raise OutOfSubset("contract refers to unknown old variable %r" % name)


class Interp:
    def __init__(self):
        from . import hostmodels

        self.modules = {}
        self.builtins = hostmodels.make_builtins(self)
        self.host_modules = hostmodels.make_host_modules(self)
        self.loop_specs = {}
        self.depth = 0
        self.functions_seen = {}

    # ------------------------------------------------------------------ modules / imports
    def module(self, relpath):
        if relpath not in self.modules:
            self.modules[relpath] = ModuleVal(self, relpath)
        return self.modules[relpath]

    def _resolve_module_name(self, modname):
        """dotted absolute module name -> ModuleVal | HostModule | None"""
        rel = modname.replace(".", "/")
        for cand in (rel + ".py", rel + "/__init__.py"):
            if os.path.exists(os.path.join(repo_root(), cand)):
                return self.module(cand)
        if modname in self.host_modules:
            return self.host_modules[modname]
        return None

    def do_import(self, module, st, alias):
        if isinstance(st, ast.Import):
            name = alias.name
            if alias.asname is None and "." in name:
                top = name.split(".")[0]
                m = self._resolve_module_name(top)
            else:
                m = self._resolve_module_name(name)
            if m is None:
                return self.import_unknown(name)
            return m
        # from X import name
        pkg_parts = module.relpath.split("/")[:-1]
        if st.level:
            base = pkg_parts[: len(pkg_parts) - (st.level - 1)]
            modname = ".".join(base + ([st.module] if st.module else []))
        else:
            modname = st.module
        m = self._resolve_module_name(modname)
        if m is None:
            raise OutOfSubset("import from unknown module %s" % modname)
        if isinstance(m, HostModule):
            if alias.name in m.attrs:
                return m.attrs[alias.name]
            return Opaque("%s.%s" % (modname, alias.name))
        # submodule?
        sub = self._resolve_module_name(modname + "." + alias.name)
        if sub is not None and (alias.name not in m.defs or isinstance(m.defs[alias.name], tuple)):
            return sub
        return m.get(alias.name)

    def import_unknown(self, name):
        """`import name` of a module that is neither in the repo nor modelled: the harness decides
        through CTX.ghost['importable'] whether it exists."""
        imp = CTX.ghost.get("importable")
        if imp is not None and name in imp:
            ok = imp[name]
            if not bool(ok):
                raise PyRaise(ImportError("No module named %r" % name))
            return HostModule(name, {})
        raise OutOfSubset("import of unmodelled module %s" % name)

    # ------------------------------------------------------------------ classes
    def build_class(self, node, scope, qualname):
        cls = ClassVal(node.name, scope.module, node)
        for b in node.bases:
            try:
                bv = self.eval(b, scope)
            except OutOfSubset:
                bv = Opaque("base")
            cls.bases.append(bv)
            if isinstance(bv, HostFn) and bv.name == "Enum":
                cls.is_enum = True
            if isinstance(bv, ClassVal) and bv.is_enum:
                cls.is_enum = True
        cscope = Scope(scope.module, scope, qualname)
        cscope.cls = cls
        counter = 0
        for st in node.body:
            if isinstance(st, ast.FunctionDef):
                if _is_overload(st):
                    continue
                f = FuncVal(scope.module, st, qualname + "." + st.name, scope=None, cls=cls)
                v = f
                for d in st.decorator_list:
                    if isinstance(d, ast.Name) and d.id == "property":
                        v = PropertyVal(f)
                    elif isinstance(d, ast.Attribute) and d.attr == "setter":
                        prev = cls.attrs.get(st.name)
                        v = PropertyVal(prev.fget if isinstance(prev, PropertyVal) else None, f)
                    elif isinstance(d, ast.Name) and d.id == "staticmethod":
                        f.kind = "staticmethod"
                    else:
                        raise OutOfSubset("decorator on %s" % f.qualname)
                cls.attrs[st.name] = v
            elif isinstance(st, ast.Assign):
                if cls.is_enum and isinstance(st.value, ast.Call) and getattr(st.value.func, "id", None) == "auto":
                    counter += 1
                    for t in st.targets:
                        cls.attrs[t.id] = EnumMember(cls, t.id, counter)
                else:
                    v = self.eval(st.value, cscope)
                    for t in st.targets:
                        if isinstance(t, ast.Name):
                            cls.attrs[t.id] = v
                            cscope.vars[t.id] = v
            elif isinstance(st, ast.AnnAssign):
                if st.value is not None and isinstance(st.target, ast.Name):
                    cls.attrs[st.target.id] = self.eval(st.value, cscope)
            elif isinstance(st, ast.Expr) and isinstance(st.value, ast.Constant):
                pass
            elif isinstance(st, ast.Pass):
                pass
            else:
                raise OutOfSubset("class body statement %s" % type(st).__name__)
        return cls

    def instantiate(self, cls, args, kwargs):
        if cls.is_enum:
            raise OutOfSubset("enum call")
        obj = VObj(cls)
        init, _ = cls.lookup("__init__")
        if init is not None:
            self.call(BoundMethod(init, obj), args, kwargs)
        elif args or kwargs:
            raise PyRaise(TypeError("%s() takes no arguments" % cls.name))
        return obj

    # ------------------------------------------------------------------ attribute access
    def getattr(self, v, name):
        if isinstance(v, VObj):
            if name in v.fields:
                return v.fields[name]
            a, owner = v.cls.lookup(name)
            if a is None:
                if name == "__class__":
                    return v.cls
                raise PyRaise(AttributeError("%s object has no attribute %r" % (v.cls.name, name)))
            if isinstance(a, FuncVal):
                return a if a.kind == "staticmethod" else BoundMethod(a, v)
            if isinstance(a, PropertyVal):
                return self.call(BoundMethod(a.fget, v), [], {})
            return a
        if isinstance(v, ClassVal):
            a, owner = v.lookup(name)
            if a is None:
                if name == "__name__":
                    return v.name
                raise PyRaise(AttributeError("class %s has no attribute %r" % (v.name, name)))
            return a
        if isinstance(v, ModuleVal):
            return v.get(name)
        if isinstance(v, HostModule):
            if name in v.attrs:
                return v.attrs[name]
            raise OutOfSubset("unmodelled attribute %s.%s" % (v.name, name))
        from . import hostmodels

        return hostmodels.host_getattr(self, v, name)

    def setattr(self, v, name, val):
        if isinstance(v, SRef) and CTX.ghost.get("sref_setattr") is not None:
            CTX.ghost["sref_setattr"](v, name, val)
            return
        if isinstance(v, VObj):
            a, _ = v.cls.lookup(name)
            if isinstance(a, PropertyVal):
                if a.fset is None:
                    raise PyRaise(AttributeError("can't set attribute"))
                self.call(BoundMethod(a.fset, v), [val], {})
                return
            note_write(v)
            v.fields[name] = val
            return
        if isinstance(v, ModuleVal):
            v.set_global(name, val)
            return
        raise OutOfSubset("attribute assignment on %r" % (v,))

    # ------------------------------------------------------------------ truthiness / operators
    def truthy(self, v):
        if v is None:
            return False
        if isinstance(v, (bool, int, float, str, tuple)):
            return bool(v)
        if isinstance(v, (SBool, SInt, SStr, SBV)):
            return bool(v)
        if isinstance(v, VList):
            n = v.len()
            return (n != 0) if isinstance(n, int) else bool(n != 0)
        if isinstance(v, GhostVal):
            return self.truthy(v.pv_truthy())
        if isinstance(v, VDict):
            return bool(v.d) or bool(v.sym)
        if isinstance(v, VSet):
            if v.abstract:
                raise OutOfSubset("truth value of an abstract set")
            return bool(v.items)
        if isinstance(v, VObj):
            b, _ = v.cls.lookup("__bool__")
            if b is not None:
                return self.truthy(self.call(BoundMethod(b, v), [], {}))
            ln, _ = v.cls.lookup("__len__")
            if ln is not None:
                n = self.call(BoundMethod(ln, v), [], {})
                return self.truthy(n != 0)
            return True
        if isinstance(v, (FuncVal, ClassVal, HostFn, BoundMethod, ModuleVal, HostModule, EnumMember, slice)):
            return True
        if isinstance(v, RangeVal):
            return self.truthy(self.builtins["len"].fn(v) != 0)
        if v is NotImplemented:
            return True
        if isinstance(v, Opaque):
            t = CTX.branch(z3.Bool(CTX.fresh_name("opaque_truth"))) if CTX.mode == "sym" else True
            return t
        raise OutOfSubset("truth value of %r" % (v,))

    _DUNDER = {
        ast.Add: ("__add__", "__radd__"), ast.Sub: ("__sub__", "__rsub__"), ast.Mult: ("__mul__", "__rmul__"),
        ast.BitAnd: ("__and__", "__rand__"), ast.BitOr: ("__or__", "__ror__"), ast.BitXor: ("__xor__", "__rxor__"),
        ast.FloorDiv: ("__floordiv__", "__rfloordiv__"), ast.Mod: ("__mod__", "__rmod__"),
    }
    _CMP_DUNDER = {
        ast.Eq: ("__eq__", "__eq__"), ast.NotEq: ("__ne__", "__ne__"), ast.Lt: ("__lt__", "__gt__"),
        ast.LtE: ("__le__", "__ge__"), ast.Gt: ("__gt__", "__lt__"), ast.GtE: ("__ge__", "__le__"),
    }

    def _obj_binop(self, op, a, b):
        """dispatch through user-defined dunder methods (Python data model)."""
        names = self._DUNDER.get(type(op))
        if names is None:
            raise OutOfSubset("operator %s on objects" % type(op).__name__)
        fwd, rev = names
        # subclass-priority rule is irrelevant for the code under contract (no such pairs)
        if isinstance(a, VObj):
            m, _ = a.cls.lookup(fwd)
            if m is not None:
                r = self.call(BoundMethod(m, a), [b], {})
                if r is not NotImplemented:
                    return r
        if isinstance(b, VObj):
            m, _ = b.cls.lookup(rev)
            if m is not None:
                r = self.call(BoundMethod(m, b), [a], {})
                if r is not NotImplemented:
                    return r
        raise PyRaise(TypeError("unsupported operand type(s) for %s" % type(op).__name__))

    def binop(self, op, a, b):
        if isinstance(a, GhostVal):
            return a.pv_binop(type(op).__name__, b, False)
        if isinstance(b, GhostVal):
            return b.pv_binop(type(op).__name__, a, True)
        if isinstance(a, VObj) or isinstance(b, VObj):
            return self._obj_binop(op, a, b)
        if (isinstance(a, SRef) or isinstance(b, SRef)) and CTX.ghost.get("sref_binop") is not None:
            r = CTX.ghost["sref_binop"](type(op).__name__, a, b)
            if r is not NotImplemented:
                return r
        if isinstance(a, VList) or isinstance(b, VList):
            if isinstance(op, ast.Add) and isinstance(a, VList) and isinstance(b, VList):
                return a.concat(b)
            if isinstance(op, ast.Mult):
                lst, n = (a, b) if isinstance(a, VList) else (b, a)
                if isinstance(n, int) and lst.is_concrete():
                    return VList(list(lst.items) * n)
                if lst.is_concrete() and len(lst.items) == 1 and isinstance(n, SInt):
                    # [c] * n with symbolic n
                    from .values import _elem_unwrap
                    kind = "int" if _zint(lst.items[0]) is not None else ("optint" if lst.items[0] is None else "ref")
                    r = VList(None, z3.If(n.t > 0, n.t, 0), z3.K(z3.IntSort(), _elem_unwrap(kind, lst.items[0])), kind)
                    return r
            raise OutOfSubset("list operator %s" % type(op).__name__)
        if isinstance(a, Opaque) or isinstance(b, Opaque):
            return Opaque("binop")
        if isinstance(a, SRef) or isinstance(b, SRef):
            raise OutOfSubset("operator %s on an opaque reference" % type(op).__name__)
        try:
            if isinstance(op, ast.Add):
                return a + b
            if isinstance(op, ast.Sub):
                return a - b
            if isinstance(op, ast.Mult):
                return a * b
            if isinstance(op, ast.FloorDiv):
                if isinstance(a, int) and isinstance(b, int) and b == 0:
                    raise PyRaise(ZeroDivisionError("integer division or modulo by zero"))
                return a // b
            if isinstance(op, ast.Mod):
                if isinstance(a, (str, SStr)):
                    raise OutOfSubset("% string formatting")
                if isinstance(a, int) and isinstance(b, int) and b == 0:
                    raise PyRaise(ZeroDivisionError("integer division or modulo by zero"))
                return a % b
            if isinstance(op, ast.Div):
                if isinstance(a, (int, float)) and isinstance(b, (int, float)):
                    if b == 0:
                        raise PyRaise(ZeroDivisionError("division by zero"))
                    return a / b
                return a / b
            if isinstance(op, ast.Pow):
                return a ** b
            if isinstance(op, ast.BitAnd):
                return a & b
            if isinstance(op, ast.BitOr):
                return a | b
            if isinstance(op, ast.BitXor):
                return a ^ b
            if isinstance(op, ast.LShift):
                return a << b
            if isinstance(op, ast.RShift):
                return a >> b
        except TypeError as e:
            raise PyRaise(TypeError(str(e)))
        raise OutOfSubset("binary operator %s" % type(op).__name__)

    def compare_one(self, op, a, b):
        if isinstance(op, ast.Is):
            return self.is_(a, b)
        if isinstance(op, ast.IsNot):
            r = self.is_(a, b)
            return (not r) if isinstance(r, bool) else mk_bool(z3.Not(r.t))
        if isinstance(op, ast.In):
            return self.contains(b, a)
        if isinstance(op, ast.NotIn):
            r = self.contains(b, a)
            return (not r) if isinstance(r, bool) else mk_bool(z3.Not(r.t))
        if isinstance(a, VObj) or isinstance(b, VObj):
            fwd, rev = self._CMP_DUNDER[type(op)]
            if isinstance(a, VObj):
                m, _ = a.cls.lookup(fwd)
                if m is not None:
                    r = self.call(BoundMethod(m, a), [b], {})
                    if r is not NotImplemented:
                        return r
            if isinstance(b, VObj):
                m, _ = b.cls.lookup(rev)
                if m is not None:
                    r = self.call(BoundMethod(m, b), [a], {})
                    if r is not NotImplemented:
                        return r
            if isinstance(op, ast.Eq):
                return a is b
            if isinstance(op, ast.NotEq):
                return a is not b
            raise PyRaise(TypeError("'%s' not supported between instances" % type(op).__name__))
        if isinstance(op, (ast.Eq, ast.NotEq, ast.Lt, ast.LtE, ast.Gt, ast.GtE)):
            for g_, o_, refl in ((a, b, False), (b, a, True)):
                if isinstance(g_, GhostVal) and hasattr(g_, "pv_compare"):
                    r = g_.pv_compare(type(op).__name__, o_, refl)
                    if r is not NotImplemented:
                        return r
        if (isinstance(a, SRef) or isinstance(b, SRef)) and CTX.ghost.get("sref_compare") is not None and isinstance(op, (ast.Eq, ast.NotEq, ast.Lt, ast.LtE, ast.Gt, ast.GtE)):
            r = CTX.ghost["sref_compare"](type(op).__name__, a, b)
            if r is not NotImplemented:
                return r
        if isinstance(a, (tuple, VList)) and isinstance(b, (tuple, VList)) and type(a) is type(b):
            return self.seq_compare(op, a, b)
        if isinstance(a, Opaque) or isinstance(b, Opaque):
            if isinstance(op, (ast.Eq, ast.NotEq)) and (a is None or b is None):
                return isinstance(op, ast.NotEq)
            return Opaque("cmp")
        try:
            if isinstance(op, ast.Eq):
                return a == b
            if isinstance(op, ast.NotEq):
                return a != b
            if isinstance(op, ast.Lt):
                return a < b
            if isinstance(op, ast.LtE):
                return a <= b
            if isinstance(op, ast.Gt):
                return a > b
            if isinstance(op, ast.GtE):
                return a >= b
        except TypeError as e:
            raise PyRaise(TypeError(str(e)))
        raise OutOfSubset("comparison %s" % type(op).__name__)

    def seq_compare(self, op, a, b):
        xs = list(a) if isinstance(a, tuple) else a.iter_items()
        ys = list(b) if isinstance(b, tuple) else b.iter_items()
        if isinstance(op, (ast.Eq, ast.NotEq)):
            if len(xs) != len(ys):
                return isinstance(op, ast.NotEq)
            conj = True
            terms = []
            for x, y in zip(xs, ys):
                r = self.compare_one(ast.Eq(), x, y)
                if isinstance(r, bool):
                    if not r:
                        return isinstance(op, ast.NotEq)
                else:
                    terms.append(r.t)
            if not terms:
                return isinstance(op, ast.Eq)
            eq = mk_bool(z3.And(terms))
            if isinstance(op, ast.Eq):
                return eq
            return (not eq) if isinstance(eq, bool) else mk_bool(z3.Not(eq.t))
        # lexicographic ordering (tuples of ints)
        for x, y in zip(xs, ys):
            e = self.compare_one(ast.Eq(), x, y)
            if self.truthy(e):
                continue
            return self.compare_one(op, x, y)
        return self.compare_one(op, len(xs), len(ys))

    def is_(self, a, b):
        if (isinstance(a, SRef) != isinstance(b, SRef)) and CTX.ghost.get("sref_is") is not None:
            r = CTX.ghost["sref_is"](a, b) if isinstance(a, SRef) else CTX.ghost["sref_is"](b, a)
            if r is not NotImplemented:
                return r
        if a is None or b is None:
            return a is b
        if isinstance(a, SRef) and isinstance(b, SRef):
            return a == b
        if isinstance(a, (bool, SBool)) and isinstance(b, (bool, SBool)):
            # `x is True` on bools
            return a == b
        if isinstance(a, (bool, SBool)) != isinstance(b, (bool, SBool)):
            # `1 is True` is False in CPython
            if isinstance(a, (int, SInt, SBool, bool)) and isinstance(b, (int, SInt, SBool, bool)):
                return False
        if a is NotImplemented or b is NotImplemented:
            return a is b
        if isinstance(a, (int, SInt)) and isinstance(b, (int, SInt)):
            # CPython: `x is y` on ints implies x == y; the converse is only guaranteed for the cached
            # small ints [-5, 256]; otherwise the outcome is unspecified (a fresh boolean)
            eq = a == b
            if isinstance(eq, bool) and not eq:
                return False
            if CTX.mode != "sym":
                return a is b
            za = _zint(a)
            small = z3.And(za >= -5, za <= 256)
            unk = z3.Bool(CTX.fresh_name("int_identity"))
            eqt = z3.BoolVal(True) if eq is True else eq.t
            return mk_bool(z3.And(eqt, z3.Or(small, unk)))
        return a is b

    def contains(self, container, x):
        if isinstance(container, GhostVal):
            return container.pv_contains(x)
        if isinstance(container, (tuple, VList, VSet, IterVal)):
            if isinstance(container, tuple):
                items = list(container)
            elif isinstance(container, VList):
                items = container.iter_items()
            else:
                if isinstance(container, VSet) and container.abstract:
                    raise OutOfSubset("membership in an abstract set")
                items = container.items
            terms = []
            for it in items:
                r = self.compare_one(ast.Eq(), it, x)
                if isinstance(r, bool):
                    if r:
                        return True
                elif isinstance(r, SBool):
                    terms.append(r.t)
                else:
                    if self.truthy(r):
                        return True
            if not terms:
                return False
            return mk_bool(z3.Or(terms))
        if isinstance(container, VDict):
            if deep_sym(x) or container.sym:
                terms = []
                for k in list(container.d) + [kk for kk, _ in container.sym]:
                    r = self.compare_one(ast.Eq(), k, x)
                    if isinstance(r, bool):
                        if r:
                            return True
                    else:
                        terms.append(r.t)
                return mk_bool(z3.Or(terms)) if terms else False
            return x in container.d
        if isinstance(container, (str, SStr)):
            if isinstance(container, str) and isinstance(x, str):
                return x in container
            return mk_bool(z3.Contains(zstr(container), zstr(x)))
        if isinstance(container, RangeVal):
            lo = self.compare_one(ast.LtE(), container.start, x)
            hi = self.compare_one(ast.Lt(), x, container.stop)
            if container.step != 1:
                raise OutOfSubset("membership in stepped range")
            from .sym import And
            return And(lo, hi) if CTX.mode != "native" else (lo and hi)
        raise OutOfSubset("`in` on %r" % (container,))

    # ------------------------------------------------------------------ subscripts
    def getitem(self, v, k):
        if isinstance(v, GhostVal):
            return v.pv_getitem(k)
        if isinstance(v, VList):
            return v.get(k)
        if isinstance(v, tuple):
            if isinstance(k, slice):
                if all(x is None or isinstance(x, int) for x in (k.start, k.stop, k.step)):
                    return v[k]
                raise OutOfSubset("tuple slice with symbolic bounds")
            if isinstance(k, bool) or not isinstance(k, (int, SInt)):
                if isinstance(k, (bool, SBool)):
                    k = k + 0
                else:
                    raise PyRaise(TypeError("tuple indices must be integers"))
            if isinstance(k, int):
                if not -len(v) <= k < len(v):
                    raise PyRaise(IndexError("tuple index out of range"))
                return v[k]
            return VList(list(v)).get(k)
        if isinstance(v, VDict):
            if deep_sym(k) or v.sym:
                for kk in v.d:
                    if self.truthy(self.compare_one(ast.Eq(), kk, k)):
                        return v.d[kk]
                for kk, vv in v.sym:
                    if self.truthy(self.compare_one(ast.Eq(), kk, k)):
                        return vv
                raise PyRaise(KeyError(k))
            try:
                if k in v.d:
                    return v.d[k]
            except TypeError:
                raise OutOfSubset("unhashable dict key")
            raise PyRaise(KeyError(k))
        if isinstance(v, (str, SStr)):
            from . import hostmodels
            return hostmodels.str_getitem(self, v, k)
        if isinstance(v, VObj):
            m, _ = v.cls.lookup("__getitem__")
            if m is None:
                raise PyRaise(TypeError("%s object is not subscriptable" % v.cls.name))
            return self.call(BoundMethod(m, v), [k], {})
        if isinstance(v, ClassVal):
            return v  # Generic[T] style subscription of a class
        if isinstance(v, AbstractSeq):
            return v.factory()
        if isinstance(v, (Opaque, HostFn)):
            return Opaque("subscript")  # typing constructs such as List[int]
        if isinstance(v, RangeVal):
            raise OutOfSubset("range subscript")
        if isinstance(v, IterVal):
            raise PyRaise(TypeError("iterator is not subscriptable"))
        from . import hostmodels
        return hostmodels.host_getitem(self, v, k)

    def setitem(self, v, k, val):
        if isinstance(v, GhostVal):
            v.pv_setitem(k, val)
            return
        if isinstance(v, VList):
            v.set(k, val)
            return
        if isinstance(v, VDict):
            note_write(v)
            if deep_sym(k) or v.sym:
                for kk in list(v.d):
                    if self.truthy(self.compare_one(ast.Eq(), kk, k)):
                        v.d[kk] = val
                        return
                for i, (kk, _) in enumerate(v.sym):
                    if self.truthy(self.compare_one(ast.Eq(), kk, k)):
                        v.sym[i] = (kk, val)
                        return
                if deep_sym(k):
                    v.sym.append((k, val))
                else:
                    v.d[k] = val
                return
            v.d[k] = val
            return
        if isinstance(v, VObj):
            m, _ = v.cls.lookup("__setitem__")
            if m is not None:
                self.call(BoundMethod(m, v), [k, val], {})
                return
        raise OutOfSubset("item assignment on %r" % (v,))

    # ------------------------------------------------------------------ iteration
    def iterate(self, v):
        """materialise an iterable of statically known length -> python list of values, or None"""
        if isinstance(v, OneShotIter):
            return self.iterate(v.take())
        if isinstance(v, GhostVal):
            try:
                r = v.pv_iter()
            except OutOfSubset:
                return None          # indexable only: comprehensions fall back to the pointwise view
            return r if isinstance(r, list) else None
        if isinstance(v, tuple):
            return list(v)
        if isinstance(v, VList):
            return list(v.items) if v.is_concrete() else None
        if isinstance(v, IterVal):
            return list(v.items)
        if isinstance(v, str):
            return list(v)
        if isinstance(v, SStr) and CTX.mode == "sym":
            # a symbolic string whose length is forced to one small constant on this path is iterated
            # character by character
            n = z3.Length(v.t)
            if CTX.solver.check() == z3.sat:
                n0 = CTX.solver.model().eval(n, model_completion=True).as_long()
                if 0 <= n0 <= 8 and CTX.solver.check(n != n0) == z3.unsat:
                    return [mk_str(z3.SubString(v.t, j, 1)) for j in range(n0)]
            return None
        if isinstance(v, VDict):
            return list(v.d.keys()) + [kk for kk, _ in v.sym]
        if isinstance(v, VSet):
            return None if v.abstract else list(v.items)
        if isinstance(v, RangeVal):
            if v.concrete():
                r = range(v.start, v.stop, v.step)
                if len(r) > UNROLL_LIMIT:
                    return None
                return list(r)
            return None
        if isinstance(v, VObj):
            m, _ = v.cls.lookup("__iter__")
            if m is not None:
                return self.iterate(self.call(BoundMethod(m, v), [], {}))
            raise PyRaise(TypeError("%s object is not iterable" % v.cls.name))
        if isinstance(v, (int, SInt, SBool, bool)) or v is None:
            raise PyRaise(TypeError("object is not iterable"))
        return None

    # ------------------------------------------------------------------ calls
    def call(self, f, args, kwargs):
        if isinstance(f, BoundMethod):
            return self.call(f.func, [f.self_obj] + list(args), kwargs)
        if isinstance(f, FuncVal):
            return self.call_function(f, args, kwargs)
        if isinstance(f, ClassVal):
            return self.instantiate(f, args, kwargs)
        if isinstance(f, HostFn):
            if f.raw:
                return f.fn(self, list(args), dict(kwargs))
            return f.fn(*args, **kwargs)
        if isinstance(f, type) and issubclass(f, BaseException):
            return f(*[a if not is_sym(a) else "<sym>" for a in args])
        if isinstance(f, Opaque):
            CTX.event("opaque_call", label=f.label, args=list(args))
            return Opaque(f.label + "()")
        if isinstance(f, VObj):
            m, _ = f.cls.lookup("__call__")
            if m is not None:
                return self.call(BoundMethod(m, f), args, kwargs)
        if callable(f) and getattr(f, "_pyvc_callback", False):
            return f(*args, **kwargs)
        raise OutOfSubset("call of %r" % (f,))

    def func_key(self, f):
        return "%s::%s" % (f.module.relpath, f.qualname)

    def call_function(self, f, args, kwargs):
        key = self.func_key(f)
        w = CTX.watches.get(("call", key))
        if w is not None:
            w(self, args, kwargs)
        c = CTX.contracts.get(key)
        if c is not None:
            # the function under verification itself runs its body once; recursive calls of it (and
            # every other function with a contract) are replaced by the contract
            if getattr(CTX, "target_key", None) == key and getattr(CTX, "target_depth", 0) == 0:
                CTX.target_depth = 1
                try:
                    return self._run_function(f, key, args, kwargs)
                finally:
                    CTX.target_depth = 0
            return c(self, list(args), dict(kwargs))
        return self._run_function(f, key, args, kwargs)

    def _run_function(self, f, key, args, kwargs):
        node = f.node
        isgen = getattr(f, "_is_generator", None)
        if isgen is None:
            isgen = False
            if not isinstance(node, ast.Lambda):
                stack = list(node.body)
                while stack:
                    n = stack.pop()
                    if isinstance(n, (ast.Yield, ast.YieldFrom)):
                        isgen = True
                        break
                    if isinstance(n, (ast.FunctionDef, ast.Lambda, ast.ClassDef)):
                        continue
                    stack.extend(ast.iter_child_nodes(n))
            f._is_generator = isgen
        if isgen and key not in CTX.contracts:
            raise OutOfSubset("generator function %s" % key)
        if key not in self.functions_seen and not isinstance(node, ast.Lambda):
            self.functions_seen[key] = f.module.source_hash(node)
        scope = Scope(f.module, f.scope, f.qualname, func=f)
        scope.cls = f.cls if f.cls is not None else (f.scope.cls if f.scope is not None else None)
        self.bind_args(f, scope, list(args), dict(kwargs))
        self.depth += 1
        if self.depth > 60:
            self.depth -= 1
            raise OutOfSubset("call depth exceeded (recursion?) in %s" % key)
        try:
            if isinstance(node, ast.Lambda):
                return self.eval(node.body, scope)
            for d in node.decorator_list:
                raise OutOfSubset("decorated function %s" % key)
            try:
                self.exec_block(node.body, scope)
            except _Return as r:
                return r.value
            return None
        finally:
            self.depth -= 1

    def bind_args(self, f, scope, args, kwargs):
        a = f.node.args
        params = [p.arg for p in a.posonlyargs + a.args]
        defaults = a.defaults
        nd = len(defaults)
        defscope = f.scope if f.scope is not None else f.module.scope
        for i, p in enumerate(params):
            if i < len(args):
                if p in kwargs:
                    raise PyRaise(TypeError("multiple values for argument %r" % p))
                scope.vars[p] = args[i]
            elif p in kwargs:
                scope.vars[p] = kwargs.pop(p)
            else:
                di = i - (len(params) - nd)
                if di < 0:
                    raise PyRaise(TypeError("%s() missing required argument %r" % (f.qualname, p)))
                scope.vars[p] = self.eval(defaults[di], defscope)
        extra = args[len(params):]
        if a.vararg is not None:
            scope.vars[a.vararg.arg] = tuple(extra)
        elif extra:
            raise PyRaise(TypeError("%s() takes %d positional arguments but %d were given"
                                    % (f.qualname, len(params), len(args))))
        for p, d in zip(a.kwonlyargs, a.kw_defaults):
            if p.arg in kwargs:
                scope.vars[p.arg] = kwargs.pop(p.arg)
            elif d is not None:
                scope.vars[p.arg] = self.eval(d, defscope)
            else:
                raise PyRaise(TypeError("missing keyword-only argument %r" % p.arg))
        if a.kwarg is not None:
            scope.vars[a.kwarg.arg] = VDict(kwargs)
        elif kwargs:
            raise PyRaise(TypeError("%s() got an unexpected keyword argument %r" % (f.qualname, list(kwargs)[0])))

    # ------------------------------------------------------------------ statements
    def exec_block(self, stmts, scope):
        for s in stmts:
            self.exec_stmt(s, scope)

    def exec_stmt(self, s, scope):
        dl = getattr(CTX, "deadline", None)
        if dl is not None:
            CTX.ticks = getattr(CTX, "ticks", 0) + 1
            if CTX.ticks % 256 == 0 and _time.time() > dl:
                # the harness has used up its wall-clock budget on this code (a loop the interpreter follows for very long, an
                # explosion of paths): undecided, never a hanging run
                raise TimeBudget("time budget of the harness used up")
        m = getattr(self, "st_" + type(s).__name__, None)
        if m is None:
            raise OutOfSubset("statement %s (line %d)" % (type(s).__name__, s.lineno))
        return m(s, scope)

    def st_Expr(self, s, scope):
        if isinstance(s.value, ast.Constant):
            return
        if isinstance(s.value, (ast.Yield, ast.YieldFrom)):
            raise OutOfSubset("generator function")
        self.eval(s.value, scope)

    def st_Pass(self, s, scope):
        pass

    def st_Global(self, s, scope):
        scope.globals_.update(s.names)

    def st_Nonlocal(self, s, scope):
        scope.nonlocals.update(s.names)

    def st_Return(self, s, scope):
        raise _Return(self.eval(s.value, scope) if s.value is not None else None)

    def st_Break(self, s, scope):
        raise _Break()

    def st_Continue(self, s, scope):
        raise _Continue()

    def st_Assign(self, s, scope):
        v = self.eval(s.value, scope)
        for t in s.targets:
            self.assign_target(t, v, scope)

    def st_AnnAssign(self, s, scope):
        if s.value is not None:
            self.assign_target(s.target, self.eval(s.value, scope), scope)

    def st_AugAssign(self, s, scope):
        t = s.target
        if isinstance(t, ast.Name):
            cur = scope.lookup(t.id)
        elif isinstance(t, ast.Attribute):
            obj = self.eval(t.value, scope)
            cur = self.getattr(obj, self.mangle(t.attr, scope))
        elif isinstance(t, ast.Subscript):
            obj = self.eval(t.value, scope)
            key = self.eval(t.slice, scope)
            cur = self.getitem(obj, key)
        else:
            raise OutOfSubset("augmented assignment target")
        rhs = self.eval(s.value, scope)
        if isinstance(cur, VList) and isinstance(s.op, ast.Add):
            # list += iterable  (in place)
            self.watch_append(scope, t, rhs)
            if isinstance(rhs, OneShotIter) and isinstance(rhs.src, VList) and not rhs.src.is_concrete():
                rhs = rhs.take()
            if isinstance(rhs, VList):
                cur.extend(rhs)
            else:
                items = self.iterate(rhs)
                if items is None:
                    raise OutOfSubset("+= with an iterable of unknown length")
                cur.extend(items)
            new = cur
        else:
            new = self.binop(s.op, cur, rhs)
        if isinstance(t, ast.Name):
            scope.assign(t.id, new)
        elif isinstance(t, ast.Attribute):
            self.setattr(obj, self.mangle(t.attr, scope), new)
        else:
            self.setitem(obj, key, new)

    def watch_append(self, scope, target_node, value):
        if isinstance(target_node, ast.Name):
            w = CTX.watches.get(("extend", self._fkey(scope), target_node.id))
            if w is not None:
                w(NS(scope), value)

    def _fkey(self, scope):
        s = scope
        while s is not None and s.func is None:
            s = s.parent
        if s is None:
            return "%s::<module>" % scope.module.relpath
        return self.func_key(s.func)

    def mangle(self, attr, scope):
        if attr.startswith("__") and not attr.endswith("__"):
            s = scope
            while s is not None:
                if s.cls is not None:
                    return "_%s%s" % (s.cls.name.lstrip("_"), attr)
                s = s.parent
        return attr

    def assign_target(self, t, v, scope):
        if isinstance(t, ast.Name):
            scope.assign(t.id, v)
        elif isinstance(t, ast.Attribute):
            self.setattr(self.eval(t.value, scope), self.mangle(t.attr, scope), v)
        elif isinstance(t, ast.Subscript):
            self.setitem(self.eval(t.value, scope), self.eval(t.slice, scope), v)
        elif isinstance(t, (ast.Tuple, ast.List)):
            items = self.iterate(v)
            if items is None:
                if isinstance(v, Opaque):
                    # unpacking an unknown value: arity as written, every part unknown
                    for e in t.elts:
                        if isinstance(e, ast.Starred):
                            self.assign_target(e.value, VList([Opaque(v.label + "[*]")]), scope)
                        else:
                            self.assign_target(e, Opaque(v.label + "[i]"), scope)
                    return
                raise OutOfSubset("unpacking of a value of unknown length")
            star = [i for i, e in enumerate(t.elts) if isinstance(e, ast.Starred)]
            if star:
                i = star[0]
                after = len(t.elts) - i - 1
                if len(items) < len(t.elts) - 1:
                    raise PyRaise(ValueError("not enough values to unpack"))
                for e, x in zip(t.elts[:i], items[:i]):
                    self.assign_target(e, x, scope)
                self.assign_target(t.elts[i].value, VList(items[i:len(items) - after]), scope)
                for e, x in zip(t.elts[i + 1:], items[len(items) - after:]):
                    self.assign_target(e, x, scope)
            else:
                if len(items) != len(t.elts):
                    raise PyRaise(ValueError("not enough / too many values to unpack (expected %d, got %d)"
                                             % (len(t.elts), len(items))))
                for e, x in zip(t.elts, items):
                    self.assign_target(e, x, scope)
        else:
            raise OutOfSubset("assignment target %s" % type(t).__name__)

    def st_If(self, s, scope):
        if self.truthy(self.eval(s.test, scope)):
            self.exec_block(s.body, scope)
        else:
            self.exec_block(s.orelse, scope)

    def st_Assert(self, s, scope):
        if not self.truthy(self.eval(s.test, scope)):
            raise PyRaise(AssertionError())

    def st_Raise(self, s, scope):
        if s.exc is None:
            raise OutOfSubset("bare raise")
        e = self.eval(s.exc, scope)
        if isinstance(e, type) and issubclass(e, BaseException):
            e = e()
        if not isinstance(e, BaseException):
            raise OutOfSubset("raise of %r" % (e,))
        raise PyRaise(e)

    def st_Try(self, s, scope):
        if s.finalbody:
            raise OutOfSubset("try/finally")
        try:
            self.exec_block(s.body, scope)
        except PyRaise as pr:
            for h in s.handlers:
                if h.type is None:
                    match = True
                else:
                    t = self.eval(h.type, scope)
                    ts = t if isinstance(t, tuple) else (t,)
                    match = any(isinstance(x, type) and isinstance(pr.exc, x) for x in ts)
                if match:
                    if h.name:
                        scope.assign(h.name, pr.exc)
                    self.exec_block(h.body, scope)
                    return
            raise
        else:
            self.exec_block(s.orelse, scope)

    def st_FunctionDef(self, s, scope):
        if s.decorator_list:
            raise OutOfSubset("decorated nested function")
        scope.assign(s.name, FuncVal(scope.module, s, scope.qualname + ".<locals>." + s.name, scope=scope))

    def st_Import(self, s, scope):
        for a in s.names:
            scope.assign(a.asname or a.name.split(".")[0], self.do_import(scope.module, s, a))

    def st_ImportFrom(self, s, scope):
        for a in s.names:
            scope.assign(a.asname or a.name, self.do_import(scope.module, s, a))

    def st_Delete(self, s, scope):
        raise OutOfSubset("del")

    def st_With(self, s, scope):
        raise OutOfSubset("with")

    # ---- loops
    def _loop_spec(self, s, scope):
        f = None
        sc = scope
        while sc is not None and sc.func is None:
            sc = sc.parent
        if sc is None:
            return None, None
        f = sc.func
        key = self.func_key(f)
        loops = getattr(f, "_loops", None)
        if loops is None:
            loops = f._loops = _loops_in_order(f.node) if not isinstance(f.node, ast.Lambda) else []
        try:
            ordinal = [id(x) for x in loops].index(id(s))
        except ValueError:
            return None, None
        spec = self.loop_specs.get((key, ordinal))
        if spec is not None:
            hdr = loop_header(s)
            LOOP_HEADERS_SEEN["%s#%d" % (key, ordinal)] = hdr
            exp = EXPECTED_LOOP_HEADERS.get("%s#%d" % (key, ordinal))
            if exp is not None and exp != hdr:
                # the loop contracts were written for another loop structure: they do not apply to this code
                raise OutOfSubset("loop %d of %s is `%s`, the contracts were written for `%s`" % (ordinal, key, hdr, exp))
        return spec, (key, ordinal)

    def _run_body(self, body, scope):
        """returns 'next' | 'break'"""
        try:
            self.exec_block(body, scope)
        except _Continue:
            return "next"
        except _Break:
            return "break"
        return "next"

    def st_For(self, s, scope):
        it = self.eval(s.iter, scope)
        if CTX.mode == "sym" and isinstance(it, RangeVal) and it.step == 1 and not s.orelse:
            spec0, key0 = self._loop_spec(s, scope)
            if spec0 is not None and getattr(spec0, "abstract", False):
                # a loop with a constant trip count that the harness wants treated by invariant (one arbitrary
                # iteration) instead of being unrolled
                self._sym_range_loop(s, scope, it, spec0, key0)
                return
        items = self.iterate(it)
        if items is not None:
            if len(items) > UNROLL_LIMIT:
                raise OutOfSubset("loop too long to unroll")
            broke = False
            for x in items:
                self.assign_target(s.target, x, scope)
                if self._run_body(s.body, scope) == "break":
                    broke = True
                    break
            if not broke:
                self.exec_block(s.orelse, scope)
            return
        spec, key = self._loop_spec(s, scope)
        if CTX.mode != "sym":
            raise OutOfSubset("unbounded loop in concrete mode")
        if s.orelse:
            raise OutOfSubset("for/else with symbolic bounds")
        if isinstance(it, VObj):
            m, _ = it.cls.lookup("__iter__")
            if m is not None:
                it = self.call(BoundMethod(m, it), [], {})
        if isinstance(it, OneShotIter):
            it = it.take()
        if isinstance(it, GhostVal) and getattr(it, "pv_indexed", False) and spec is not None:
            # a ghost sequence that asks to be traversed by position: the invariant may speak about `idx`
            self._sym_ghost_loop(s, scope, it, spec, key)
            return
        if isinstance(it, GhostVal):
            it = it.pv_iter()
        if isinstance(it, RangeVal) and it.step == 1:
            self._sym_range_loop(s, scope, it, spec, key)
        elif isinstance(it, VList):
            self._sym_list_loop(s, scope, it, spec, key)
        else:
            self._opaque_loop(s, scope, it, spec, key)

    def _mutated_lists(self, body, scope):
        """local names bound to a list that the loop body (nested loops included) changes in place: they are part of
        what an iteration modifies whether or not the loop contract lists them (frame soundness)"""
        out = set()
        for nm in _mutated_names(body):
            cur = scope.vars.get(nm)
            if isinstance(cur, VList):
                out.add(nm)
            elif isinstance(cur, (VSet, VDict)):
                # sets and dicts have no symbolic representation: after the loop nothing is known about them (in place, so
                # that every alias sees it); reading them is outside the subset
                cur.abstract = True
                if isinstance(cur, VSet):
                    cur.items = []
        return out

    def _frame_open(self, scope, assigned, spec):
        """dynamic frame check of a loop, part 1 (after the havoc): remember which heap objects exist and which of them the
        havoc covered (the objects bound to the havoced names; a havoced list keeps its identity)"""
        allowed = set()
        for nm in assigned:
            v = scope.vars.get(nm)
            if isinstance(v, (VList, VSet, VDict, VObj)):
                allowed.add(id(v))
        return (CTX.births, len(CTX.writes), allowed)

    def _frame_check(self, token, spec, key):
        """part 2 (after one arbitrary iteration): every object the iteration changed in place must be new (created by the
        iteration) or covered by the havoc; otherwise the exit path would keep the object's pre-loop content -- the loop is
        then outside the subset (undecided), never silently summarised.  A contract with `ghost_havoc` states the heap effect
        itself and is trusted with it."""
        born0, w0, allowed = token
        if spec is not None and getattr(spec, "ghost_havoc", None) is not None:
            return
        for obj in CTX.writes[w0:]:
            if getattr(obj, "_born", 1 << 60) < born0 and id(obj) not in allowed:
                what = "an instance of %s" % obj.cls.name if isinstance(obj, VObj) else type(obj).__name__[1:].lower()
                raise OutOfSubset("loop %s changes %s in place that existed before the loop and is not in its frame" % (key, what))

    def _havoc(self, scope, names, spec, unset_unknown=True):
        if spec is not None and getattr(spec, "ghost_havoc", None) is not None:
            import inspect
            if len(inspect.signature(spec.ghost_havoc).parameters) >= 1:
                spec.ghost_havoc(NS(scope))
            else:
                spec.ghost_havoc()
        for nm in sorted(names):
            cur = scope.vars.get(nm, _MISSING)
            ty = spec.types.get(nm) if spec else None
            if ty is None:
                if isinstance(cur, (bool, SBool)):
                    ty = "bool"
                elif isinstance(cur, (int, SInt)):
                    ty = "int"
                elif isinstance(cur, VList):
                    ty = "list"
                elif isinstance(cur, (str, SStr)):
                    ty = "str"
            if callable(ty):
                scope.vars[nm] = ty()
            elif ty == "int":
                scope.vars[nm] = SInt(z3.Int(CTX.fresh_name(nm)))
            elif ty == "bool":
                scope.vars[nm] = SBool(z3.Bool(CTX.fresh_name(nm)))
            elif ty == "str":
                scope.vars[nm] = SStr(z3.String(CTX.fresh_name(nm)))
            elif ty is not None and ty.startswith("list"):
                kind = ty.split(":")[1] if ":" in ty else None
                if isinstance(cur, VList):
                    cur.havoc(kind)
                else:
                    l = VList([])
                    l.havoc(kind or "ref")
                    scope.vars[nm] = l
            elif ty == "opaque":
                scope.vars[nm] = Opaque(nm)
            elif ty == "keep":
                pass
            else:
                if cur is _MISSING:
                    continue
                if unset_unknown:
                    scope.vars[nm] = Opaque("havoc:" + nm)

    def _check_inv(self, spec, scope, old, extra, label, key):
        if spec is None or spec.inv is None:
            return
        ns = NS(scope, old, extra)
        conds = spec.inv(ns)
        if not isinstance(conds, (list, tuple)):
            conds = [conds]
        for i, c in enumerate(conds):
            name = "%s/loop%d/%s#%d" % (key[0], key[1], label, i)
            CTX.check(name, c if isinstance(c, bool) else c.t)

    def _assume_inv(self, spec, scope, old, extra):
        if spec is None or spec.inv is None:
            return
        ns = NS(scope, old, extra)
        CTX.assuming = getattr(CTX, "assuming", 0) + 1
        try:
            conds = spec.inv(ns)
        finally:
            CTX.assuming -= 1
        if not isinstance(conds, (list, tuple)):
            conds = [conds]
        for c in conds:
            CTX.assume(c if isinstance(c, bool) else c.t)

    def _snapshot_old(self, scope):
        old = {}
        for k, v in scope.vars.items():
            old[k] = v.snapshot() if isinstance(v, VList) else v
        return old

    def _sym_range_loop(self, s, scope, rng, spec, key):
        if spec is None:
            # no invariant supplied: invariant True (every assigned variable is havoced); sound,
            # sufficient for claims that are local to one iteration
            spec = LoopSpec()
            changed = (_assigned_names(s.body) | _mutated_names(s.body)) - {s.target.id if isinstance(s.target, ast.Name) else ""}
            if changed:
                # the abstraction "invariant True" may lose facts the obligations need: a counter-model found from here on
                # is not evidence of a defect (a proof still is a proof)
                CTX.imprecise = "loop %s without an invariant changes %s" % (key, sorted(changed))
                for nm in sorted(_mutated_names(s.body)):
                    cur = scope.vars.get(nm)
                    if isinstance(cur, VList):
                        cur.havoc(cur.kind)
        if not isinstance(s.target, ast.Name):
            raise OutOfSubset("range loop with non-name target")
        var = s.target.id
        start, stop = rng.start, rng.stop
        old = self._snapshot_old(scope)
        assigned = (_assigned_names(s.body) | set(spec.modifies) | self._mutated_lists(s.body, scope)) - {var}
        scope.vars[var] = start
        self._check_inv(spec, scope, old, {}, "init", key)
        which = CTX.choose(2)
        self._havoc(scope, assigned, spec)
        ftok = self._frame_open(scope, assigned, spec)
        iv = SInt(z3.Int(CTX.fresh_name(var)))
        scope.vars[var] = iv
        zs, ze = _zint(start), _zint(stop)
        if which == 0:
            CTX.assume(z3.And(zs <= iv.t, iv.t < ze))
            self._assume_inv(spec, scope, old, {})
            token = None
            if spec.at_head is not None:
                token = spec.at_head(NS(scope, old, {}))
            r = self._run_body(s.body, scope)
            self._frame_check(ftok, spec, key)
            if r == "break":
                return
            if spec.at_end is not None:
                spec.at_end(NS(scope, old, {}), token)
            scope.vars[var] = mk_int(iv.t + 1)
            self._check_inv(spec, scope, old, {}, "preserve", key)
            raise PathEnd("loop preservation path")
        else:
            CTX.assume(iv.t == z3.If(ze > zs, ze, zs))
            self._assume_inv(spec, scope, old, {})
            if getattr(spec, "at_exit", None) is not None:
                spec.at_exit(NS(scope, old, {"exit_index": iv}))
            # after the loop the variable holds the last index (if any iteration ran)
            scope.vars[var] = mk_int(iv.t - 1)

    def _sym_list_loop(self, s, scope, lst, spec, key):
        if spec is None:
            raise OutOfSubset("loop %s needs an invariant (symbolic list)" % (key,))
        old = self._snapshot_old(scope)
        assigned = _assigned_names(s.body) | set(spec.modifies) | _assigned_names([ast.Expr(s.target)]) | self._mutated_lists(s.body, scope)
        n = lst.len()
        self._check_inv(spec, scope, old, {"idx": 0}, "init", key)
        which = CTX.choose(2)
        frozen = lst.snapshot()
        self._havoc(scope, assigned, spec)
        ftok = self._frame_open(scope, assigned, spec)
        k = SInt(z3.Int(CTX.fresh_name("idx")))
        if which == 0:
            CTX.assume(z3.And(0 <= k.t, k.t < _zint(n)))
            self._assume_inv(spec, scope, old, {"idx": k})
            self.assign_target(s.target, frozen.get(k), scope)
            token = spec.at_head(NS(scope, old, {"idx": k})) if spec.at_head is not None else None
            r = self._run_body(s.body, scope)
            self._frame_check(ftok, spec, key)
            if r == "break":
                return
            if spec.at_end is not None:
                spec.at_end(NS(scope, old, {"idx": k}), token)
            self._check_inv(spec, scope, old, {"idx": mk_int(k.t + 1)}, "preserve", key)
            raise PathEnd("loop preservation path")
        else:
            CTX.assume(k.t == _zint(n))
            self._assume_inv(spec, scope, old, {"idx": k})
            if getattr(spec, "at_exit", None) is not None:
                spec.at_exit(NS(scope, old, {"idx": k, "exit_index": k}))

    def _sym_ghost_loop(self, s, scope, seq, spec, key):
        """for x in <ghost sequence of symbolic length>: like a list loop, element idx is seq.pv_getitem(idx)"""
        old = self._snapshot_old(scope)
        assigned = _assigned_names(s.body) | set(spec.modifies) | _assigned_names([ast.Expr(s.target)]) | self._mutated_lists(s.body, scope)
        n = seq.pv_len()
        self._check_inv(spec, scope, old, {"idx": 0}, "init", key)
        which = CTX.choose(2)
        self._havoc(scope, assigned, spec)
        ftok = self._frame_open(scope, assigned, spec)
        k = SInt(z3.Int(CTX.fresh_name("idx")))
        if which == 0:
            CTX.assume(z3.And(0 <= k.t, k.t < _zint(n)))
            self._assume_inv(spec, scope, old, {"idx": k})
            self.assign_target(s.target, seq.pv_getitem(k), scope)
            token = spec.at_head(NS(scope, old, {"idx": k})) if spec.at_head is not None else None
            r = self._run_body(s.body, scope)
            self._frame_check(ftok, spec, key)
            if r == "break":
                if getattr(spec, "at_break", None) is not None:
                    spec.at_break(NS(scope, old, {"idx": k}), token)
                return
            if spec.at_end is not None:
                spec.at_end(NS(scope, old, {"idx": k}), token)
            self._check_inv(spec, scope, old, {"idx": mk_int(k.t + 1)}, "preserve", key)
            raise PathEnd("loop preservation path")
        else:
            CTX.assume(k.t == _zint(n))
            self._assume_inv(spec, scope, old, {"idx": k})
            if getattr(spec, "at_exit", None) is not None:
                spec.at_exit(NS(scope, old, {"idx": k, "exit_index": k}))

    def _opaque_loop(self, s, scope, it, spec, key):
        """iteration over something of unknown length and content: the body is executed once from
        an arbitrary state (every assigned variable havoced); sound for claims that are local to
        one iteration.  With a spec, its invariant is assumed/checked as usual."""
        old = self._snapshot_old(scope)
        tnames = _assigned_names([ast.Expr(s.target)])
        assigned = _assigned_names(s.body) | (set(spec.modifies) if spec else set()) | tnames | self._mutated_lists(s.body, scope)
        if spec is None:
            changed = (_assigned_names(s.body) | _mutated_names(s.body)) - tnames
            if changed:
                CTX.imprecise = "loop %s without an invariant changes %s" % (key, sorted(changed))
                for nm in sorted(_mutated_names(s.body)):
                    cur = scope.vars.get(nm)
                    if isinstance(cur, VList):
                        cur.havoc(cur.kind)
        self._check_inv(spec, scope, old, {}, "init", key)
        which = CTX.choose(2)
        self._havoc(scope, assigned, spec)
        ftok = self._frame_open(scope, assigned, spec)
        self._assume_inv(spec, scope, old, {})
        if which == 0:
            elem = None
            if spec is not None and "elem" in spec.types:
                elem = spec.types["elem"](NS(scope, old)) if callable(spec.types["elem"]) else None
            if elem is None:
                elem = it.factory() if isinstance(it, AbstractSeq) else Opaque("elem")
            self.assign_target(s.target, elem, scope)
            token = spec.at_head(NS(scope, old, {})) if spec is not None and spec.at_head is not None else None
            r = self._run_body(s.body, scope)
            self._frame_check(ftok, spec, key)
            if r == "break":
                if spec is not None and getattr(spec, "at_break", None) is not None:
                    spec.at_break(NS(scope, old, {}), token)
                return
            if spec is not None and spec.at_end is not None:
                spec.at_end(NS(scope, old, {}), token)
            self._check_inv(spec, scope, old, {}, "preserve", key)
            raise PathEnd("loop preservation path")

    def st_While(self, s, scope):
        spec, key = self._loop_spec(s, scope)
        if spec is None:
            # try plain execution (terminates for concrete conditions)
            n = 0
            while True:
                c = self.eval(s.test, scope)
                if (is_sym(c) or isinstance(c, Opaque)) and n >= 6:
                    # without an invariant a symbolic guard is followed for a few iterations only
                    # (every feasible path is explored; longer runs are outside the subset)
                    raise OutOfSubset("while loop %s needs an invariant (still symbolic after %d iterations)" % (key, n))
                if not self.truthy(c):
                    break
                if self._run_body(s.body, scope) == "break":
                    return
                n += 1
                if n > 10000:
                    raise OutOfSubset("while loop does not terminate concretely")
            self.exec_block(s.orelse, scope)
            return
        if CTX.mode != "sym":
            # concrete execution with the invariant evaluated as a run-time contract
            n = 0
            while self.truthy(self.eval(s.test, scope)):
                if self._run_body(s.body, scope) == "break":
                    return
                n += 1
                if n > 100000:
                    raise OutOfSubset("while loop does not terminate concretely")
            return
        old = self._snapshot_old(scope)
        assigned = _assigned_names(s.body) | set(spec.modifies) | self._mutated_lists(s.body, scope)
        self._check_inv(spec, scope, old, {}, "init", key)
        which = CTX.choose(2)
        self._havoc(scope, assigned, spec)
        ftok = self._frame_open(scope, assigned, spec)
        self._assume_inv(spec, scope, old, {})
        c = self.eval(s.test, scope)
        if which == 0:
            if not self.truthy(c):
                raise PathEnd("guard false on iteration path")
            token = spec.at_head(NS(scope, old, {})) if spec.at_head is not None else None
            r = self._run_body(s.body, scope)
            self._frame_check(ftok, spec, key)
            if r == "break":
                return
            if spec.at_end is not None:
                spec.at_end(NS(scope, old, {}), token)
            self._check_inv(spec, scope, old, {}, "preserve", key)
            raise PathEnd("loop preservation path")
        else:
            if self.truthy(c):
                raise PathEnd("guard true on exit path")
            if getattr(spec, "at_exit", None) is not None:
                spec.at_exit(NS(scope, old, {}))

    # ------------------------------------------------------------------ expressions
    def eval(self, e, scope):
        m = getattr(self, "ex_" + type(e).__name__, None)
        if m is None:
            raise OutOfSubset("expression %s (line %d)" % (type(e).__name__, getattr(e, "lineno", 0)))
        return m(e, scope)

    def ex_Constant(self, e, scope):
        return e.value

    def ex_Name(self, e, scope):
        return scope.lookup(e.id)

    def ex_Tuple(self, e, scope):
        out = []
        for x in e.elts:
            if isinstance(x, ast.Starred):
                items = self.iterate(self.eval(x.value, scope))
                if items is None:
                    raise OutOfSubset("starred value of unknown length")
                out.extend(items)
            else:
                out.append(self.eval(x, scope))
        return tuple(out)

    def ex_List(self, e, scope):
        return VList(list(self.ex_Tuple(e, scope)))

    def ex_Set(self, e, scope):
        return VSet(list(self.ex_Tuple(e, scope)))

    def ex_Dict(self, e, scope):
        d = {}
        for k, v in zip(e.keys, e.values):
            if k is None:
                raise OutOfSubset("dict unpacking")
            d[self.eval(k, scope)] = self.eval(v, scope)
        return VDict(d)

    def ex_BinOp(self, e, scope):
        return self.binop(e.op, self.eval(e.left, scope), self.eval(e.right, scope))

    def ex_UnaryOp(self, e, scope):
        v = self.eval(e.operand, scope)
        if isinstance(e.op, ast.Not):
            if isinstance(v, SBool):
                return mk_bool(z3.Not(v.t))
            return not self.truthy(v)
        if isinstance(v, VObj):
            nm = {ast.USub: "__neg__", ast.Invert: "__invert__", ast.UAdd: "__pos__"}[type(e.op)]
            m, _ = v.cls.lookup(nm)
            if m is None:
                raise PyRaise(TypeError("bad operand type for unary operator"))
            return self.call(BoundMethod(m, v), [], {})
        if isinstance(v, Opaque):
            return Opaque("unary")
        if isinstance(v, GhostVal):
            return v.pv_unop(type(e.op).__name__)
        if isinstance(v, SRef) and CTX.ghost.get("sref_unop") is not None:
            r = CTX.ghost["sref_unop"](type(e.op).__name__, v)
            if r is not NotImplemented:
                return r
        if isinstance(e.op, ast.USub):
            if isinstance(v, (bool, SBool)):
                v = v + 0
            return -v
        if isinstance(e.op, ast.UAdd):
            return v
        if isinstance(e.op, ast.Invert):
            if isinstance(v, int):
                return ~v
            raise OutOfSubset("~ on symbolic int")
        raise OutOfSubset("unary op")

    def ex_BoolOp(self, e, scope):
        # Python semantics: value of the deciding operand
        v = None
        for i, x in enumerate(e.values):
            v = self.eval(x, scope)
            last = i == len(e.values) - 1
            if last:
                return v
            t = self.truthy(v)
            if isinstance(e.op, ast.And):
                if not t:
                    return v
            else:
                if t:
                    return v
        return v

    def ex_Compare(self, e, scope):
        left = self.eval(e.left, scope)
        result = True
        for i, (op, c) in enumerate(zip(e.ops, e.comparators)):
            right = self.eval(c, scope)
            r = self.compare_one(op, left, right)
            if i == len(e.ops) - 1:
                if result is True:
                    return r
                # conjunction with earlier (all symbolic-true so far handled below)
                return r
            if not self.truthy(r):
                return r
            left = right
        return result

    def ex_IfExp(self, e, scope):
        if self.truthy(self.eval(e.test, scope)):
            return self.eval(e.body, scope)
        return self.eval(e.orelse, scope)

    def ex_Attribute(self, e, scope):
        v = self.eval(e.value, scope)
        return self.getattr(v, self.mangle(e.attr, scope))

    def ex_Subscript(self, e, scope):
        v = self.eval(e.value, scope)
        k = self.eval(e.slice, scope)
        return self.getitem(v, k)

    def ex_Slice(self, e, scope):
        return slice(self.eval(e.lower, scope) if e.lower is not None else None,
                     self.eval(e.upper, scope) if e.upper is not None else None,
                     self.eval(e.step, scope) if e.step is not None else None)

    def ex_Lambda(self, e, scope):
        return FuncVal(scope.module, e, scope.qualname + ".<lambda>", scope=scope)

    def ex_Starred(self, e, scope):
        raise OutOfSubset("starred expression")

    def ex_JoinedStr(self, e, scope):
        out = ""
        for v in e.values:
            if isinstance(v, ast.Constant):
                part = v.value
            else:
                if v.format_spec is not None or v.conversion != -1:
                    raise OutOfSubset("f-string format spec")
                part = self.call(self.builtins["str"], [self.eval(v.value, scope)], {})
            out = out + part
        return out

    def ex_Call(self, e, scope):
        # typing.cast(T, x) == x ; super()
        fn = e.func
        if isinstance(fn, ast.Name) and fn.id == "cast" and len(e.args) == 2:
            return self.eval(e.args[1], scope)
        if isinstance(fn, ast.Name) and fn.id == "super":
            return self.make_super(e, scope)
        f = self.eval(fn, scope)
        args = []
        for a in e.args:
            if isinstance(a, ast.Starred):
                items = self.iterate(self.eval(a.value, scope))
                if items is None:
                    raise OutOfSubset("*args of unknown length")
                args.extend(items)
            else:
                args.append(self.eval(a, scope))
        kwargs = {}
        for k in e.keywords:
            if k.arg is None:
                d = self.eval(k.value, scope)
                if not isinstance(d, VDict):
                    raise OutOfSubset("**kwargs of non-dict")
                kwargs.update(d.d)
            else:
                kwargs[k.arg] = self.eval(k.value, scope)
        # append-site watches:  <name>.append(v)
        if isinstance(fn, ast.Attribute) and fn.attr in ("append", "add") and isinstance(fn.value, ast.Name):
            w = CTX.watches.get((fn.attr, self._fkey(scope), fn.value.id))
            if w is not None:
                w(NS(scope), args[0])
        return self.call(f, args, kwargs)

    def make_super(self, e, scope):
        s = scope
        while s is not None and (s.func is None or s.func.cls is None):
            s = s.parent
        if s is None:
            raise OutOfSubset("super() outside a method")
        cls = s.func.cls
        first = s.func.node.args.args[0].arg
        selfobj = s.vars[first]
        return _Super(cls, selfobj)

    # comprehensions
    def _comp(self, e, scope, emit):
        inner = Scope(scope.module, scope, scope.qualname)

        def rec(gi):
            if gi == len(e.generators):
                emit(inner)
                return
            g = e.generators[gi]
            it = self.eval(g.iter, inner)
            items = self.iterate(it)
            if items is None:
                raise _SymComp(it)
            for x in items:
                self.assign_target(g.target, x, inner)
                if all(self.truthy(self.eval(c, inner)) for c in g.ifs):
                    rec(gi + 1)

        rec(0)

    def ex_ListComp(self, e, scope):
        out = []
        try:
            self._comp(e, scope, lambda sc: out.append(self.eval(e.elt, sc)))
        except _SymComp as sc:
            return self._sym_comp(e, scope, sc.it)
        return VList(out)

    def ex_GeneratorExp(self, e, scope):
        out = []
        try:
            self._comp(e, scope, lambda sc: out.append(self.eval(e.elt, sc)))
        except _SymComp as sc:
            return self._sym_comp(e, scope, sc.it)
        return IterVal(out)

    def ex_SetComp(self, e, scope):
        out = []
        self._comp(e, scope, lambda sc: out.append(self.eval(e.elt, sc)))
        return VSet(out)

    def ex_DictComp(self, e, scope):
        out = {}

        def emit(sc):
            out[self.eval(e.key, sc)] = self.eval(e.value, sc)

        self._comp(e, scope, emit)
        return VDict(out)

    def _sym_comp(self, e, scope, it):
        """comprehension over something of symbolic length.  Single generator, no filter: the element
        is evaluated once for an arbitrary in-range index k (local assumption 0 <= k < n; a
        data-dependent branch inside is outside the subset); the result is a symbolic list defined
        pointwise when the element is int- or ref-valued, otherwise a list of that length with
        unknown contents."""
        if CTX.mode != "sym":
            raise OutOfSubset("unbounded comprehension in concrete mode")
        if len(e.generators) != 1:
            raise OutOfSubset("nested comprehension over symbolic range")
        g = e.generators[0]
        inner = Scope(scope.module, scope, scope.qualname)
        k = z3.Int(CTX.fresh_name("ck"))
        from .values import _elem_wrap
        if isinstance(it, GhostVal) and hasattr(it, "pv_comprehension"):
            return it.pv_comprehension(self, e, scope)
        if isinstance(it, RangeVal) and it.step == 1 and len(g.ifs) == 1 and isinstance(g.target, ast.Name):
            r = self._filtered_range_comp(e, g, scope, it)
            if r is not None:
                return r
        if isinstance(it, GhostVal):
            # comprehension over a ghost sequence: lazily evaluated pointwise list (the element expression is
            # evaluated for the requested index in the scope as it is at that time)
            if len(g.ifs):
                raise OutOfSubset("filtered comprehension over a ghost sequence")
            src = it

            def elem(j):
                sc = Scope(scope.module, scope, scope.qualname)
                self.assign_target(g.target, src.pv_getitem(j), sc)
                return self.eval(e.elt, sc)

            ln = src.pv_len()
            return PointwiseSeq(ln if isinstance(ln, int) else z3.simplify(ln.t), elem, "comprehension")
        if isinstance(it, RangeVal) and it.step == 1:
            n = _zint(it.stop) - _zint(it.start)
            x = mk_int(_zint(it.start) + k)
        elif isinstance(it, VList):
            n = _zint(it.len())
            x = _elem_wrap(it.kind, z3.Select(it.arr, k))
        else:
            # opaque iterable: evaluate the element once (events, exceptions), result unknown
            self.assign_target(g.target, it.factory() if isinstance(it, AbstractSeq) else Opaque("elem"), inner)
            for c in g.ifs:
                self.truthy(self.eval(c, inner))
            self.eval(e.elt, inner)
            r = VList([])
            r.havoc("ref")
            return r
        n = z3.simplify(z3.If(n > 0, n, 0))
        CTX.push_scope(z3.And(k >= 0, k < n))
        try:
            if CTX.solver.check() == z3.unsat:
                return VList([])  # n == 0 on this path
            self.assign_target(g.target, x, inner)
            if g.ifs:
                for c in g.ifs:
                    self.eval(c, inner)
                self.eval(e.elt, inner)
                v = None
            else:
                v = self.eval(e.elt, inner)
        finally:
            CTX.pop_scope()
        if g.ifs or v is None:
            r = VList([])
            r.havoc("ref")
            CTX.assume(r.length <= n)
            return r
        zi = _zint(v) if not isinstance(v, (SBool, bool)) else None
        if zi is not None:
            return VList(None, n, z3.Lambda([k], zi), "int")
        if isinstance(v, SRef):
            return VList(None, n, z3.Lambda([k], v.t), "ref")
        r = VList([])
        r.havoc("ref")
        CTX.assume(r.length == n)
        return r


    def _filtered_range_comp(self, e, g, scope, rng):
        """[f(i) for i in range(a, b) if i not in E] with E a list/tuple of at most two integers: the order-preserving
        enumeration of the indices outside E (CPython semantics of the filter), as a lazy pointwise list.  Returns
        None when the filter has another shape."""
        c = g.ifs[0]
        if not (isinstance(c, ast.Compare) and len(c.ops) == 1 and isinstance(c.ops[0], ast.NotIn)
                and isinstance(c.left, ast.Name) and c.left.id == g.target.id):
            return None
        E = self.eval(c.comparators[0], scope)
        items = self.iterate(E)
        if items is None or len(items) > 2 or any(_zint(x) is None for x in items):
            return None
        lo, hi = _zint(rng.start), _zint(rng.stop)
        n = z3.If(hi > lo, hi - lo, 0)
        es = [_zint(x) for x in items]
        inr = [z3.And(x >= lo, x < hi) for x in es]
        if len(es) == 0:
            cnt = z3.IntVal(0)
        elif len(es) == 1:
            cnt = z3.If(inr[0], 1, 0)
        else:
            cnt = z3.If(inr[0], 1, 0) + z3.If(z3.And(inr[1], es[1] != es[0]), 1, 0)
        length = z3.simplify(n - cnt)

        def elem(k):
            # k-th kept index: skip the excluded ones that lie at or before it
            kz = _zint(k)
            if len(es) == 0:
                idx = lo + kz
            elif len(es) == 1:
                idx = lo + kz + z3.If(z3.And(inr[0], es[0] <= lo + kz), 1, 0)
            else:
                a = z3.If(es[0] <= es[1], es[0], es[1])
                b = z3.If(es[0] <= es[1], es[1], es[0])
                ina = z3.And(a >= lo, a < hi)
                inb = z3.And(b >= lo, b < hi, b != a)
                s1 = lo + kz + z3.If(z3.And(ina, a <= lo + kz), 1, 0)
                idx = s1 + z3.If(z3.And(inb, b <= s1), 1, 0)
            sc = Scope(scope.module, scope, scope.qualname)
            self.assign_target(g.target, mk_int(z3.simplify(idx)), sc)
            return self.eval(e.elt, sc)

        return PointwiseSeq(length, elem, "filtered-range-comprehension")


class _SymComp(Exception):
    def __init__(self, it):
        self.it = it


class _Super:
    def __init__(self, cls, obj):
        self.cls = cls
        self.obj = obj
