"""Property-level driver: runs the proved tier (pyvc), the native run-time-contract tier, the
encoding cross-check and the property's bounded engines; writes evidence; prints VIOLATION /
KNOWN-FINDING / UNDECIDED lines; returns the exit code (0 held, 1 violation, 2 undecided, 3 crash).
"""

import hashlib
import importlib
import itertools
import json
import os
import random
import subprocess
import sys
import time
import traceback
from concurrent.futures import ProcessPoolExecutor

VERIF = os.path.dirname(os.path.dirname(os.path.abspath(__file__)))
NPROC = int(os.environ.get("VERIF_NPROC", "16"))


def repo_root():
    return os.environ.get("VERIF_REPO", "/repo")


# ------------------------------------------------------------------------------------------------
# worker functions (top level so they can be pickled)
def _load(modnames):
    from pyvc import api
    for m in modnames:
        importlib.import_module(m)
    return api


def _w_sym(args):
    modnames, key, case, timeout_ms = args[:4]
    try:
        api = _load(modnames)
        from pyvc import interp as _im
        _im.EXPECTED_LOOP_HEADERS.clear()
        _im.EXPECTED_LOOP_HEADERS.update(args[4] if len(args) > 4 else {})
        h = api.HARNESSES[key]
        r = api.run_sym(h, case, timeout_ms=timeout_ms)
        return dict(key=key, case=case, obligs=r.obligs, undecided=r.undecided, paths=r.paths,
                    completed=r.completed, cover_ok=r.cover_ok, secs=r.secs, functions=r.functions, facts=r.facts,
                    lemmas=r.lemmas, crash=None, loop_headers=getattr(r, "loop_headers", {}))
    except Exception:
        return dict(key=key, case=case, obligs=[], undecided=[], paths=0, completed=0, cover_ok=False, secs=0,
                    functions={}, facts=0, lemmas=[], crash=traceback.format_exc()[-2000:], loop_headers={})


_LEMMAS_SEEN = set()


def _w_native(args):
    """run one harness case natively on a list of inputs (+ interpreter cross-check on a subset)"""
    modnames, key, case, inputs, xcheck_every = args
    try:
        api = _load(modnames)
        h = api.HARNESSES[key]
        out = dict(key=key, case=case, n=0, skipped=0, failures=[], xcheck=0, xmismatch=[], crash=None)
        for i, inp in enumerate(inputs):
            st, log = api.run_concrete(h, case, inp, "native")
            out["n"] += 1
            if st == "skipped":
                out["skipped"] += 1
            elif st != "ok":
                if len(out["failures"]) < 50:
                    out["failures"].append(dict(inputs=inp, status=st))
                out.setdefault("nfail", 0)
                out["nfail"] += 1
            if xcheck_every and i % xcheck_every == 0:
                oc1 = list(api.CTX.outcomes)
                st2, _ = api.run_concrete(h, case, inp, "interp")
                oc2 = list(api.CTX.outcomes)
                out["xcheck"] += 1
                # the real function's outcomes (return / exception type per call) must agree, and
                # the harness verdict must agree (ok / skipped / failing)
                good = lambda x: x if x in ("ok", "skipped") else "bad"
                if not st2.startswith("oos:") and (oc1 != oc2 or good(st) != good(st2)):
                    out["xmismatch"].append(dict(inputs=inp, native=st, interp=st2, outcomes=(oc1, oc2)))
        return out
    except Exception:
        return dict(key=key, case=case, n=0, skipped=0, failures=[], xcheck=0, xmismatch=[],
                    crash=traceback.format_exc()[-2000:])


# ------------------------------------------------------------------------------------------------
class Report:
    """collects everything one check run produces"""

    def __init__(self, prop, tier, seed, level):
        self.prop, self.tier, self.seed, self.level = prop, tier, seed, level
        self.t0 = time.time()
        self.violations = []     # dict(signature, detail, replay)
        self.undecided = []      # str
        self.crashes = []
        self.coverage = {}
        self.assumptions = []
        self.samples = []
        self.evaluations = 0
        self.distinct = set()
        self.notes = []

    # -- bounded engines use these
    def case(self, key, nontrivial=True, sample=None):
        self.evaluations += 1
        if nontrivial:
            self.distinct.add(key if isinstance(key, (str, int, tuple)) else repr(key))
        if sample is not None and len(self.samples) < 12:
            self.samples.append(sample)

    def violation(self, signature, detail, replay=None):
        self.violations.append(dict(signature=signature, detail=detail, replay=replay))

    def undecide(self, what):
        self.undecided.append(what)


def load_known_findings():
    p = os.path.join(VERIF, "known_findings.json")
    if not os.path.exists(p):
        return []
    with open(p) as f:
        return json.load(f).get("findings", [])


def load_baseline(prop):
    """names of the obligations discharged on the pinned (repaired) tree; committed, written only by
    tools/update_baseline.py"""
    p = os.path.join(VERIF, "baseline", "%s.json" % prop)
    if not os.path.exists(p):
        return set()
    with open(p) as f:
        return set(json.load(f)["discharged"])


def load_loop_headers(prop):
    """headers of the loops that carry loop contracts, as they were on the tree the contracts were written for"""
    p = os.path.join(VERIF, "baseline", "%s.json" % prop)
    if not os.path.exists(p):
        return {}
    with open(p) as f:
        return json.load(f).get("loop_headers", {})


def write_replay(prop, name, payload):
    d = os.path.join(VERIF, "replays")
    os.makedirs(d, exist_ok=True)
    h = hashlib.sha256(json.dumps(payload, sort_keys=True, default=str).encode()).hexdigest()[:10]
    safe = "".join(c if c.isalnum() or c in "-_." else "_" for c in name)[:80]
    p = os.path.join(d, "%s_%s_%s.json" % (prop, safe, h))
    with open(p, "w") as f:
        json.dump(payload, f, indent=1, default=str)
    return os.path.relpath(p, VERIF)


def git_head(path):
    try:
        return subprocess.run(["git", "-C", path, "rev-parse", "HEAD"], capture_output=True, text=True).stdout.strip()
    except Exception:
        return "?"


def run_pyvc(cfg, rep, tier):
    """proved tier + native run-time-contract tier + cross-check for the property's harness modules"""
    from pyvc import api
    modnames = list(cfg.HARNESS_MODULES)
    _load(modnames)
    keys = [k for k in api.HARNESSES if k[0] == cfg.PROP] + [tuple(k) for k in getattr(cfg, "EXTRA_HARNESSES", [])]
    # mechanical scan: loop contracts that state their own heap effect (ghost_havoc) are exempt from the dynamic frame check
    trusted_frames = []
    for mname in modnames:
        try:
            src = open(os.path.join(VERIF, mname.replace(".", "/") + ".py")).read()
            k = src.count("ghost_havoc=")
            if k:
                trusted_frames.append("%s (%d)" % (mname, k))
        except OSError:
            pass
    if trusted_frames:
        rep.assumptions.append("loop contracts that state the loop's heap effect themselves (ghost_havoc) are trusted with it, the dynamic "
                               "frame check of pyvc does not apply to them: " + ", ".join(trusted_frames))
    timeout_ms = 30000 if tier == "quick" else 120000
    tasks = []
    expected_headers = load_loop_headers(cfg.PROP)
    for k in keys:
        for case in api.HARNESSES[k].cases:
            tasks.append((modnames, k, case, timeout_ms, expected_headers))
    results = []
    t0 = time.time()
    # every case has its own wall-clock budget inside the worker (api.run_sym); a worker that still does not come back (a solver
    # call that ignores its time-out on changed code) is given up after twice that budget and its case is undecided
    case_limit = 2 * (240.0 if timeout_ms <= 150000 else 960.0) + 60
    ex = ProcessPoolExecutor(NPROC)
    try:
        futs = [ex.submit(_w_sym, t) for t in tasks]
        t_pool = time.time()
        for t, f in zip(tasks, futs):
            try:
                r = f.result(timeout=max(5.0, case_limit + 30 * len(tasks) / max(1, NPROC) - (time.time() - t_pool)))
            except Exception as e:          # concurrent.futures.TimeoutError (or a broken pool)
                r = dict(key=t[1], case=t[2], obligs=[], undecided=["the worker for this case did not come back within its time limit (%s)" % type(e).__name__],
                         paths=0, completed=0, cover_ok=True, secs=0, functions={}, facts=0, lemmas=[], crash=None, loop_headers={})
            results.append(r)
    finally:
        for p_ in list(getattr(ex, "_processes", {}).values()):
            try:
                if p_.is_alive():
                    p_.kill()
            except Exception:
                pass
        ex.shutdown(wait=False, cancel_futures=True)
    # cases with undecided obligations are re-run alone with a larger budget (verdicts must not
    # depend on how busy the 16 cores were)
    rerun_spent = 0.0
    for i, r in enumerate(results):
        if r["crash"] is None and any(o["status"] == "unknown" for o in r["obligs"]):
            # no second run for a case that is decided anyway (an obligation of it is refuted), that ran out of its time budget, or
            # once the second runs have taken five minutes together: the open obligations stay `unknown` (on changed code every
            # obligation may go to the solver's time-out, and the check has to end)
            if rerun_spent > 300 or any(o["status"] == "refuted" for o in r["obligs"]) or any("time budget" in u for u in r["undecided"]):
                continue
            t_r = time.time()
            ex1 = ProcessPoolExecutor(1)
            try:
                r2 = ex1.submit(_w_sym, (modnames, r["key"], r["case"], timeout_ms * 5, expected_headers)).result(timeout=case_limit)
            except Exception:
                r2 = dict(crash="second run did not come back")
            finally:
                for p_ in list(getattr(ex1, "_processes", {}).values()):
                    try:
                        if p_.is_alive():
                            p_.kill()
                    except Exception:
                        pass
                ex1.shutdown(wait=False, cancel_futures=True)
            rerun_spent += time.time() - t_r
            if r2["crash"] is None:
                r2["secs"] += r["secs"]
                results[i] = r2
    solver_secs = sum(r["secs"] for r in results)
    wall = time.time() - t0
    # ---- aggregate
    by_name = {}
    functions = {}
    harness_status = {}
    total_inst = 0
    facts = 0
    for r in results:
        hk = "%s/%s" % r["key"]
        hs = harness_status.setdefault(hk, dict(cases=0, paths=0, undecided=[], crash=None, cover=True, group=api.HARNESSES[r["key"]].group))
        hs["cases"] += 1
        hs["paths"] += r["paths"]
        facts += r["facts"]
        if r["crash"]:
            hs["crash"] = r["crash"]
            rep.crashes.append("%s %s: %s" % (hk, r["case"], r["crash"][-400:]))
        if not r["cover_ok"] and not r["crash"] and not r["undecided"]:
            hs["cover"] = False
            rep.crashes.append("%s %s: vacuous harness (no feasible completed path)" % (hk, r["case"]))
        if not r["obligs"] and not r["crash"] and not r["undecided"]:
            rep.crashes.append("%s %s: zero obligations" % (hk, r["case"]))
        for u in r["undecided"]:
            hs["undecided"].append(u)
            rep.undecide("%s[%s]: %s" % (hk, r["case"], u))
        functions.update(r["functions"])
        for o in r["obligs"]:
            total_inst += 1
            e = by_name.setdefault(o["name"], dict(status="proved", inst=0, secs=0.0, models=[], key=r["key"], case=r["case"], detail="", solver=set()))
            e["inst"] += 1
            e["secs"] += o["secs"]
            e["solver"].add(o["solver"])
            if o["status"] == "refuted":
                e["status"] = "refuted"
                e["models"].append(o["model"])
                e["detail"] = o["detail"]
            elif o["status"] == "unknown" and e["status"] == "proved":
                e["status"] = "unknown"
                e["detail"] = o["detail"]
                e["smt2"] = o.get("smt2")
    # cvc5 second opinion for unknowns
    for name, e in by_name.items():
        if e["status"] == "unknown" and e.get("smt2"):
            verdict = cvc5_decide(e["smt2"], 60 if tier == "quick" else 300)
            if verdict == "unsat":
                e["status"] = "proved"
                e["solver"].add("cvc5")
    # lemma dependencies: a harness that used an instance of a lemma relies on that lemma's harness
    lemma_deps = {}
    for r in results:
        for l in r["lemmas"]:
            lemma_deps.setdefault(l, set()).add("%s/%s" % r["key"])
    for l, users in sorted(lemma_deps.items()):
        obs = [e for n, e in by_name.items() if n.startswith(l + "[")]
        if not obs or any(e["status"] != "proved" for e in obs):
            rep.undecide("lemma %s is not fully proved but is used by %s" % (l, sorted(users)))
    baseline = load_baseline(cfg.PROP)
    rep.proved_names = sorted(n for n, e in by_name.items() if e["status"] == "proved")
    rep.loop_headers = {}
    for r in results:
        rep.loop_headers.update(r.get("loop_headers") or {})
    # obligations of the baseline that this run did not produce at all (the contract text no longer reaches them:
    # renamed variable, moved statement, harness not applicable): undecided, never silently dropped
    absent = sorted(n for n in baseline if n not in by_name)
    if absent:
        rep.undecide("%d obligation(s) discharged on the pinned tree were not produced on this code (e.g. %s)" % (len(absent), absent[0]))
    n_ob = len(by_name)
    n_proved = sum(1 for e in by_name.values() if e["status"] == "proved")
    # ---- refuted obligations: replay natively
    for name, e in sorted(by_name.items()):
        if e["status"] == "refuted":
            h = api.HARNESSES[e["key"]]
            confirmed = None
            for m in e["models"][:5]:
                st, log = api.run_concrete(h, e["case"], m or {}, "native")
                if st not in ("ok", "skipped"):
                    confirmed = (m, st, log)
                    break
            payload = dict(property=cfg.PROP, obligation=name, harness="%s/%s" % e["key"], case=e["case"],
                           solver_models=e["models"][:5], solver_detail=e["detail"], tree=repo_root(),
                           how="./check %s --replay <this file>" % cfg.PROP)
            short = name.split("/", 1)[1] if "/" in name else name
            short = short.split("[")[0] + "/" + short.split("]/")[-1] if "]/" in short else short
            native_ran = False
            if not confirmed:
                # did the native replay evaluate the contract at all (harness has a native mode) and pass?
                for m in e["models"][:2]:
                    st, log = api.run_concrete(h, e["case"], m or {}, "native")
                    if st == "ok" and any(ok is True for _, ok in log):
                        native_ran = True
            imprecise = (e.get("detail") or "").startswith("imprecise:")
            if not confirmed and (native_ran or imprecise):
                why = ("the counter-model passes the same contract natively" if native_ran else e["detail"])
                rep.undecide("%s: refuted by the solver but not a reproducible failure (%s)" % (name, why[:200]))
                continue
            if confirmed:
                payload.update(inputs=confirmed[0], native_status=confirmed[1],
                               native_log=[x for x in confirmed[2] if not x[1]][:10], replayed=True)
                rp = write_replay(cfg.PROP, short, payload)
                rep.violation("pyvc:" + short, "obligation refuted; counterexample %s replays natively: %s" % (confirmed[0], confirmed[1]), rp)
            else:
                payload.update(replayed=False)
                rp = write_replay(cfg.PROP, short, payload)
                v = dict(signature="pyvc:" + short, detail="obligation refuted by the solver (%s); model %s does not fail natively" % (e["detail"], e["models"][:1]),
                         replay=rp + " no-failing-input-found")
                if getattr(h, "structural", False):
                    # the obligation pins down an internal arrangement the property does not prescribe: it is a
                    # violation only together with a semantic difference found by the bounded tier of this check
                    rep.__dict__.setdefault("structural_refuted", []).append(v)
                else:
                    rep.violations.append(v)
        elif e["status"] == "unknown":
            if name in baseline:
                # discharged on the pinned tree, not discharged now: reported as a violation without a
                # failing input (the solver gave no model); the replay file carries the solver's reason
                short = name.split("/", 1)[1] if "/" in name else name
                short = short.split("[")[0] + "/" + short.split("]/")[-1] if "]/" in short else short
                payload = dict(property=cfg.PROP, obligation=name, harness="%s/%s" % e["key"], case=e["case"], replayed=False,
                               solver_detail="obligation was discharged on the pinned tree and is now %s: %s" % (e["status"], e["detail"]),
                               tree=repo_root(), how="./check %s --replay <this file>" % cfg.PROP)
                rp = write_replay(cfg.PROP, short + "_regressed", payload)
                rep.violation("pyvc:" + short + ":no-longer-discharged",
                              "obligation %s was discharged on the pinned tree and is no longer (%s)" % (name, e["detail"]), rp + " no-failing-input-found")
            else:
                rep.undecide("%s: solver unknown (%s)" % (name, e["detail"]))
    # ---- native run-time contracts + interpreter cross-check
    rnd = random.Random(rep.seed)
    ntasks = []
    cap = 400 if tier == "quick" else 20000
    for k in keys:
        h = api.HARNESSES[k]
        if h.native_inputs is None:
            continue
        for case in h.cases:
            inputs = list(itertools.islice(h.native_inputs(api.Case(case)), 200000))
            if len(inputs) > cap:
                inputs = rnd.sample(inputs, cap)
            ntasks.append((modnames, k, case, inputs, 7 if tier == "quick" else 3))
    nres = []
    with ProcessPoolExecutor(NPROC) as ex:
        for r in ex.map(_w_native, ntasks, chunksize=1):
            nres.append(r)
    n_native = sum(r["n"] for r in nres)
    n_skipped = sum(r["skipped"] for r in nres)
    n_x = sum(r["xcheck"] for r in nres)
    for r in nres:
        hk = "%s/%s" % r["key"]
        if r["crash"]:
            rep.crashes.append("native %s: %s" % (hk, r["crash"][-400:]))
        groups = {}
        for f in r["failures"]:
            groups.setdefault(f["status"], f)
        for st, f in groups.items():
            case_s = repr(api.Case(r["case"]))
            sig = "native:%s:%s" % (r["key"][1], st)
            payload = dict(property=cfg.PROP, harness=hk, case=r["case"], inputs=f["inputs"], native_status=st,
                           tree=repo_root(), replayed=True)
            rp = write_replay(cfg.PROP, "%s_%s" % (r["key"][1], st), payload)
            rep.violation(sig, "run-time contract fails natively on %s (%d failing inputs in this case)" % (f["inputs"], r.get("nfail", 1)), rp)
        for mm in r["xmismatch"][:3]:
            rep.crashes.append("encoding cross-check mismatch %s %s: %s" % (hk, r["case"], mm))
        for i in range(min(1, len(nres))):
            pass
    # ---- evidence
    samples = []
    for name, e in list(sorted(by_name.items()))[:: max(1, n_ob // 8)][:10]:
        samples.append(dict(obligation=name, status=e["status"], path_instances=e["inst"], solver=sorted(e["solver"]),
                            solver_secs=round(e["secs"], 3)))
    rep.coverage.update(
        obligations=n_ob, discharged=n_proved, obligation_path_instances=total_inst,
        checker_cmd="./check %s --tier %s   (pyvc: AST of %s re-read, VCs to z3 %s, cvc5 for unknowns)" % (cfg.PROP, tier, repo_root(), _z3v()),
        functions_under_contract={k: v for k, v in sorted(functions.items())},
        harnesses={k: dict(cases=v["cases"], paths=v["paths"], group=v["group"]) for k, v in sorted(harness_status.items())},
        solver_secs=round(solver_secs, 2), proved_tier_wall_s=round(wall, 2),
        ground_facts_asserted=facts, lemmas_used={k: sorted(v) for k, v in sorted(lemma_deps.items())},
        native_contract_evaluations=n_native, native_skipped_by_requires=n_skipped, encoding_crosscheck_runs=n_x,
        cover_checks="every harness case must reach its end on a feasible path and `assert False` there must be refuted",
    )
    rep.samples.extend(samples)
    rep.evaluations += n_native
    for r in nres:
        rep.distinct.add("%s%s" % (r["key"][1], sorted(r["case"].items())))
    return by_name


def _z3v():
    try:
        import z3
        return z3.get_version_string()
    except Exception:
        return "?"


def cvc5_decide(smt2, secs):
    try:
        p = subprocess.run(["/usr/bin/cvc5", "--lang=smt2", "--tlimit=%d" % (secs * 1000), "--strings-exp"],
                           input=smt2 + "\n(check-sat)\n" if "(check-sat)" not in smt2 else smt2,
                           capture_output=True, text=True, timeout=secs + 10)
        out = p.stdout.strip().split("\n")[0] if p.stdout.strip() else ""
        return out
    except Exception:
        return "error"


def _watchdog(prop, tier):
    """a check must end: code under test that never returns (a changed library routine that loops for ever) is a checker
    error (exit 3, nothing claimed), not a hanging run.  Limits are several times the slowest check of the tier."""
    import threading
    limit = int(os.environ.get("VERIF_WATCHDOG_S", "0") or 0) or (2400 if tier == "quick" else 4 * 3600)

    def fire():
        sys.stdout.write("CHECKER-ERROR property=%s the %s check did not finish within %d s (code under test that does not "
                         "return, or an overloaded machine); nothing is claimed\n" % (prop, tier, limit))
        sys.stdout.flush()
        try:
            import signal
            os.killpg(os.getpgid(0), signal.SIGTERM) if os.environ.get("VERIF_WATCHDOG_KILLPG") else None
        except Exception:
            pass
        os._exit(3)
    t = threading.Timer(limit, fire)
    t.daemon = True
    t.start()


def main(argv=None):
    import argparse
    ap = argparse.ArgumentParser()
    ap.add_argument("prop")
    ap.add_argument("--tier", default=os.environ.get("VERIF_TIER", "quick"))
    ap.add_argument("--replay")
    a = ap.parse_args(argv)
    seed = int(os.environ.get("VERIF_SEED", "0") or 0)
    sys.path.insert(0, VERIF)
    os.chdir(VERIF)
    cfg = importlib.import_module("props.%s" % a.prop)
    if a.replay:
        return replay(cfg, a.replay)
    rep = Report(a.prop, a.tier, seed, cfg.LEVEL)
    _watchdog(a.prop, a.tier)
    try:
        if getattr(cfg, "HARNESS_MODULES", None):
            run_pyvc(cfg, rep, a.tier)
        if hasattr(cfg, "bounded"):
            cfg.bounded(a.tier, seed, rep)
    except Exception:
        rep.crashes.append(traceback.format_exc()[-3000:])
    sr = getattr(rep, "structural_refuted", [])
    if sr:
        if rep.violations:
            rep.violations.extend(sr)
        else:
            for v in sr:
                rep.undecide("%s: structural obligation does not hold for this code and the bounded tier found no semantic difference (%s)"
                             % (v["signature"], v["detail"][:160]))
    return finish(cfg, rep)


def finish(cfg, rep):
    known = [k for k in load_known_findings() if k.get("property") == cfg.PROP]
    open_findings = [k for k in known if k.get("status") == "finding"]
    new_viol = []
    matched = {}
    for v in rep.violations:
        hit = None
        for k in open_findings:
            m = k.get("match")
            if k.get("signature") == v["signature"] or (m and v["signature"].startswith(m.get("startswith", "")) and
                                                     all(c in v["signature"] for c in m.get("contains", []))):
                hit = k
                break
        if hit is not None:
            matched.setdefault(hit.get("signature") or json.dumps(hit.get("match"), sort_keys=True), (hit, v))
        else:
            new_viol.append(v)
    for sig, (k, v) in sorted(matched.items()):
        print("KNOWN-FINDING: property=%s %s" % (cfg.PROP, k.get("what", sig)))
    seen = set()
    for v in new_viol:
        if v["signature"] in seen:
            continue
        seen.add(v["signature"])
        print("VIOLATION property=%s replay=%s" % (cfg.PROP, v["replay"] or "none"))
        print("  signature=%s  %s" % (v["signature"], v["detail"][:400]))
    for u in rep.undecided[:40]:
        print("UNDECIDED property=%s obligation=%s" % (cfg.PROP, u[:300]))
    for c in rep.crashes[:20]:
        print("CHECKER-ERROR property=%s %s" % (cfg.PROP, c[:1500]))
    cov = dict(rep.coverage)
    cov.setdefault("trusted_base", list(getattr(cfg, "TRUSTED", [])))
    cov["evaluations"] = max(rep.evaluations, 0)
    cov["distinct_nontrivial"] = len(rep.distinct)
    cov.setdefault("rule", getattr(cfg, "RULE", "see DESIGN.md"))
    cov["samples"] = rep.samples[:14] or [dict(note="no sample recorded")]
    cov["undecided"] = rep.undecided[:50]
    cov["known_findings_reproduced"] = sorted(matched)
    cov["violation_signatures"] = sorted(seen)
    cov["notes"] = rep.notes
    cov["repo_tree"] = repo_root()
    cov["repo_head"] = git_head(repo_root())
    ev = dict(property_id=cfg.PROP, tier=rep.tier, seed=rep.seed, level=rep.level, coverage=cov,
              assumptions=list(getattr(cfg, "ASSUMPTIONS", [])) + rep.assumptions,
              wall_s=round(time.time() - rep.t0, 2), violations=len(seen))
    if getattr(rep, "proved_names", None) is not None:
        os.makedirs(os.path.join(VERIF, "scratch"), exist_ok=True)
        other = "" if os.path.realpath(repo_root()) == "/repo" else "other_tree_"
        with open(os.path.join(VERIF, "scratch", "proved_%s%s.json" % (other, cfg.PROP)), "w") as f:
            json.dump(dict(property=cfg.PROP, tree=repo_root(), head=git_head(repo_root()), discharged=rep.proved_names,
                           loop_headers=getattr(rep, "loop_headers", {})), f)
    # evidence/ describes runs against /repo itself; a run against another tree ($VERIF_REPO, used for seeded changes
    # and refactorings in scratch worktrees) leaves its report under scratch/ so that it never masks the real one
    evdir = os.path.join(VERIF, "evidence") if os.path.realpath(repo_root()) == "/repo" else os.path.join(VERIF, "scratch", "evidence_other_tree")
    os.makedirs(evdir, exist_ok=True)
    with open(os.path.join(evdir, "%s.json" % cfg.PROP), "w") as f:
        json.dump(ev, f, indent=1, default=str)
    if rep.crashes:
        code = 3
    elif seen:
        code = 1
    elif rep.undecided and cov["evaluations"] == 0:
        code = 2          # nothing at all was decided
    else:
        # undecided obligations (code left the verified subset / solver unknown on an obligation that is not in
        # the baseline) are printed and recorded, but they are not an alarm: the verdict then comes from the
        # native run-time contracts and the bounded engines of the same check
        code = 0
    if rep.undecided and code == 0:
        print("NOTE property=%s proved tier undecided for %d item(s); verdict from the native/bounded tiers (%d evaluations, no violation)"
              % (cfg.PROP, len(rep.undecided), cov["evaluations"]))
    print("RESULT property=%s tier=%s exit=%d obligations=%s discharged=%s evaluations=%d violations=%d known=%d undecided=%d wall=%.1fs"
          % (cfg.PROP, rep.tier, code, cov.get("obligations", "-"), cov.get("discharged", "-"), cov["evaluations"],
             len(seen), len(matched), len(rep.undecided), time.time() - rep.t0))
    return 1 if (seen and code == 3) else code


def replay(cfg, path):
    from pyvc import api
    with open(path) as f:
        payload = json.load(f)
    if hasattr(cfg, "replay") and payload.get("engine") not in (None, "pyvc"):
        return cfg.replay(payload)
    _load(cfg.HARNESS_MODULES)
    prop, hname = payload["harness"].split("/")
    h = api.HARNESSES[(prop, hname)]
    inputs = payload.get("inputs") or (payload.get("solver_models") or [{}])[0]
    st, log = api.run_concrete(h, payload["case"], inputs, "native")
    print("replay %s case=%s inputs=%s -> %s" % (payload["harness"], payload["case"], inputs, st))
    for name, ok in log:
        if ok is not True:
            print("   ", name, ok)
    return 0 if st in ("ok", "skipped") else 1


if __name__ == "__main__":
    sys.exit(main())
