"""Models of CPython builtins and of the standard-library pieces the code under contract touches.

Each model is an *assumed contract* on an external function; they are listed in the evidence
(`trusted_base`).  String functions whose meaning SMT cannot express directly (`hex`, `int(s, b)`,
`str.lower`, `str.isdigit`, `ord`, `str(int)`) are uninterpreted functions; facts about them are
asserted by the harnesses as ground instances only.
"""

import ast

import z3

from .ctx import CTX, OutOfSubset, PathEnd
from .sym import (SInt, SBool, SStr, SRef, SBV, SReal, PyRaise, mk_int, mk_bool, mk_str, _zint, _zbool, zstr,
                  is_sym, ite)
from .values import (Opaque, AbstractSeq, OneShotIter, EnumMember, FuncVal, BoundMethod, PropertyVal, HostFn, HostModule, ClassVal, VObj,
                     RangeVal, IterVal, VDict, VSet, VList, GhostVal, PointwiseSeq, kind_of_value, _elem_wrap, _elem_unwrap, note_write)

ITERABLE = HostFn(lambda: None, "collections.abc.Iterable")
SEQUENCE = HostFn(lambda: None, "collections.abc.Sequence")

S = z3.StringSort()
I = z3.IntSort()
B = z3.BoolSort()
UF = {
    "lower": z3.Function("py_lower", S, S),
    "isdigit": z3.Function("py_isdigit", S, B),
    "int10": z3.Function("py_int10", S, I),
    "int16": z3.Function("py_int16", S, I),
    "int36": z3.Function("py_int36", S, I),
    "int10_ok": z3.Function("py_int10_ok", S, B),
    "int16_ok": z3.Function("py_int16_ok", S, B),
    "int36_ok": z3.Function("py_int36_ok", S, B),
    "hex": z3.Function("py_hex", I, S),
    "str_int": z3.Function("py_str_int", I, S),
    "ord": z3.Function("py_ord", S, I),
}


def py_isinstance(interp, v, T):
    if isinstance(T, tuple):
        rs = [py_isinstance(interp, v, t) for t in T]
        return any(rs)
    T = getattr(T, "pytype", None) or T
    if isinstance(v, Opaque):
        raise OutOfSubset("isinstance on an opaque value (%s)" % v.label)
    if isinstance(v, SRef):
        # opaque element references: the harness states which classes they are instances of
        cb = CTX.ghost.get("sref_isinstance")
        if cb is not None:
            T2 = getattr(T, "pytype", None) or T
            if isinstance(T2, ClassVal):
                return cb(v, T2)
            pt = CTX.ghost.get("sref_pytype")
            if pt is not None and isinstance(T2, type):
                return pt(v, T2)
            return False
        classes = CTX.ghost.get("sref_classes")
        if classes is None:
            raise OutOfSubset("isinstance on an opaque reference")
        T2 = getattr(T, "pytype", None) or T
        if isinstance(T2, ClassVal):
            if not classes:
                # nothing is known about the classes of opaque elements: "not an instance" would be a guess
                raise OutOfSubset("isinstance(<opaque element>, %s): the contract does not say what the elements are" % T2.name)
            return any(c.name in classes for c in [T2]) or any(n in classes and T2 in _mro_by_name(interp, T2, n) for n in ())
        return False
    if isinstance(v, GhostVal):
        py = {"list": list, "set": set, "dict": dict, "tuple": tuple}.get(v.pv_pytype)
        if T in (ITERABLE,):
            return py is not None
        if T is SEQUENCE:
            return py in (list, tuple)
        if T is object:
            return True
        if isinstance(T, type):
            return py is not None and issubclass(py, T)
        return False
    if T is int:
        return isinstance(v, (int, SInt, SBool, SBV))
    if T is bool:
        return isinstance(v, (bool, SBool))
    if T is str:
        return isinstance(v, (str, SStr))
    if T is float:
        return isinstance(v, (float, SReal))
    if T is list:
        return isinstance(v, VList)
    if T is tuple:
        return isinstance(v, tuple)
    if T is slice:
        return isinstance(v, slice)
    if T is dict:
        return isinstance(v, VDict)
    if T is set:
        return isinstance(v, VSet)
    if T is type:
        return isinstance(v, (ClassVal, type))
    if T is object:
        return True
    if T is ITERABLE:
        if isinstance(v, (VList, tuple, str, SStr, VDict, VSet, RangeVal, IterVal, AbstractSeq, OneShotIter)):
            return True
        if isinstance(v, VObj):
            m, _ = v.cls.lookup("__iter__")
            return m is not None
        return False
    if T is SEQUENCE:
        return isinstance(v, (VList, tuple, str, SStr, RangeVal))
    if isinstance(T, ClassVal):
        return isinstance(v, VObj) and T in v.cls.mro()
    if isinstance(T, type):
        return isinstance(v, T)
    raise OutOfSubset("isinstance against %r" % (T,))


def _mro_by_name(interp, T, n):
    return []


def _len(interp, v):
    if isinstance(v, GhostVal):
        return v.pv_len()
    if isinstance(v, VList):
        return v.len()
    if isinstance(v, (tuple, str)):
        return len(v)
    if isinstance(v, SStr):
        return mk_int(z3.Length(v.t))
    if isinstance(v, VDict):
        return len(v.d) + len(v.sym)
    if isinstance(v, VSet):
        if v.abstract:
            raise OutOfSubset("len of abstract set")
        return len(v.items)
    if isinstance(v, RangeVal):
        if v.step != 1:
            if v.concrete():
                return len(range(v.start, v.stop, v.step))
            raise OutOfSubset("len of stepped symbolic range")
        d = v.stop - v.start
        if isinstance(d, int):
            return max(d, 0)
        return mk_int(z3.If(d.t > 0, d.t, 0))
    if isinstance(v, IterVal):
        raise PyRaise(TypeError("object of type 'generator' has no len()"))
    if isinstance(v, VObj):
        m, _ = v.cls.lookup("__len__")
        if m is None:
            raise PyRaise(TypeError("object of type %s has no len()" % v.cls.name))
        return interp.call(BoundMethod(m, v), [], {})
    if isinstance(v, AbstractSeq) and v.length is not None:
        return v.length
    if isinstance(v, (Opaque, AbstractSeq)):
        if CTX.mode != "sym":
            return 0
        n = z3.Int(CTX.fresh_name("opaque_len"))
        CTX.assume(n >= 0)
        return SInt(n)
    raise PyRaise(TypeError("object has no len()"))


def _minmax(interp, args, kwargs, is_min):
    if kwargs:
        raise OutOfSubset("min/max with key")
    if len(args) == 1:
        items = interp.iterate(args[0])
        if items is None:
            raise OutOfSubset("min/max of symbolic-length iterable")
        args = items
    if not args:
        raise PyRaise(ValueError("min()/max() arg is an empty sequence"))
    acc = args[0]
    for x in args[1:]:
        if isinstance(acc, (int, SInt, bool, SBool)) and isinstance(x, (int, SInt, bool, SBool)) and (is_sym(acc) or is_sym(x)):
            za, zx = _zint(acc), _zint(x)
            # Python returns the first of equal elements; for ints the value is what matters
            acc = mk_int(z3.If(zx < za, zx, za) if is_min else z3.If(zx > za, zx, za))
        else:
            c = interp.compare_one(ast.Lt() if is_min else ast.Gt(), x, acc)
            if interp.truthy(c):
                acc = x
    return acc


def _int(interp, args, kwargs):
    if not args:
        return 0
    v = args[0]
    base = args[1] if len(args) > 1 else kwargs.get("base")
    if isinstance(v, (bool, SBool)):
        return v + 0
    if isinstance(v, (int, SInt)) and base is None:
        return v
    if isinstance(v, SBV):
        return v.to_int()
    if isinstance(v, str) and not is_sym(base):
        try:
            return int(v) if base is None else int(v, base)
        except ValueError as e:
            raise PyRaise(ValueError(str(e)))
    if isinstance(v, SStr):
        b = 10 if base is None else base
        if b not in (10, 16, 36):
            raise OutOfSubset("int(s, %r)" % (b,))
        ok = UF["int%d_ok" % b](v.t)
        if not CTX.branch(ok):
            raise PyRaise(ValueError("invalid literal for int()"))
        return SInt(UF["int%d" % b](v.t))
    if isinstance(v, float):
        return int(v)
    if isinstance(v, Opaque):
        return SInt(z3.Int(CTX.fresh_name("opaque_int")))
    raise PyRaise(TypeError("int() argument must be a string or a number"))


def _str(interp, args, kwargs):
    if not args:
        return ""
    v = args[0]
    if isinstance(v, (str, SStr)):
        return v
    if isinstance(v, bool):
        return str(v)
    if isinstance(v, int):
        return str(v)
    if v is None:
        return "None"
    if isinstance(v, SInt):
        return SStr(UF["str_int"](v.t))
    if isinstance(v, SBool):
        return mk_str(z3.If(v.t, z3.StringVal("True"), z3.StringVal("False")))
    if isinstance(v, tuple):
        if all(isinstance(x, int) for x in v):
            return str(v)
    if isinstance(v, (EnumMember,)):
        return repr(v)
    if CTX.mode == "sym":
        # rendering of a compound / symbolic value (only ever used for messages): an unknown string
        return SStr(z3.String(CTX.fresh_name("rendered")))
    return "<%s>" % type(v).__name__


def _list(interp, args, kwargs):
    if not args:
        return VList([])
    v = args[0]
    if isinstance(v, PointwiseSeq):
        return v.pv_copy()
    if isinstance(v, OneShotIter):
        return v.take().snapshot()
    if isinstance(v, VList):
        return v.snapshot()
    items = interp.iterate(v)
    if items is None:
        if isinstance(v, Opaque):
            r = VList([])
            r.havoc("ref")
            return r
        raise OutOfSubset("list() of symbolic-length iterable")
    return VList(items)


def _tuple(interp, args, kwargs):
    if not args:
        return ()
    items = interp.iterate(args[0])
    if items is None:
        if isinstance(args[0], VList) and CTX.mode == "sym":
            # tuple of a list of symbolic length: an opaque tuple value; the event records what it was made of
            res = SRef(z3.Int(CTX.fresh_name("tuple")))
            CTX.event("tuple", items=args[0].snapshot(), result=res)
            return res
        raise OutOfSubset("tuple() of symbolic-length iterable")
    return tuple(items)


def pointwise(interp, n, elem_at, fn):
    """list of length n (z3 int term, >= 0) whose k-th element is fn(elem_at(k)): fn is evaluated once
    for an arbitrary in-range k (local assumption; a data-dependent branch inside is outside the subset);
    the element must be int-, ref- or str-valued."""
    if CTX.mode != "sym":
        raise OutOfSubset("pointwise list in concrete mode")
    k = z3.Int(CTX.fresh_name("pk"))
    n = z3.simplify(z3.If(n > 0, n, 0))
    CTX.push_scope(z3.And(k >= 0, k < n))
    try:
        if CTX.solver.check() == z3.unsat:
            return VList([])
        v = fn(elem_at(mk_int(k)))
    finally:
        CTX.pop_scope()
    kind = kind_of_value(v)
    if isinstance(v, (bool, SBool)) or (kind == "ref" and not isinstance(v, SRef)):
        r = VList([])
        r.havoc("ref")
        CTX.assume(r.length == n)
        return r
    return VList(None, n, z3.Lambda([k], _elem_unwrap(kind, v)), kind)


def _map(interp, args, kwargs):
    f = args[0]
    seqs = [interp.iterate(a) for a in args[1:]]
    if any(s is None for s in seqs):
        src = args[1]
        if isinstance(src, OneShotIter):
            src = src.take()
        if len(args) == 2 and isinstance(src, VList) and not src.is_concrete():
            frozen = src.snapshot()
            r = pointwise(interp, frozen.length, lambda k: _elem_wrap(frozen.kind, z3.Select(frozen.arr, k.t)),
                          lambda x: interp.call(f, [x], {}))
            return OneShotIter(r)
        if len(args) == 2 and isinstance(src, GhostVal):
            n = _zint(src.pv_len())
            r = pointwise(interp, n, lambda k: src.pv_getitem(k), lambda x: interp.call(f, [x], {}))
            return OneShotIter(r)
        raise OutOfSubset("map over symbolic-length iterable")
    return IterVal([interp.call(f, list(xs), {}) for xs in zip(*seqs)])


def _all(interp, args, kwargs):
    items = interp.iterate(args[0])
    if items is None:
        raise OutOfSubset("all() over symbolic-length iterable")
    for x in items:
        if not interp.truthy(x):
            return False
    return True


def _any(interp, args, kwargs):
    items = interp.iterate(args[0])
    if items is None:
        if isinstance(args[0], VList) and CTX.mode == "sym":
            return SBool(z3.Bool(CTX.fresh_name("any_unknown")))   # over-approximation: unknown
        raise OutOfSubset("any() over symbolic-length iterable")
    for x in items:
        if interp.truthy(x):
            return True
    return False


def _sum(interp, args, kwargs):
    items = interp.iterate(args[0])
    if items is None:
        start = args[1] if len(args) > 1 else kwargs.get("start", 0)
        src = args[0]
        if isinstance(src, (PointwiseSeq, GhostVal)) and CTX.ghost.get("sum") is not None:
            # sum over a ghost sequence of ghost records: the harness supplies the abstract value
            r = CTX.ghost["sum"](src, start)
            if r is not None:
                return r
        if isinstance(src, PointwiseSeq) and isinstance(start, VList) and start.is_concrete() and not start.items and CTX.mode == "sym":
            # sum([[..c items..] for ...], []) : flattening of fixed-size lists
            k = z3.Int(CTX.fresh_name("fk"))
            n = _zint(src.pv_len())
            CTX.push_scope(z3.And(k >= 0, k < n))
            try:
                if CTX.solver.check() == z3.unsat:
                    return VList([])
                probe = src.fn(mk_int(k))
            finally:
                CTX.pop_scope()
            if isinstance(probe, VList) and probe.is_concrete():
                c = len(probe.items)
                if c == 0:
                    return VList([])
                return PointwiseSeq(z3.simplify(n * c), lambda j: src.fn(j // c).get(j % c), "flatten")
        if isinstance(start, VList) and isinstance(args[0], (VList, Opaque, AbstractSeq)):
            r = VList([])
            r.havoc("ref")   # concatenation of an unknown number of lists
            return r
        raise OutOfSubset("sum() over symbolic-length iterable")
    acc = args[1] if len(args) > 1 else kwargs.get("start", 0)
    for x in items:
        acc = interp.binop(ast.Add(), acc, x)
    return acc


def _enumerate(interp, args, kwargs):
    items = interp.iterate(args[0])
    if items is None and isinstance(args[0], VObj):
        m, _ = args[0].cls.lookup("__iter__")
        if m is not None:
            args = [interp.call(BoundMethod(m, args[0]), [], {})] + list(args[1:])
    if items is None and isinstance(args[0], GhostVal):
        src0 = args[0]
        try:
            ln = src0.pv_len()
        except OutOfSubset:
            ln = None
        if ln is not None:
            # (i, src[i]) for an arbitrary position i: index and element belong together
            def fac0():
                i = z3.Int(CTX.fresh_name("enum_i"))
                CTX.assume(z3.And(i >= 0, i < _zint(ln)))
                return (SInt(i), src0.pv_getitem(SInt(i)))
            return AbstractSeq(fac0, "enumerate", length=ln)
        r = src0.pv_iter()
        if isinstance(r, AbstractSeq):
            args = [r] + list(args[1:])
    if items is None:
        if isinstance(args[0], AbstractSeq):
            src = args[0]

            def fac():
                i = z3.Int(CTX.fresh_name("enum_i"))
                CTX.assume(i >= 0)
                if src.length is not None:
                    CTX.assume(i < _zint(src.length))
                return (SInt(i), src.factory())

            return AbstractSeq(fac, "enumerate", length=src.length)
        if isinstance(args[0], Opaque):
            return Opaque("enumerate")
        raise OutOfSubset("enumerate over symbolic-length iterable")
    start = args[1] if len(args) > 1 else kwargs.get("start", 0)
    return IterVal([(start + i, x) for i, x in enumerate(items)])


def _zip(interp, args, kwargs):
    seqs = [interp.iterate(a) for a in args]
    if any(s is None for s in seqs) and args and all(isinstance(a, GhostVal) and hasattr(a, "pv_getitem") for a in args):
        # ghost sequences of symbolic length: the pointwise list of tuples, as long as the shortest argument
        from .values import PointwiseSeq
        try:
            lens = [_zint(a.pv_len()) for a in args]
        except OutOfSubset:
            lens = None
        if lens is not None and all(l is not None for l in lens):
            ln = lens[0]
            for l in lens[1:]:
                ln = z3.If(l < ln, l, ln)
            srcs = list(args)
            return PointwiseSeq(z3.simplify(ln) if not isinstance(ln, int) else ln, lambda j: tuple(a.pv_getitem(j) for a in srcs), "zip")
    if any(s is None for s in seqs):
        return Opaque("zip")
    return IterVal([tuple(xs) for xs in zip(*seqs)])


def _reversed(interp, args, kwargs):
    items = interp.iterate(args[0])
    if items is None:
        raise OutOfSubset("reversed over symbolic-length iterable")
    return IterVal(list(reversed(items)))


def _sorted(interp, args, kwargs):
    items = interp.iterate(args[0])
    if items is None or kwargs:
        raise OutOfSubset("sorted()")
    import functools

    def cmp(a, b):
        if interp.truthy(interp.compare_one(ast.Lt(), a, b)):
            return -1
        if interp.truthy(interp.compare_one(ast.Lt(), b, a)):
            return 1
        return 0

    return VList(sorted(items, key=functools.cmp_to_key(cmp)))


def _range(interp, args, kwargs):
    for a in args:
        if not isinstance(a, (int, SInt, SBool, bool)):
            raise PyRaise(TypeError("range() integer argument expected"))
    args = [a + 0 if isinstance(a, (bool, SBool)) else a for a in args]
    if len(args) == 1:
        return RangeVal(0, args[0], 1)
    if len(args) == 2:
        return RangeVal(args[0], args[1], 1)
    if len(args) == 3:
        if is_sym(args[2]):
            raise OutOfSubset("range with symbolic step")
        if args[2] == 0:
            raise PyRaise(ValueError("range() arg 3 must not be zero"))
        return RangeVal(args[0], args[1], args[2])
    raise PyRaise(TypeError("range expected 1..3 arguments"))


def _isinstance(interp, args, kwargs):
    return py_isinstance(interp, args[0], args[1])


def _hasattr(interp, args, kwargs):
    v, name = args
    if name == "__iter__":
        return py_isinstance(interp, v, ITERABLE)
    if isinstance(v, VObj):
        if name in v.fields:
            return True
        a, _ = v.cls.lookup(name)
        return a is not None
    raise OutOfSubset("hasattr(%r, %r)" % (v, name))


def _type(interp, args, kwargs):
    v = args[0]
    if isinstance(v, VObj):
        return v.cls
    if isinstance(v, (bool, SBool)):
        return bool
    if isinstance(v, (int, SInt)):
        return int
    if isinstance(v, (str, SStr)):
        return str
    if isinstance(v, VList):
        return list
    if isinstance(v, tuple):
        return tuple
    if v is None:
        return type(None)
    raise OutOfSubset("type() of %r" % (v,))


def _abs(interp, args, kwargs):
    return abs(args[0])


def _bool(interp, args, kwargs):
    if not args:
        return False
    v = args[0]
    if isinstance(v, SBool):
        return v
    if isinstance(v, SInt):
        return mk_bool(v.t != 0)
    return interp.truthy(v)


def _float(interp, args, kwargs):
    v = args[0]
    if isinstance(v, (int, float)):
        return float(v)
    zi = _zint(v)
    if zi is not None:
        return SReal(z3.ToReal(zi))
    raise OutOfSubset("float() of %r" % (v,))


def _hex(interp, args, kwargs):
    v = args[0]
    if isinstance(v, int):
        return hex(v)
    if isinstance(v, SInt):
        return SStr(UF["hex"](v.t))
    raise PyRaise(TypeError("hex() of non-int"))


def _ord(interp, args, kwargs):
    v = args[0]
    if isinstance(v, str):
        if len(v) != 1:
            raise PyRaise(TypeError("ord() expected a character"))
        return ord(v)
    if isinstance(v, SStr):
        if not CTX.branch(z3.Length(v.t) == 1):
            raise PyRaise(TypeError("ord() expected a character"))
        return mk_int(z3.StrToCode(v.t))      # code point of the single character (SMT-LIB str.to_code)
    raise PyRaise(TypeError("ord() expected string"))


def _iter(interp, args, kwargs):
    v = args[0]
    if isinstance(v, OneShotIter):
        return v
    items = interp.iterate(v)
    if items is None:
        if isinstance(v, (VList, Opaque, AbstractSeq, GhostVal)):
            return v  # symbolic list / unknown iterable: iteration handled by the loop protocol
        raise OutOfSubset("iter() of symbolic-length iterable")
    return IterVal(items)


def _set(interp, args, kwargs):
    if not args:
        return VSet([])
    items = interp.iterate(args[0])
    if items is None:
        raise OutOfSubset("set() of symbolic-length iterable")
    out = []
    for x in items:
        if not any(interp.truthy(interp.compare_one(ast.Eq(), x, y)) for y in out):
            out.append(x)
    return VSet(out)


def _dict(interp, args, kwargs):
    d = VDict()
    if args:
        if isinstance(args[0], VDict):
            d.d.update(args[0].d)
        else:
            raise OutOfSubset("dict(iterable)")
    d.d.update(kwargs)
    return d


def _print(interp, args, kwargs):
    return None


def _slice(interp, args, kwargs):
    return slice(*args)


def _getattr(interp, args, kwargs):
    try:
        return interp.getattr(args[0], args[1])
    except PyRaise as p:
        if len(args) > 2 and isinstance(p.exc, AttributeError):
            return args[2]
        raise


def _divmod(interp, args, kwargs):
    a, b = args
    return (interp.binop(ast.FloorDiv(), a, b), interp.binop(ast.Mod(), a, b))


def _id_fn(name):
    def f(interp, args, kwargs):
        raise OutOfSubset("builtin %s" % name)
    return f


def make_builtins(interp):
    raw = dict(len=lambda i, a, k: _len(i, a[0]), min=lambda i, a, k: _minmax(i, a, k, True),
               max=lambda i, a, k: _minmax(i, a, k, False), int=_int, str=_str, list=_list, tuple=_tuple,
               map=_map, all=_all, any=_any, sum=_sum, enumerate=_enumerate, zip=_zip, reversed=_reversed,
               sorted=_sorted, range=_range, isinstance=_isinstance, hasattr=_hasattr, type=_type, abs=_abs,
               bool=_bool, float=_float, hex=_hex, ord=_ord, iter=_iter, set=_set, dict=_dict, print=_print,
               slice=_slice, getattr=_getattr, divmod=_divmod, id=_id_fn("id"), hash=_id_fn("hash"),
               open=_id_fn("open"), eval=_id_fn("eval"), exec=_id_fn("exec"))
    b = {}
    for k, f in raw.items():
        h = HostFn(f, k, raw=True)
        h.pytype = {"int": int, "str": str, "list": list, "tuple": tuple, "bool": bool, "float": float,
                    "set": set, "dict": dict, "slice": slice, "type": type}.get(k)
        b[k] = h
    for exc in (Exception, ValueError, TypeError, IndexError, KeyError, AssertionError, RuntimeError,
                NotImplementedError, ImportError, ModuleNotFoundError, AttributeError, ZeroDivisionError,
                RecursionError, StopIteration, NameError, OSError, ArithmeticError, LookupError, BaseException):
        b[exc.__name__] = exc
    b["None"] = None
    b["True"] = True
    b["False"] = False
    b["NotImplemented"] = NotImplemented
    b["object"] = object
    b["__name__"] = "__pyvc__"
    return b


def _type_of(v):
    """map the HostFn standing for a builtin type to the python type (for isinstance)."""
    return getattr(v, "pytype", None) or v


# ---------------------------------------------------------------------------- host modules
def make_host_modules(interp):
    def reduce_(i, args, kwargs):
        f, seq = args[0], args[1]
        items = i.iterate(seq)
        if items is None:
            raise OutOfSubset("reduce over symbolic-length iterable")
        if len(args) > 2:
            acc = args[2]
        else:
            if not items:
                raise PyRaise(TypeError("reduce() of empty iterable with no initial value"))
            acc, items = items[0], items[1:]
        for x in items:
            acc = i.call(f, [acc, x], {})
        return acc

    def chain_(i, args, kwargs):
        """itertools.chain: concatenation of the argument iterables (symbolic lists are concatenated
        symbolically)"""
        acc = VList([])
        for a in args:
            items = i.iterate(a)
            if items is not None:
                acc = acc.concat(VList(items))
                continue
            src = a
            if isinstance(a, VObj):
                m, _ = a.cls.lookup("__iter__")
                if m is None:
                    raise PyRaise(TypeError("object is not iterable"))
                src = i.call(BoundMethod(m, a), [], {})
            if isinstance(src, OneShotIter):
                src = src.take()
            if isinstance(src, VList):
                acc = acc.concat(src)
            else:
                raise OutOfSubset("chain over %r" % (src,))
        return OneShotIter(acc)

    def deepcopy_(i, args, kwargs):
        return _deepcopy(args[0])

    def import_module_(i, args, kwargs):
        name = args[0]
        m = i._resolve_module_name(name)
        if m is None:
            return i.import_unknown(name)
        return m

    def warn_(i, args, kwargs):
        CTX.event("warn", msg=args[0] if args else None)
        return None

    def typevar_(i, args, kwargs):
        return Opaque("TypeVar")

    typing_names = ["Any", "Generic", "Iterable", "Iterator", "List", "Literal", "Optional", "Sequence", "Tuple",
                    "TypeVar", "Union", "Set", "Dict", "Callable", "Type"]
    typing_attrs = {n: Opaque("typing." + n) for n in typing_names}
    typing_attrs["TypeVar"] = HostFn(typevar_, "TypeVar", raw=True)
    typing_attrs["TYPE_CHECKING"] = False
    typing_attrs["cast"] = HostFn(lambda i, a, k: a[1], "cast", raw=True)
    typing_attrs["overload"] = HostFn(lambda i, a, k: a[0], "overload", raw=True)
    typing_attrs["Sequence"] = SEQUENCE
    typing_attrs["Iterable"] = ITERABLE

    environ = _Environ()

    def exp_(i, args, kwargs):
        return Opaque("float")

    mods = {
        "functools": HostModule("functools", {"reduce": HostFn(reduce_, "reduce", raw=True)}),
        "itertools": HostModule("itertools", {"chain": HostFn(chain_, "chain", raw=True)}),
        "copy": HostModule("copy", {"deepcopy": HostFn(deepcopy_, "deepcopy", raw=True)}),
        "importlib": HostModule("importlib", {"import_module": HostFn(import_module_, "import_module", raw=True)}),
        "warnings": HostModule("warnings", {"warn": HostFn(warn_, "warn", raw=True)}),
        "typing": HostModule("typing", typing_attrs),
        "enum": HostModule("enum", {"Enum": HostFn(lambda: None, "Enum"), "auto": HostFn(lambda: None, "auto")}),
        "os": HostModule("os", {"environ": environ}),
        "sys": HostModule("sys", {"stderr": Opaque("stderr")}),
        "math": HostModule("math", {"exp": HostFn(exp_, "exp", raw=True)}),
        "re": HostModule("re", {"compile": HostFn(lambda i, a, k: Opaque("regex"), "compile", raw=True)}),
        "signal": HostModule("signal", {}),
        "subprocess": HostModule("subprocess", {}),
        "random": HostModule("random", {}),
    }
    mods["collections.abc"] = HostModule("collections.abc", {"Iterable": ITERABLE, "Sequence": SEQUENCE})
    mods["collections"] = HostModule("collections", {"abc": mods["collections.abc"]})
    return mods


class _Environ:
    """os.environ: a partial map from names to strings, symbolic (CTX.ghost['environ'])."""


class _Chain:
    def __init__(self, parts):
        self.parts = list(parts)


def _deepcopy(v):
    if isinstance(v, GhostVal):
        if hasattr(v, "pv_deepcopy"):
            return v.pv_deepcopy()
        raise OutOfSubset("deepcopy of ghost value %s" % type(v).__name__)
    if isinstance(v, VList):
        if v.is_concrete():
            return VList([_deepcopy(x) for x in v.items])
        return v.snapshot()
    if isinstance(v, tuple):
        return tuple(_deepcopy(x) for x in v)
    if isinstance(v, VDict):
        r = VDict({k: _deepcopy(x) for k, x in v.d.items()})
        r.sym = [(kk, _deepcopy(x)) for kk, x in v.sym]
        return r
    if isinstance(v, VObj):
        return VObj(v.cls, {k: _deepcopy(x) for k, x in v.fields.items()})
    return v


# ---------------------------------------------------------------------------- attribute models
def host_getattr(interp, v, name):
    from .interp import _Super

    if isinstance(v, _Super):
        mro = v.obj.cls.mro()
        idx = mro.index(v.cls)
        for c in mro[idx + 1:]:
            if name in c.attrs:
                a = c.attrs[name]
                if isinstance(a, FuncVal):
                    return BoundMethod(a, v.obj)
                return a
        if name == "__init__":
            return HostFn(lambda i, a, k: None, "object.__init__", raw=True)
        raise PyRaise(AttributeError("super object has no attribute %r" % name))
    if isinstance(v, GhostVal):
        return v.pv_getattr(name)
    if isinstance(v, VList):
        return _list_method(interp, v, name)
    if isinstance(v, (str, SStr)):
        return _str_method(interp, v, name)
    if isinstance(v, VDict):
        return _dict_method(interp, v, name)
    if isinstance(v, VSet):
        return _set_method(interp, v, name)
    if isinstance(v, slice):
        if name in ("start", "stop", "step"):
            return getattr(v, name)
        if name == "indices":
            from . import pyslice_model
            return HostFn(lambda i, a, k: pyslice_model.indices(v, a[0]), "slice.indices", raw=True)
    if isinstance(v, EnumMember):
        if name == "name":
            return v.name
        if name == "value":
            return v.value
    if isinstance(v, BaseException):
        if name == "args":
            return tuple(v.args)
    if isinstance(v, _Environ):
        if name == "get":
            def get(i, a, k):
                env = CTX.ghost.get("environ")
                if env is None:
                    raise OutOfSubset("os.environ read without a modelled environment")
                key = a[0]
                default = a[1] if len(a) > 1 else None
                CTX.event("environ_get", key=key)
                if key in env:
                    present, val = env[key]
                    if interp.truthy(present):
                        return val
                return default
            return HostFn(get, "environ.get", raw=True)
    if isinstance(v, Opaque):
        return Opaque(v.label + "." + name)
    if isinstance(v, SRef) and CTX.ghost.get("sref_getattr") is not None:
        return CTX.ghost["sref_getattr"](v, name)
    if isinstance(v, HostFn) and name == "__name__":
        return v.name
    if isinstance(v, FuncVal) and name == "__name__":
        return v.node.name
    if isinstance(v, type) and name == "__name__":
        return v.__name__
    if isinstance(v, tuple):
        if name == "index" or name == "count":
            raise OutOfSubset("tuple.%s" % name)
    if isinstance(v, (int, SInt)) and name == "bit_length":
        raise OutOfSubset("int.bit_length")
    if isinstance(v, SRef):
        raise OutOfSubset("attribute %s of an opaque reference" % name)
    raise PyRaise(AttributeError("%r has no attribute %r" % (v, name)))


def host_getitem(interp, v, k):
    if isinstance(v, _Environ):
        raise OutOfSubset("os.environ[...]")
    if isinstance(v, SRef):
        # an opaque reference stands for an object the contract says nothing about: what subscripting it does is unknown
        raise OutOfSubset("subscript of an opaque reference")
    raise PyRaise(TypeError("%r is not subscriptable" % (v,)))


def _list_method(interp, lst, name):
    def append(i, a, k):
        lst.append(a[0])

    def extend(i, a, k):
        if isinstance(a[0], VList):
            lst.extend(a[0])
        else:
            items = i.iterate(a[0])
            if items is None:
                raise OutOfSubset("extend with symbolic-length iterable")
            lst.extend(items)

    def reverse(i, a, k):
        note_write(lst)
        lst.items = list(reversed(lst.iter_items()))

    def copy(i, a, k):
        return lst.snapshot()

    def pop(i, a, k):
        items = lst.iter_items()
        if not items:
            raise PyRaise(IndexError("pop from empty list"))
        idx = a[0] if a else -1
        if is_sym(idx):
            raise OutOfSubset("pop with symbolic index")
        note_write(lst)
        return lst.items.pop(idx)

    def index(i, a, k):
        for j, x in enumerate(lst.iter_items()):
            if i.truthy(i.compare_one(ast.Eq(), x, a[0])):
                return j
        raise PyRaise(ValueError("x not in list"))

    def insert(i, a, k):
        if is_sym(a[0]):
            raise OutOfSubset("insert with symbolic index")
        lst.iter_items()
        note_write(lst)
        lst.items.insert(a[0], a[1])

    def sort(i, a, k):
        note_write(lst)
        lst.items = _sorted(i, [lst], k).items

    def count(i, a, k):
        n = 0
        for x in lst.iter_items():
            n = n + ite(i.compare_one(ast.Eq(), x, a[0]), 1, 0) if is_sym(i.compare_one(ast.Eq(), x, a[0])) else n + (1 if i.compare_one(ast.Eq(), x, a[0]) else 0)
        return n

    m = dict(append=append, extend=extend, reverse=reverse, copy=copy, pop=pop, index=index, insert=insert,
             sort=sort, count=count)
    if name in m:
        return HostFn(m[name], "list." + name, raw=True)
    raise PyRaise(AttributeError("list has no attribute %r" % name))


def _dict_method(interp, d, name):
    def get(i, a, k):
        try:
            return i.getitem(d, a[0])
        except PyRaise as p:
            if isinstance(p.exc, KeyError):
                return a[1] if len(a) > 1 else None
            raise

    def items(i, a, k):
        return IterVal([(kk, vv) for kk, vv in d.d.items()] + list(d.sym))

    def keys(i, a, k):
        return IterVal(list(d.d.keys()) + [kk for kk, _ in d.sym])

    def values(i, a, k):
        return IterVal(list(d.d.values()) + [vv for _, vv in d.sym])

    m = dict(get=get, items=items, keys=keys, values=values)
    if name in m:
        return HostFn(m[name], "dict." + name, raw=True)
    raise PyRaise(AttributeError("dict has no attribute %r" % name))


def _set_method(interp, s, name):
    def add(i, a, k):
        note_write(s)
        if s.abstract:
            return
        for y in s.items:
            if i.truthy(i.compare_one(ast.Eq(), a[0], y)):
                return
        s.items.append(a[0])

    if name == "add":
        return HostFn(add, "set.add", raw=True)
    raise OutOfSubset("set.%s" % name)


# ---------------------------------------------------------------------------- strings
def _py_slice_bounds(n, lo, hi):
    """clamped bounds of s[lo:hi] (step 1) as z3 terms; n = length term"""
    def norm(v, default):
        if v is None:
            return default
        z = _zint(v)
        z = z3.If(z < 0, z + n, z)
        return z3.If(z < 0, z3.IntVal(0), z3.If(z > n, n, z))
    a = norm(lo, z3.IntVal(0))
    b = norm(hi, n)
    return a, b


def str_getitem(interp, s, k):
    if isinstance(k, slice):
        if k.step is not None and k.step != 1:
            raise OutOfSubset("string slice with step")
        if isinstance(s, str) and all(x is None or isinstance(x, int) for x in (k.start, k.stop)):
            return s[k]
        zs = zstr(s)
        n = z3.Length(zs)
        a, b = _py_slice_bounds(n, k.start, k.stop)
        ln = z3.If(b > a, b - a, z3.IntVal(0))
        return mk_str(z3.SubString(zs, a, ln))
    if isinstance(k, (bool, SBool)):
        k = k + 0
    if not isinstance(k, (int, SInt)):
        raise PyRaise(TypeError("string indices must be integers"))
    if isinstance(s, str) and isinstance(k, int):
        if not -len(s) <= k < len(s):
            raise PyRaise(IndexError("string index out of range"))
        return s[k]
    zs = zstr(s)
    n = z3.Length(zs)
    zk = _zint(k)
    if not CTX.branch(z3.And(zk >= -n, zk < n)):
        raise PyRaise(IndexError("string index out of range"))
    zk = z3.If(zk < 0, zk + n, zk)
    return mk_str(z3.SubString(zs, zk, 1))


def _str_method(interp, s, name):
    def lower(i, a, k):
        if isinstance(s, str):
            return s.lower()
        return SStr(UF["lower"](s.t))

    def isdigit(i, a, k):
        if isinstance(s, str):
            return s.isdigit()
        return mk_bool(UF["isdigit"](s.t))

    def format_(i, a, k):
        if not isinstance(s, str):
            raise OutOfSubset("format on symbolic template")
        if k:
            raise OutOfSubset("format with keywords")
        parts = s.split("{}")
        if len(parts) - 1 != len(a) or "{" in "".join(parts) or "}" in "".join(parts):
            raise OutOfSubset("format template %r" % s)
        out = parts[0]
        for x, p in zip(a, parts[1:]):
            out = out + _str(i, [x], {})
            out = out + p
        return out

    def join(i, a, k):
        items = i.iterate(a[0])
        if items is None:
            src = a[0].take() if isinstance(a[0], OneShotIter) else a[0]
            if isinstance(src, VList) and not src.is_concrete() and src.kind == "str" and isinstance(s, str):
                # join of a symbolic-length list of strings: an uninterpreted function of the separator and
                # the list; the harness reads the list from the event
                snap = src.snapshot()
                fn = z3.Function("py_join_%s" % "".join("%02x" % ord(c) for c in s), z3.ArraySort(I, S), I, S)
                CTX.event("join", sep=s, items=snap)
                return SStr(fn(snap.arr, snap.length))
            raise OutOfSubset("join over symbolic-length iterable")
        out = ""
        for j, x in enumerate(items):
            if not isinstance(x, (str, SStr)):
                raise PyRaise(TypeError("sequence item: expected str instance"))
            if j:
                out = out + s
            out = out + x
        return out

    def startswith(i, a, k):
        if isinstance(s, str) and isinstance(a[0], str):
            return s.startswith(a[0])
        return mk_bool(z3.PrefixOf(zstr(a[0]), zstr(s)))

    def split(i, a, k):
        if isinstance(s, str) and all(isinstance(x, (str, int)) for x in a):
            return VList(s.split(*a))
        h = CTX.ghost.get("str_split")
        if h is not None:
            # instance of the contract of str.split supplied (and justified) by the harness
            r = h(s, list(a))
            if r is not None:
                return r
        raise OutOfSubset("split on symbolic string")

    def strip(i, a, k):
        if isinstance(s, str):
            return s.strip(*a)
        h = CTX.ghost.get("str_strip")
        if h is not None:
            r = h(s, list(a))
            if r is not None:
                return r
        raise OutOfSubset("strip on symbolic string")

    def encode(i, a, k):
        raise OutOfSubset("str.encode")

    m = dict(lower=lower, isdigit=isdigit, format=format_, join=join, startswith=startswith, split=split,
             strip=strip, encode=encode)
    if name in m:
        return HostFn(m[name], "str." + name, raw=True)
    raise OutOfSubset("str.%s" % name)
