"""stub of the external solver module 'cspuz_core' speaking the Sugar wire protocol (reference implementation)"""
import _record


def solver(text):
    return _record.handle("cspuz_core.solver", text)
