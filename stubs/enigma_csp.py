"""stub of the external solver module 'enigma_csp' speaking the Sugar wire protocol (reference implementation)"""
import _record


def solver(text):
    return _record.handle("enigma_csp.solver", text)
