"""stub of the external solver module 'pycsugar' speaking the Sugar wire protocol (reference implementation)"""
import _record


def solver(text):
    return _record.handle("pycsugar.solver", text)
