"""shared by the stub 'external solvers': records every description they receive"""
import os
import sys

HERE = os.path.dirname(os.path.abspath(__file__))
sys.path.insert(0, os.path.dirname(HERE))
CALLS = []
OVERRIDE = {"reply": None}


def handle(entry, text):
    from specs import sugar_ref
    CALLS.append((entry, text))
    if OVERRIDE["reply"] is not None:
        return OVERRIDE["reply"](entry, text)
    return sugar_ref.reply(text)
