#!/venv/bin/python
"""tools/update_baseline.py Cxx ... : record the obligations discharged by the last run of ./check on the
unchanged /repo tree (scratch/proved_Cxx.json) as baseline/Cxx.json.  Run by hand only."""
import json, os, sys
HERE = os.path.dirname(os.path.dirname(os.path.abspath(__file__)))
os.makedirs(os.path.join(HERE, "baseline"), exist_ok=True)
for prop in sys.argv[1:]:
    src = os.path.join(HERE, "scratch", "proved_%s.json" % prop)
    d = json.load(open(src))
    assert d["tree"] == "/repo", "baseline must come from /repo"
    json.dump(dict(property=prop, repo_head=d["head"], discharged=d["discharged"], loop_headers=d.get("loop_headers", {})),
              open(os.path.join(HERE, "baseline", prop + ".json"), "w"))
    print(prop, len(d["discharged"]), "obligations")
