#!/venv/bin/python
"""Regenerates MANIFEST.json from props/Cxx.py (one module per claimed property)."""
import importlib, json, os, sys
HERE = os.path.dirname(os.path.dirname(os.path.abspath(__file__)))
sys.path.insert(0, HERE)
ALL = ["C%02d" % i for i in range(1, 21)]
checks, na = [], []
for pid in ALL:
    path = os.path.join(HERE, "props", pid + ".py")
    if not os.path.exists(path):
        na.append(dict(property_id=pid, reason="check not built yet in this session (planned: DESIGN.md section 2, %s)" % pid))
        continue
    cfg = importlib.import_module("props." + pid)
    if getattr(cfg, "NOT_APPLICABLE", None):
        na.append(dict(property_id=pid, reason=cfg.NOT_APPLICABLE))
        continue
    checks.append(dict(
        property_id=pid,
        quick_cmd="./check %s --tier quick" % pid,
        thorough_cmd="./check %s --tier thorough" % pid,
        evidence_file="evidence/%s.json" % pid,
        replay_cmd_template="./check %s --replay {path}" % pid,
        engine=getattr(cfg, "ENGINE", "pyvc"),
        level_claimed=dict(category=cfg.LEVEL, text=cfg.LEVEL_TEXT, design_ref=getattr(cfg, "DESIGN_REF", "DESIGN.md section 2, " + pid)),
        level_note=cfg.LEVEL_NOTE,
        technique=cfg.TECHNIQUE,
    ))
m = dict(
    version=1,
    setup_cmd="./setup.sh",
    hooks=dict(guard="CSPUZ_VERIF", enable="no hook is compiled into /repo: contracts are sidecar harnesses in /verif/contracts that read $VERIF_REPO (default /repo) at check time",
               baseline_off_cmd="cd /repo && /venv/bin/python -m pytest -ra -q -p no:cacheprovider --timeout=900 --continue-on-collection-errors",
               source_commits=[], add_only=True),
    engines=[
        dict(name="pyvc", path="pyvc/", serves_properties=[c["property_id"] for c in checks if "pyvc" in c["engine"]],
             kind_free_text="contract-based deductive verifier written for this task: re-reads the functions under contract from /repo's AST on every run, symbolically executes them against sidecar contracts (pre/postconditions, loop invariants, lemmas, callee contracts), discharges every obligation with z3 (cvc5 for unknowns); the same harness is the native run-time contract and the replay"),
        dict(name="bounded", path="bounded/", serves_properties=[c["property_id"] for c in checks if "bounded" in c["engine"]],
             kind_free_text="bounded stand-ins (never counted as proved): emission-contract checker (real emitter + reference semantics + one solver query per instance over all assignments), exhaustive small-scope enumerators"),
    ],
    checks=checks,
    not_applicable=na,
    notes="Exit codes of ./check: 0 held, 1 VIOLATION (replay file printed), 2 nothing decided (no tier produced a verdict), 3 checker error. UNDECIDED lines (solver unknown on an obligation outside the baseline / code left the verified subset) are never reported as a violation; when the native and bounded tiers of the same check found nothing the exit code stays 0. See DESIGN.md.",
)
with open(os.path.join(HERE, "MANIFEST.json"), "w") as f:
    json.dump(m, f, indent=1)
print("claimed:", [c["property_id"] for c in checks], "not claimed:", [n["property_id"] for n in na])
