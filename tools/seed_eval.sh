#!/bin/sh
# tools/seed_eval.sh <id> <out_dir> [props...]  : verify a seeded change and run checks against it.
#  1. patch applies to a scratch worktree at the pinned HEAD; test suite still has >= 558 passes
#  2. demo passes without the patch and fails with it
#  3. apply to /repo, run the given property checks (quick), undo straight afterwards
ID="$1"; OUT="$2"; shift 2
WT=/tmp/seed_eval_$ID
git -C /repo worktree remove --force "$WT" >/dev/null 2>&1
git -C /repo worktree add -q --detach "$WT" HEAD || exit 3
echo "== demo without the change"
DD=/tmp/seed_eval_demo_$ID
rm -rf "$DD"; mkdir -p "$DD"
(cd "$WT" && sed "s#/tmp/seed[0-9]*/wt_[A-Za-z0-9_]*#$WT#g" "$OUT/demo.py" > "$DD/demo.py" && PYTHONPATH="$WT" timeout 900 /venv/bin/python "$DD/demo.py" > "$DD/base.log" 2>&1; echo "exit=$?"; tail -2 "$DD/base.log")
git -C "$WT" apply "$OUT/patch.diff" || { echo "PATCH DOES NOT APPLY"; git -C /repo worktree remove --force "$WT"; exit 3; }
echo "== test suite with the change"
(cd "$WT" && /venv/bin/python -m pytest -q -p no:cacheprovider 2>&1 | tail -1)
echo "== demo with the change"
(cd "$WT" && PYTHONPATH="$WT" timeout 900 /venv/bin/python "$DD/demo.py" > "$DD/mut.log" 2>&1; echo "exit=$?"; tail -3 "$DD/mut.log")
git -C /repo worktree remove --force "$WT"
echo "== checks against the change (applied to /repo, undone afterwards)"
git -C /repo apply "$OUT/patch.diff" || exit 3
for P in "$@"; do
  (cd /verif && VERIF_NPROC=${VERIF_NPROC:-10} ./check $P --tier ${TIER:-quick} 2>&1 | grep "VIOLATION\|RESULT\|UNDECIDED\|CHECKER\|signature=" | cut -c1-330 | head -12)
done
git -C /repo checkout -- . 
git -C /repo status --short | head -3
