#!/venv/bin/python
"""tools/seed_store.py <seed id> <out dir> <property> <caught-by> <needs...>  : keep a verified seeded change"""
import json, os, shutil, sys
sid, out, prop, caught = sys.argv[1:5]
needs = " ".join(sys.argv[5:])
d = os.path.join(os.path.dirname(os.path.dirname(os.path.abspath(__file__))), "seeded", sid)
os.makedirs(d, exist_ok=True)
for f in ("patch.diff", "demo.py", "notes.md"):
    if os.path.exists(os.path.join(out, f)):
        shutil.copy(os.path.join(out, f), os.path.join(d, f))
meta = dict(id=sid, property=prop, breaks=prop, needs_to_manifest=needs, caught_by=caught,
            verified=["patch applies to the pinned /repo HEAD", "repository test suite with the change: 68 failed, 558 passed (same as baseline)",
                      "demo.py exits 0 without the change and 1 with it (tools/seed_eval.sh)",
                      "checks run with the change applied to /repo (git apply), undone afterwards (git checkout -- .)"],
            ran="tools/seed_eval.sh %s %s %s" % (sid, out, prop))
json.dump(meta, open(os.path.join(d, "meta.json"), "w"), indent=1)
print("stored", d)
