#!/bin/sh
# tools/refactor_regress.sh : every stored behaviour-preserving refactoring must pass the quick check of its property
# without a VIOLATION (false-alarm regression); prints one line per refactoring
cd /verif
for D in refactors/C*; do
  P=$(basename $D)
  for F in $D/refactor_*.diff; do
    WT=/tmp/refac_regress_$$
    git -C /repo worktree add -q --detach "$WT" HEAD || exit 3
    if git -C "$WT" apply "/verif/$F" 2>/dev/null; then
      OUT=$(VERIF_REPO="$WT" VERIF_NPROC=${VERIF_NPROC:-8} ./check $P --tier quick 2>&1)
      echo "$F violations=$(echo "$OUT" | grep -c '^VIOLATION') $(echo "$OUT" | grep RESULT | grep -o 'exit=[0-9].*undecided=[0-9]*')"
    else
      echo "$F PATCH-DOES-NOT-APPLY"
    fi
    git -C /repo worktree remove --force "$WT"
  done
done
