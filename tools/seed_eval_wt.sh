#!/bin/sh
# tools/seed_eval_wt.sh <id> <out_dir> [props...] : like seed_eval.sh but runs the checks with
# VERIF_REPO pointing at a patched scratch worktree (so /repo stays untouched and several
# evaluations can run side by side).  The final confirmation of a kept seed is still made with
# seed_eval.sh (patch applied to /repo itself, undone afterwards).
ID="$1"; OUT="$2"; shift 2
WT=/tmp/seed_evalwt_$ID
git -C /repo worktree remove --force "$WT" >/dev/null 2>&1
git -C /repo worktree add -q --detach "$WT" HEAD || exit 3
DD=/tmp/seed_evalwt_demo_$ID
rm -rf "$DD"; mkdir -p "$DD"
sed "s#/tmp/seed[0-9]*/wt_[A-Za-z0-9_]*#$WT#g" "$OUT/demo.py" > "$DD/demo.py"
echo "== demo without the change"
(cd "$WT" && PYTHONPATH="$WT" timeout 900 /venv/bin/python "$DD/demo.py" > "$DD/base.log" 2>&1; echo "exit=$?"; tail -2 "$DD/base.log")
git -C "$WT" apply "$OUT/patch.diff" || { echo "PATCH DOES NOT APPLY"; git -C /repo worktree remove --force "$WT"; exit 3; }
echo "== test suite with the change"
(cd "$WT" && /venv/bin/python -m pytest -q -p no:cacheprovider 2>&1 | tail -1)
echo "== demo with the change"
(cd "$WT" && PYTHONPATH="$WT" timeout 900 /venv/bin/python "$DD/demo.py" > "$DD/mut.log" 2>&1; echo "exit=$?"; tail -3 "$DD/mut.log")
echo "== checks against the change (VERIF_REPO=$WT)"
for P in "$@"; do
  (cd /verif && VERIF_REPO="$WT" VERIF_NPROC=${VERIF_NPROC:-8} ./check $P --tier ${TIER:-quick} 2>&1 | grep "VIOLATION\|RESULT\|UNDECIDED\|CHECKER\|signature=" | cut -c1-330 | head -12)
done
git -C /repo worktree remove --force "$WT"
rm -rf "$DD"
