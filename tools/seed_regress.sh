#!/bin/sh
# tools/seed_regress.sh [seed dirs...] : every stored seeded change must still be reported by the quick check of its
# property (patch applied to a scratch worktree, VERIF_REPO pointing at it); prints one line per seed
cd /verif
[ $# -eq 0 ] && set -- seeded/S*
for D in "$@"; do
  P=$(/venv/bin/python -c "import json,sys; print(json.load(open('$D/meta.json'))['property'])")
  WT=/tmp/seed_regress_$$
  git -C /repo worktree add -q --detach "$WT" HEAD || exit 3
  if git -C "$WT" apply "/verif/$D/patch.diff" 2>/dev/null; then
    OUT=$(VERIF_REPO="$WT" VERIF_NPROC=${VERIF_NPROC:-8} ./check $P --tier quick 2>&1)
    N=$(echo "$OUT" | grep -c "^VIOLATION")
    echo "$(basename $D) $P violations=$N $(echo "$OUT" | grep RESULT | grep -o 'exit=[0-9]')"
  else
    echo "$(basename $D) $P PATCH-DOES-NOT-APPLY"
  fi
  git -C /repo worktree remove --force "$WT"
done
