#!/bin/sh
# tools/refactor_eval.sh <prop> <diff> [more props...] : run the quick checks on a behaviour-preserving refactoring
# (VERIF_REPO = patched scratch worktree).  Any VIOLATION here is a FALSE ALARM of the check.
P="$1"; D="$2"; shift 2
WT=/tmp/refac_eval_$$
git -C /repo worktree add -q --detach "$WT" HEAD || exit 3
git -C "$WT" apply "$D" || { echo "PATCH DOES NOT APPLY: $D"; git -C /repo worktree remove --force "$WT"; exit 3; }
(cd "$WT" && /venv/bin/python -m pytest -q -p no:cacheprovider 2>&1 | tail -1)
for Q in $P "$@"; do
  (cd /verif && VERIF_REPO="$WT" VERIF_NPROC=${VERIF_NPROC:-8} ./check $Q --tier quick 2>&1 | grep "VIOLATION\|RESULT\|CHECKER\|signature=\|NOTE" | cut -c1-260 | head -8)
done
git -C /repo worktree remove --force "$WT"
