/-
C10 — lemma over the emission contract of `active_edges_connected_crossable` (cspuz/graph.py).

The function posts, for the lattice points p and segments s of a grid frame (every segment has two end points and is
horizontal or vertical; `act s` = the segment is active; d(p) = number of active segments at p):
  flags passed(p), cross(p):   cross(p) -> passed(p);   no cross on the border;
  not passed(p) -> d(p) = 0;   passed(p) and cross(p) -> d(p) = 4;
  passed(p) and not cross(p) -> d(p) = 2          (single_cycle)      /   1 <= d(p) <= 2   (otherwise);
  and the connectivity constraint (C04) on an auxiliary graph with three nodes per point — `single p` (active iff passed
  and not cross), `dh p`, `dv p` (active iff cross) — and one node per segment (active iff the segment is), where a
  segment node is joined to `single p` and to `dh p` (horizontal segment) / `dv p` (vertical segment) for both its ends p.
Theorem: such flags exist exactly when every point meets 0, 1, 2 or 4 active segments (0, 2 or 4 for a cycle; 4 never on
the border) and all active segments form ONE strand, where two active segments are joined when they share a point that is
not a 4-way point, or share a 4-way point and have the same direction (the straight pairs pass through each other).
The flags are then determined: passed(p) iff d(p) > 0, cross(p) iff d(p) = 4.
-/
import Mathlib.Data.Fintype.Card
import Mathlib.Logic.Relation
import Mathlib.Tactic

open Finset

namespace C10

attribute [local instance] Classical.propDecidable

variable {P S : Type} [Fintype P] [Fintype S]

inductive Node (P S : Type)
  | single (p : P)
  | dh (p : P)
  | dv (p : P)
  | seg (s : S)

structure Frame (P S : Type) where
  e0 : S → P
  e1 : S → P
  hor : S → Prop
  border : P → Prop

variable (F : Frame P S) (act : S → Prop)

def Frame.meets (F : Frame P S) (s : S) (p : P) : Prop := F.e0 s = p ∨ F.e1 s = p

/-- active segments at p -/
noncomputable def inc (p : P) : Finset S := univ.filter (fun s => F.meets s p ∧ act s)

noncomputable def deg (p : P) : ℕ := (inc F act p).card

/-- lattice geometry used: at most two segments of either direction at a point, at most three at a border point -/
def Lattice : Prop :=
  (∀ p, (univ.filter (fun s => F.meets s p ∧ F.hor s)).card ≤ 2 ∧ (univ.filter (fun s => F.meets s p ∧ ¬ F.hor s)).card ≤ 2) ∧
  (∀ p, F.border p → (univ.filter (fun s => F.meets s p)).card ≤ 3)

/-- adjacency of the auxiliary graph -/
def adj : Node P S → Node P S → Prop
  | Node.seg s, Node.single p => F.meets s p
  | Node.single p, Node.seg s => F.meets s p
  | Node.seg s, Node.dh p => F.meets s p ∧ F.hor s
  | Node.dh p, Node.seg s => F.meets s p ∧ F.hor s
  | Node.seg s, Node.dv p => F.meets s p ∧ ¬ F.hor s
  | Node.dv p, Node.seg s => F.meets s p ∧ ¬ F.hor s
  | _, _ => False

def nodeAct (passed cross : P → Prop) : Node P S → Prop
  | Node.single p => passed p ∧ ¬ cross p
  | Node.dh p => cross p
  | Node.dv p => cross p
  | Node.seg s => act s

def AuxConnected (passed cross : P → Prop) : Prop :=
  ∀ a b, nodeAct act passed cross a → nodeAct act passed cross b →
    Relation.ReflTransGen (fun x y => adj F x y ∧ nodeAct act passed cross x ∧ nodeAct act passed cross y) a b

/-- the posted schema; `cyc` = single_cycle -/
def Enc (cyc : Prop) (passed cross : P → Prop) : Prop :=
  (∀ p, cross p → passed p) ∧ (∀ p, F.border p → ¬ cross p) ∧
  (∀ p, ¬ passed p → deg F act p = 0) ∧ (∀ p, passed p → cross p → deg F act p = 4) ∧
  (∀ p, passed p → ¬ cross p → (cyc → deg F act p = 2) ∧ (¬ cyc → 1 ≤ deg F act p ∧ deg F act p ≤ 2)) ∧
  AuxConnected F act passed cross

/-- two active segments are joined at a common point: any two at an ordinary point, the straight pairs at a 4-way point -/
def link (s t : S) : Prop :=
  act s ∧ act t ∧ ∃ p, F.meets s p ∧ F.meets t p ∧ (deg F act p = 4 → (F.hor s ↔ F.hor t))

def OneStrand : Prop := ∀ s t, act s → act t → Relation.ReflTransGen (link F act) s t

def DegOK (cyc : Prop) : Prop :=
  ∀ p, (deg F act p = 0 ∨ deg F act p = 2 ∨ deg F act p = 4 ∨ (¬ cyc ∧ deg F act p = 1)) ∧ (deg F act p = 4 → ¬ F.border p)

/-- the flags are determined by the degrees -/
theorem flags_determined (cyc : Prop) (passed cross : P → Prop) (h : Enc F act cyc passed cross) :
    (∀ p, passed p ↔ 0 < deg F act p) ∧ (∀ p, cross p ↔ deg F act p = 4) := by
  obtain ⟨h1, _, h3, h4, h5, _⟩ := h
  have hp : ∀ p, passed p ↔ 0 < deg F act p := by
    intro p
    constructor
    · intro hp
      by_cases hc : cross p
      · rw [h4 p hp hc]; omega
      · by_cases hcy : cyc
        · rw [(h5 p hp hc).1 hcy]; omega
        · have := (h5 p hp hc).2 hcy; omega
    · intro hd
      by_contra hnp
      have := h3 p hnp
      omega
  refine ⟨hp, ?_⟩
  intro p
  constructor
  · intro hc; exact h4 p (h1 p hc) hc
  · intro hd
    by_contra hc
    have hpp : passed p := (hp p).mpr (by omega)
    by_cases hcy : cyc
    · have := (h5 p hpp hc).1 hcy; omega
    · have := (h5 p hpp hc).2 hcy; omega

theorem enc_degok (cyc : Prop) (passed cross : P → Prop) (h : Enc F act cyc passed cross) : DegOK F act cyc := by
  obtain ⟨hp, hc⟩ := flags_determined F act cyc passed cross h
  obtain ⟨_, h2, h3, h4, h5, _⟩ := h
  intro p
  constructor
  · by_cases hpp : passed p
    · by_cases hcc : cross p
      · right; right; left; exact h4 p hpp hcc
      · by_cases hcy : cyc
        · right; left; exact (h5 p hpp hcc).1 hcy
        · have := (h5 p hpp hcc).2 hcy
          by_cases h1 : deg F act p = 1
          · right; right; right; exact ⟨hcy, h1⟩
          · right; left; omega
    · left; exact h3 p hpp
  · intro hd hb
    exact h2 p hb ((hc p).mpr hd)

/-- what a walk in the auxiliary graph that starts at the segment `s` says about the node it has reached -/
def Inv (cross : P → Prop) (s : S) : Node P S → Prop
  | Node.seg u => Relation.ReflTransGen (link F act) s u
  | Node.single p => ¬ cross p ∧ ∃ u, act u ∧ F.meets u p ∧ Relation.ReflTransGen (link F act) s u
  | Node.dh p => ∃ u, act u ∧ F.meets u p ∧ F.hor u ∧ Relation.ReflTransGen (link F act) s u
  | Node.dv p => ∃ u, act u ∧ F.meets u p ∧ ¬ F.hor u ∧ Relation.ReflTransGen (link F act) s u

theorem enc_strand (cyc : Prop) (passed cross : P → Prop) (h : Enc F act cyc passed cross) : OneStrand F act := by
  obtain ⟨_, hc⟩ := flags_determined F act cyc passed cross h
  obtain ⟨_, _, _, _, _, hconn⟩ := h
  intro s t hs ht
  have hwalk := hconn (Node.seg s) (Node.seg t) hs ht
  have key : ∀ x, Relation.ReflTransGen (fun x y => adj F x y ∧ nodeAct act passed cross x ∧ nodeAct act passed cross y)
      (Node.seg s) x → Inv F act cross s x := by
    intro x hx
    induction hx with
    | refl => exact Relation.ReflTransGen.refl
    | @tail y z _ hstep ih =>
      obtain ⟨hadj, hy, hz⟩ := hstep
      cases y with
      | seg u =>
        cases z with
        | seg v => exact absurd hadj (by simp [adj])
        | single p =>
          have hm : F.meets u p := hadj
          exact ⟨hz.2, u, hy, hm, ih⟩
        | dh p =>
          have hm : F.meets u p ∧ F.hor u := hadj
          exact ⟨u, hy, hm.1, hm.2, ih⟩
        | dv p =>
          have hm : F.meets u p ∧ ¬ F.hor u := hadj
          exact ⟨u, hy, hm.1, hm.2, ih⟩
      | single p =>
        cases z with
        | seg v =>
          have hm : F.meets v p := hadj
          obtain ⟨hnc, u, hu, hup, hsu⟩ := ih
          refine Relation.ReflTransGen.tail hsu ⟨hu, hz, p, hup, hm, ?_⟩
          intro hd
          exact absurd ((hc p).mpr hd) hnc
        | single q => exact absurd hadj (by simp [adj])
        | dh q => exact absurd hadj (by simp [adj])
        | dv q => exact absurd hadj (by simp [adj])
      | dh p =>
        cases z with
        | seg v =>
          have hm : F.meets v p ∧ F.hor v := hadj
          obtain ⟨u, hu, hup, hhu, hsu⟩ := ih
          exact Relation.ReflTransGen.tail hsu ⟨hu, hz, p, hup, hm.1, fun _ => ⟨fun _ => hm.2, fun _ => hhu⟩⟩
        | single q => exact absurd hadj (by simp [adj])
        | dh q => exact absurd hadj (by simp [adj])
        | dv q => exact absurd hadj (by simp [adj])
      | dv p =>
        cases z with
        | seg v =>
          have hm : F.meets v p ∧ ¬ F.hor v := hadj
          obtain ⟨u, hu, hup, hhu, hsu⟩ := ih
          exact Relation.ReflTransGen.tail hsu ⟨hu, hz, p, hup, hm.1, fun _ => ⟨fun h => absurd h hhu, fun h => absurd h hm.2⟩⟩
        | single q => exact absurd hadj (by simp [adj])
        | dh q => exact absurd hadj (by simp [adj])
        | dv q => exact absurd hadj (by simp [adj])
  exact key (Node.seg t) hwalk

theorem adj_symm : ∀ x y : Node P S, adj F x y → adj F y x := by
  intro x y h
  cases x <;> cases y <;> simp_all [adj]

/-- at a 4-way point there is an active horizontal and an active vertical segment -/
theorem four_way (hL : Lattice F) (p : P) (hd : deg F act p = 4) :
    (∃ u, act u ∧ F.meets u p ∧ F.hor u) ∧ (∃ u, act u ∧ F.meets u p ∧ ¬ F.hor u) := by
  obtain ⟨h1, _⟩ := hL
  constructor
  · by_contra hno
    push Not at hno
    have hsub : inc F act p ⊆ univ.filter (fun s => F.meets s p ∧ ¬ F.hor s) := by
      intro u hu
      simp only [inc, mem_filter, mem_univ, true_and] at hu ⊢
      exact ⟨hu.1, hno u hu.2 hu.1⟩
    have := card_le_card hsub
    have := (h1 p).2
    unfold deg at hd
    omega
  · by_contra hno
    push Not at hno
    have hsub : inc F act p ⊆ univ.filter (fun s => F.meets s p ∧ F.hor s) := by
      intro u hu
      simp only [inc, mem_filter, mem_univ, true_and] at hu ⊢
      exact ⟨hu.1, hno u hu.2 hu.1⟩
    have := card_le_card hsub
    have := (h1 p).1
    unfold deg at hd
    omega

theorem spec_enc (cyc : Prop) (hL : Lattice F) (hD : DegOK F act cyc) (hS : OneStrand F act) :
    ∃ passed cross, Enc F act cyc passed cross := by
  refine ⟨fun p => 0 < deg F act p, fun p => deg F act p = 4, ?_, ?_, ?_, ?_, ?_, ?_⟩
  · intro p h; show 0 < deg F act p; omega
  · intro p hb hd; exact (hD p).2 hd hb
  · intro p h; show deg F act p = 0; simp only [not_lt] at h; omega
  · intro p _ h; exact h
  · intro p hp hc
    have hp' : 0 < deg F act p := hp
    have hc' : ¬ deg F act p = 4 := hc
    rcases (hD p).1 with h | h | h | h
    · omega
    · exact ⟨fun _ => h, fun _ => by omega⟩
    · exact absurd h hc'
    · exact ⟨fun hcy => absurd hcy h.1, fun _ => by omega⟩
  · -- connectivity of the auxiliary graph
    let passed : P → Prop := fun p => 0 < deg F act p
    let cross : P → Prop := fun p => deg F act p = 4
    let Stp : Node P S → Node P S → Prop := fun x y => adj F x y ∧ nodeAct act passed cross x ∧ nodeAct act passed cross y
    have hsym : ∀ x y, Relation.ReflTransGen Stp x y → Relation.ReflTransGen Stp y x := by
      intro x y h
      induction h with
      | refl => exact Relation.ReflTransGen.refl
      | tail _ hbc ih => exact Relation.ReflTransGen.head ⟨adj_symm F _ _ hbc.1, hbc.2.2, hbc.2.1⟩ ih
    -- every active node is joined to an active segment node
    have hseg : ∀ a, nodeAct act passed cross a → ∃ u, act u ∧ Relation.ReflTransGen Stp a (Node.seg u) := by
      intro a ha
      cases a with
      | seg u => exact ⟨u, ha, Relation.ReflTransGen.refl⟩
      | single p =>
        have hpos : 0 < deg F act p := ha.1
        obtain ⟨u, hu⟩ := card_pos.mp hpos
        simp only [inc, mem_filter, mem_univ, true_and] at hu
        have s1 : Stp (Node.single p) (Node.seg u) := ⟨hu.1, ha, hu.2⟩
        exact ⟨u, hu.2, Relation.ReflTransGen.single s1⟩
      | dh p =>
        obtain ⟨⟨u, hu, hm, hh⟩, _⟩ := four_way F act hL p ha
        have s1 : Stp (Node.dh p) (Node.seg u) := ⟨⟨hm, hh⟩, ha, hu⟩
        exact ⟨u, hu, Relation.ReflTransGen.single s1⟩
      | dv p =>
        obtain ⟨_, ⟨u, hu, hm, hh⟩⟩ := four_way F act hL p ha
        have s1 : Stp (Node.dv p) (Node.seg u) := ⟨⟨hm, hh⟩, ha, hu⟩
        exact ⟨u, hu, Relation.ReflTransGen.single s1⟩
    -- a link is a walk of two steps
    have hlink : ∀ u v, link F act u v → Relation.ReflTransGen Stp (Node.seg u) (Node.seg v) := by
      rintro u v ⟨hu, hv, p, hup, hvp, hori⟩
      by_cases hd : deg F act p = 4
      · have hcr : cross p := hd
        by_cases hh : F.hor u
        · have hhv : F.hor v := (hori hd).mp hh
          have s1 : Stp (Node.seg u) (Node.dh p) := ⟨⟨hup, hh⟩, hu, hcr⟩
          have s2 : Stp (Node.dh p) (Node.seg v) := ⟨⟨hvp, hhv⟩, hcr, hv⟩
          exact Relation.ReflTransGen.tail (Relation.ReflTransGen.single s1) s2
        · have hhv : ¬ F.hor v := fun h => hh ((hori hd).mpr h)
          have s1 : Stp (Node.seg u) (Node.dv p) := ⟨⟨hup, hh⟩, hu, hcr⟩
          have s2 : Stp (Node.dv p) (Node.seg v) := ⟨⟨hvp, hhv⟩, hcr, hv⟩
          exact Relation.ReflTransGen.tail (Relation.ReflTransGen.single s1) s2
      · have hpos : 0 < deg F act p := by
          apply card_pos.mpr
          exact ⟨u, by simp only [inc, mem_filter, mem_univ, true_and]; exact ⟨hup, hu⟩⟩
        have hsg : nodeAct act passed cross (Node.single p) := ⟨hpos, hd⟩
        have s1 : Stp (Node.seg u) (Node.single p) := ⟨hup, hu, hsg⟩
        have s2 : Stp (Node.single p) (Node.seg v) := ⟨hvp, hsg, hv⟩
        exact Relation.ReflTransGen.tail (Relation.ReflTransGen.single s1) s2
    have hstrand : ∀ u v, Relation.ReflTransGen (link F act) u v → Relation.ReflTransGen Stp (Node.seg u) (Node.seg v) := by
      intro u v h
      induction h with
      | refl => exact Relation.ReflTransGen.refl
      | tail _ hbc ih => exact Relation.ReflTransGen.trans ih (hlink _ _ hbc)
    intro a b ha hb
    obtain ⟨u, hu, hau⟩ := hseg a ha
    obtain ⟨v, hv, hbv⟩ := hseg b hb
    exact Relation.ReflTransGen.trans hau (Relation.ReflTransGen.trans (hstrand u v (hS u v hu hv)) (hsym _ _ hbv))

/-- the constraints posted by `active_edges_connected_crossable` are satisfiable exactly for the segment sets with degrees
    0, 1, 2 or 4 (0, 2, 4 for a cycle; 4 never on the border) that form one strand -/
theorem enc_iff_strand (cyc : Prop) (hL : Lattice F) :
    (∃ passed cross, Enc F act cyc passed cross) ↔ DegOK F act cyc ∧ OneStrand F act :=
  ⟨fun ⟨passed, cross, h⟩ => ⟨enc_degok F act cyc passed cross h, enc_strand F act cyc passed cross h⟩,
   fun ⟨h1, h2⟩ => spec_enc F act cyc hL h1 h2⟩

end C10

#print axioms C10.enc_iff_strand
#print axioms C10.flags_determined
