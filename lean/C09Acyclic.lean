/-
C09 — lemma over the emission contract of `active_edges_acyclic` (cspuz/graph.py).

The contract proved by pyvc (contracts/c09_emission.py) says that the function posts exactly
  * rank variables rank(v) with domain [0, n-1] for the n vertices,
  * for every edge e:  rank(src e) ≠ rank(dst e),
  * for every vertex i:  #{ e active, e at i, rank(other end of e) < rank(i) } ≤ 1.
`Enc` below is that schema with the rank variables existentially quantified; the theorem states that it is
satisfiable exactly for the acyclic sets of active edges, where "acyclic" is the classical leaf characterisation
of forests: every non-empty set of active edges has a vertex met by exactly one of them (for loop-free multigraphs
this is equivalent to "contains no cycle"; two active parallel edges form a set without such a vertex).
-/
import Mathlib.Data.Fintype.Card
import Mathlib.Data.Finset.Max
import Mathlib.Tactic

open Finset

namespace C09

variable {n m : ℕ}

/-- the edges of `S` that meet vertex `v` -/
def atV (src dst : Fin m → Fin n) (S : Finset (Fin m)) (v : Fin n) : Finset (Fin m) :=
  S.filter (fun e => src e = v ∨ dst e = v)

/-- leaf characterisation of forests -/
def Acyclic (src dst : Fin m → Fin n) (act : Fin m → Prop) : Prop :=
  ∀ S : Finset (Fin m), (∀ e ∈ S, act e) → S.Nonempty → ∃ v, (atV src dst S v).card = 1

/-- the other end point of `e`, seen from `i` -/
def other (src dst : Fin m → Fin n) (e : Fin m) (i : Fin n) : Fin n :=
  if src e = i then dst e else src e

/-- edges of `S` at `i` whose other end point has a smaller rank -/
def lowerS (src dst : Fin m → Fin n) (S : Finset (Fin m)) (rank : Fin n → ℕ) (i : Fin n) : Finset (Fin m) :=
  S.filter (fun e => (src e = i ∨ dst e = i) ∧ rank (other src dst e i) < rank i)

/-- the constraint schema posted by `active_edges_acyclic`, rank variables existential -/
def Enc (src dst : Fin m → Fin n) (act : Fin m → Prop) [DecidablePred act] : Prop :=
  ∃ rank : Fin n → ℕ, (∀ v, rank v < n) ∧ (∀ e, rank (src e) ≠ rank (dst e)) ∧
    ∀ i, (lowerS src dst (univ.filter act) rank i).card ≤ 1

theorem other_mem (src dst : Fin m → Fin n) (e : Fin m) (i : Fin n) :
    other src dst e i = src e ∨ other src dst e i = dst e := by
  unfold other
  split_ifs <;> simp

/-- soundness of the encoding: a rank assignment excludes every cycle -/
theorem enc_acyclic (src dst : Fin m → Fin n) (act : Fin m → Prop) [DecidablePred act]
    (h : Enc src dst act) : Acyclic src dst act := by
  obtain ⟨rank, _, hne, hlow⟩ := h
  intro S hS hne'
  -- an edge of S whose larger end-point rank is maximal
  obtain ⟨e0, he0, hmax⟩ := Finset.exists_max_image S (fun e => max (rank (src e)) (rank (dst e))) hne'
  -- v: the end point of e0 with the larger rank
  by_cases hc : rank (dst e0) ≤ rank (src e0)
  · refine ⟨src e0, ?_⟩
    have hv : max (rank (src e0)) (rank (dst e0)) = rank (src e0) := max_eq_left hc
    have hsub : atV src dst S (src e0) ⊆ lowerS src dst (univ.filter act) rank (src e0) := by
      intro e he
      simp only [atV, mem_filter] at he
      simp only [lowerS, mem_filter, mem_univ, true_and]
      refine ⟨hS e he.1, he.2, ?_⟩
      have hle := hmax e he.1
      simp only [hv] at hle
      unfold other
      split_ifs with h1
      · have := hne e
        rw [h1] at this
        have h2 : rank (dst e) ≤ rank (src e0) := le_trans (le_max_right _ _) hle
        omega
      · have h3 : dst e = src e0 := by
          rcases he.2 with h | h
          · exact absurd h h1
          · exact h
        have := hne e
        rw [h3] at this
        have h2 : rank (src e) ≤ rank (src e0) := le_trans (le_max_left _ _) hle
        omega
    have h1 : (atV src dst S (src e0)).card ≤ 1 := le_trans (card_le_card hsub) (hlow _)
    have h2 : e0 ∈ atV src dst S (src e0) := by
      simp [atV, he0]
    have h3 : 0 < (atV src dst S (src e0)).card := card_pos.mpr ⟨e0, h2⟩
    omega
  · refine ⟨dst e0, ?_⟩
    have hc' : rank (src e0) ≤ rank (dst e0) := by omega
    have hv : max (rank (src e0)) (rank (dst e0)) = rank (dst e0) := max_eq_right hc'
    have hsub : atV src dst S (dst e0) ⊆ lowerS src dst (univ.filter act) rank (dst e0) := by
      intro e he
      simp only [atV, mem_filter] at he
      simp only [lowerS, mem_filter, mem_univ, true_and]
      refine ⟨hS e he.1, he.2, ?_⟩
      have hle := hmax e he.1
      simp only [hv] at hle
      unfold other
      split_ifs with h1
      · have := hne e
        rw [h1] at this
        have h2 : rank (dst e) ≤ rank (dst e0) := le_trans (le_max_right _ _) hle
        omega
      · have h3 : dst e = dst e0 := by
          rcases he.2 with h | h
          · exact absurd h h1
          · exact h
        have := hne e
        rw [h3] at this
        have h2 : rank (src e) ≤ rank (dst e0) := le_trans (le_max_left _ _) hle
        omega
    have h1 : (atV src dst S (dst e0)).card ≤ 1 := le_trans (card_le_card hsub) (hlow _)
    have h2 : e0 ∈ atV src dst S (dst e0) := by
      simp [atV, he0]
    have h3 : 0 < (atV src dst S (dst e0)).card := card_pos.mpr ⟨e0, h2⟩
    omega

/-- hereditary form of `Acyclic` for one edge set -/
def Hered (src dst : Fin m → Fin n) (S : Finset (Fin m)) : Prop :=
  ∀ T : Finset (Fin m), T ⊆ S → T.Nonempty → ∃ v, (atV src dst T v).card = 1

/-- moving the rank of one vertex to the top and closing the gap keeps the order of all other vertices -/
theorem shift_lt (a b t : ℕ) (ha : a ≠ t) (hb : b ≠ t) :
    ((if t < a then a - 1 else a) < (if t < b then b - 1 else b)) ↔ a < b := by
  split_ifs <;> omega

/-- completeness of the encoding: every forest has an injective ranking in which each vertex has at most one lower
    neighbour (add the vertices in reverse order of leaf removal) -/
theorem build (src dst : Fin m → Fin n) :
    ∀ (k : ℕ) (S : Finset (Fin m)), S.card = k → Hered src dst S →
      ∃ rank : Fin n → ℕ, Function.Injective rank ∧ (∀ v, rank v < n) ∧
        ∀ i, (lowerS src dst S rank i).card ≤ 1 := by
  intro k
  induction k using Nat.strong_induction_on with
  | _ k ih =>
    intro S hk hH
    by_cases hS : S.Nonempty
    · -- a leaf v with its unique edge e
      obtain ⟨v, hv⟩ := hH S (Subset.refl S) hS
      obtain ⟨e, he⟩ := card_eq_one.mp hv
      have heS : e ∈ S := by
        have : e ∈ atV src dst S v := by rw [he]; exact mem_singleton_self e
        exact (mem_filter.mp this).1
      have hev : src e = v ∨ dst e = v := by
        have : e ∈ atV src dst S v := by rw [he]; exact mem_singleton_self e
        exact (mem_filter.mp this).2
      have hcard : (S.erase e).card < k := by
        rw [← hk]; exact card_erase_lt_of_mem heS
      have hH' : Hered src dst (S.erase e) := fun T hT hTn => hH T (hT.trans (erase_subset e S)) hTn
      obtain ⟨rank', hinj, hlt, hlow⟩ := ih _ hcard (S.erase e) rfl hH'
      have hn : 0 < n := lt_of_le_of_lt (Nat.zero_le _) (hlt v)
      let t := rank' v
      let rank : Fin n → ℕ := fun x => if x = v then n - 1 else if t < rank' x then rank' x - 1 else rank' x
      have hrv : rank v = n - 1 := by simp [rank]
      have hrx : ∀ x, x ≠ v → rank x = (if t < rank' x then rank' x - 1 else rank' x) := by
        intro x hx; simp [rank, hx]
      have hne : ∀ x, x ≠ v → rank' x ≠ t := fun x hx h => hx (hinj h)
      have hsmall : ∀ x, x ≠ v → rank x < n - 1 := by
        intro x hx
        rw [hrx x hx]
        have h1 := hlt x
        have h2 := hlt v
        have h3 := hne x hx
        split_ifs <;> omega
      have hord : ∀ x y, x ≠ v → y ≠ v → (rank x < rank y ↔ rank' x < rank' y) := by
        intro x y hx hy
        rw [hrx x hx, hrx y hy]
        exact shift_lt _ _ _ (hne x hx) (hne y hy)
      refine ⟨rank, ?_, ?_, ?_⟩
      · -- injective
        intro x y hxy
        by_cases hx : x = v
        · by_cases hy : y = v
          · rw [hx, hy]
          · have := hsmall y hy
            rw [hx, hrv] at hxy
            omega
        · by_cases hy : y = v
          · have := hsmall x hx
            rw [hy, hrv] at hxy
            omega
          · have h1 : ¬ rank x < rank y := by omega
            have h2 : ¬ rank y < rank x := by omega
            rw [hord x y hx hy] at h1
            rw [hord y x hy hx] at h2
            exact hinj (by omega)
      · -- below n
        intro x
        by_cases hx : x = v
        · rw [hx, hrv]; omega
        · have := hsmall x hx; omega
      · -- at most one lower neighbour
        intro i
        by_cases hi : i = v
        · have hsub : lowerS src dst S rank i ⊆ atV src dst S v := by
            intro e' he'
            simp only [lowerS, mem_filter] at he'
            simp only [atV, mem_filter]
            rw [hi] at he'
            exact ⟨he'.1, he'.2.1⟩
          calc (lowerS src dst S rank i).card ≤ (atV src dst S v).card := card_le_card hsub
            _ = 1 := hv
        · have hsub : lowerS src dst S rank i ⊆ lowerS src dst (S.erase e) rank' i := by
            intro e' he'
            simp only [lowerS, mem_filter] at he'
            obtain ⟨he'S, hat, hlt'⟩ := he'
            -- the other end point w of e' seen from i
            have hw : other src dst e' i = src e' ∨ other src dst e' i = dst e' := other_mem src dst e' i
            by_cases hee : e' = e
            · -- e joins i and v: its other end is v, whose rank is the top one
              exfalso
              rw [hee] at hat hlt'
              have hov : other src dst e i = v := by
                unfold other
                split_ifs with h1
                · rcases hev with h | h
                  · exact absurd (h1.symm.trans h) hi
                  · exact h
                · rcases hat with h | h
                  · exact absurd h h1
                  · rcases hev with h2 | h2
                    · exact h2
                    · exact absurd (h.symm.trans h2) hi
              rw [hov, hrv] at hlt'
              have := hsmall i hi
              omega
            · have hwv : other src dst e' i ≠ v := by
                intro hwv
                have : e' ∈ atV src dst S v := by
                  simp only [atV, mem_filter]
                  refine ⟨he'S, ?_⟩
                  rcases hw with h | h
                  · left; rw [← h]; exact hwv
                  · right; rw [← h]; exact hwv
                rw [he] at this
                exact hee (mem_singleton.mp this)
              simp only [lowerS, mem_filter]
              refine ⟨mem_erase.mpr ⟨hee, he'S⟩, hat, ?_⟩
              exact (hord _ _ hwv hi).mp hlt'
          exact le_trans (card_le_card hsub) (hlow i)
    · -- no edges: any injective ranking will do
      have hS0 : S = ∅ := not_nonempty_iff_eq_empty.mp hS
      refine ⟨fun v => v.val, fun a b h => Fin.ext h, fun v => v.isLt, ?_⟩
      intro i
      simp [lowerS, hS0]

/-- the constraints posted by `active_edges_acyclic` are satisfiable exactly for the acyclic sets of active edges -/
theorem enc_iff_acyclic (src dst : Fin m → Fin n) (act : Fin m → Prop) [DecidablePred act]
    (hloop : ∀ e, src e ≠ dst e) :
    Enc src dst act ↔ Acyclic src dst act := by
  constructor
  · exact enc_acyclic src dst act
  · intro hA
    have hH : Hered src dst (univ.filter act) := by
      intro T hT hTn
      exact hA T (fun e he => (mem_filter.mp (hT he)).2) hTn
    obtain ⟨rank, hinj, hlt, hlow⟩ := build src dst _ (univ.filter act) rfl hH
    -- an injective ranking separates the two ends of every edge (loop-free graphs)
    exact ⟨rank, hlt, fun e h => hloop e (hinj h), hlow⟩

end C09

#print axioms C09.enc_iff_acyclic
