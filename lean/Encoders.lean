/-
Lemmas over the emission contracts of the graph-constraint encoders of cspuz/graph.py (Lean 4 + Mathlib).
Each namespace states the constraint schema that the corresponding pyvc emission contract proves the real function
posts, with the auxiliary variables existentially quantified, and proves that it is satisfiable exactly for the
structures the property names.  Re-checked by `lean` on every run of the checks (bounded/leancheck.py).
-/
import Mathlib.Data.Fintype.Card
import Mathlib.Data.Finset.Max
import Mathlib.Logic.Relation
import Mathlib.Tactic

open Finset

/-
C09 — lemma over the emission contract of `active_edges_acyclic` (cspuz/graph.py).

The contract proved by pyvc (contracts/c09_emission.py) says that the function posts exactly
  * rank variables rank(v) with domain [0, n-1] for the n vertices,
  * for every edge e:  rank(src e) ≠ rank(dst e),
  * for every vertex i:  #{ e active, e at i, rank(other end of e) < rank(i) } ≤ 1.
`Enc` below is that schema with the rank variables existentially quantified; the theorem states that it is
satisfiable exactly for the acyclic sets of active edges, where "acyclic" is the classical leaf characterisation
of forests: every non-empty set of active edges has a vertex met by exactly one of them (for loop-free multigraphs
this is equivalent to "contains no cycle"; two active parallel edges form a set without such a vertex).
-/


namespace C09

variable {n m : ℕ}

/-- the edges of `S` that meet vertex `v` -/
def atV (src dst : Fin m → Fin n) (S : Finset (Fin m)) (v : Fin n) : Finset (Fin m) :=
  S.filter (fun e => src e = v ∨ dst e = v)

/-- leaf characterisation of forests -/
def Acyclic (src dst : Fin m → Fin n) (act : Fin m → Prop) : Prop :=
  ∀ S : Finset (Fin m), (∀ e ∈ S, act e) → S.Nonempty → ∃ v, (atV src dst S v).card = 1

/-- the other end point of `e`, seen from `i` -/
def other (src dst : Fin m → Fin n) (e : Fin m) (i : Fin n) : Fin n :=
  if src e = i then dst e else src e

/-- edges of `S` at `i` whose other end point has a smaller rank -/
def lowerS (src dst : Fin m → Fin n) (S : Finset (Fin m)) (rank : Fin n → ℕ) (i : Fin n) : Finset (Fin m) :=
  S.filter (fun e => (src e = i ∨ dst e = i) ∧ rank (other src dst e i) < rank i)

/-- the constraint schema posted by `active_edges_acyclic`, rank variables existential -/
def Enc (src dst : Fin m → Fin n) (act : Fin m → Prop) [DecidablePred act] : Prop :=
  ∃ rank : Fin n → ℕ, (∀ v, rank v < n) ∧ (∀ e, rank (src e) ≠ rank (dst e)) ∧
    ∀ i, (lowerS src dst (univ.filter act) rank i).card ≤ 1

theorem other_mem (src dst : Fin m → Fin n) (e : Fin m) (i : Fin n) :
    other src dst e i = src e ∨ other src dst e i = dst e := by
  unfold other
  split_ifs <;> simp

/-- soundness of the encoding: a rank assignment excludes every cycle -/
theorem enc_acyclic (src dst : Fin m → Fin n) (act : Fin m → Prop) [DecidablePred act]
    (h : Enc src dst act) : Acyclic src dst act := by
  obtain ⟨rank, _, hne, hlow⟩ := h
  intro S hS hne'
  -- an edge of S whose larger end-point rank is maximal
  obtain ⟨e0, he0, hmax⟩ := Finset.exists_max_image S (fun e => max (rank (src e)) (rank (dst e))) hne'
  -- v: the end point of e0 with the larger rank
  by_cases hc : rank (dst e0) ≤ rank (src e0)
  · refine ⟨src e0, ?_⟩
    have hv : max (rank (src e0)) (rank (dst e0)) = rank (src e0) := max_eq_left hc
    have hsub : atV src dst S (src e0) ⊆ lowerS src dst (univ.filter act) rank (src e0) := by
      intro e he
      simp only [atV, mem_filter] at he
      simp only [lowerS, mem_filter, mem_univ, true_and]
      refine ⟨hS e he.1, he.2, ?_⟩
      have hle := hmax e he.1
      simp only [hv] at hle
      unfold other
      split_ifs with h1
      · have := hne e
        rw [h1] at this
        have h2 : rank (dst e) ≤ rank (src e0) := le_trans (le_max_right _ _) hle
        omega
      · have h3 : dst e = src e0 := by
          rcases he.2 with h | h
          · exact absurd h h1
          · exact h
        have := hne e
        rw [h3] at this
        have h2 : rank (src e) ≤ rank (src e0) := le_trans (le_max_left _ _) hle
        omega
    have h1 : (atV src dst S (src e0)).card ≤ 1 := le_trans (card_le_card hsub) (hlow _)
    have h2 : e0 ∈ atV src dst S (src e0) := by
      simp [atV, he0]
    have h3 : 0 < (atV src dst S (src e0)).card := card_pos.mpr ⟨e0, h2⟩
    omega
  · refine ⟨dst e0, ?_⟩
    have hc' : rank (src e0) ≤ rank (dst e0) := by omega
    have hv : max (rank (src e0)) (rank (dst e0)) = rank (dst e0) := max_eq_right hc'
    have hsub : atV src dst S (dst e0) ⊆ lowerS src dst (univ.filter act) rank (dst e0) := by
      intro e he
      simp only [atV, mem_filter] at he
      simp only [lowerS, mem_filter, mem_univ, true_and]
      refine ⟨hS e he.1, he.2, ?_⟩
      have hle := hmax e he.1
      simp only [hv] at hle
      unfold other
      split_ifs with h1
      · have := hne e
        rw [h1] at this
        have h2 : rank (dst e) ≤ rank (dst e0) := le_trans (le_max_right _ _) hle
        omega
      · have h3 : dst e = dst e0 := by
          rcases he.2 with h | h
          · exact absurd h h1
          · exact h
        have := hne e
        rw [h3] at this
        have h2 : rank (src e) ≤ rank (dst e0) := le_trans (le_max_left _ _) hle
        omega
    have h1 : (atV src dst S (dst e0)).card ≤ 1 := le_trans (card_le_card hsub) (hlow _)
    have h2 : e0 ∈ atV src dst S (dst e0) := by
      simp [atV, he0]
    have h3 : 0 < (atV src dst S (dst e0)).card := card_pos.mpr ⟨e0, h2⟩
    omega

/-- hereditary form of `Acyclic` for one edge set -/
def Hered (src dst : Fin m → Fin n) (S : Finset (Fin m)) : Prop :=
  ∀ T : Finset (Fin m), T ⊆ S → T.Nonempty → ∃ v, (atV src dst T v).card = 1

/-- moving the rank of one vertex to the top and closing the gap keeps the order of all other vertices -/
theorem shift_lt (a b t : ℕ) (ha : a ≠ t) (hb : b ≠ t) :
    ((if t < a then a - 1 else a) < (if t < b then b - 1 else b)) ↔ a < b := by
  split_ifs <;> omega

/-- completeness of the encoding: every forest has an injective ranking in which each vertex has at most one lower
    neighbour (add the vertices in reverse order of leaf removal) -/
theorem build (src dst : Fin m → Fin n) :
    ∀ (k : ℕ) (S : Finset (Fin m)), S.card = k → Hered src dst S →
      ∃ rank : Fin n → ℕ, Function.Injective rank ∧ (∀ v, rank v < n) ∧
        ∀ i, (lowerS src dst S rank i).card ≤ 1 := by
  intro k
  induction k using Nat.strong_induction_on with
  | _ k ih =>
    intro S hk hH
    by_cases hS : S.Nonempty
    · -- a leaf v with its unique edge e
      obtain ⟨v, hv⟩ := hH S (Subset.refl S) hS
      obtain ⟨e, he⟩ := card_eq_one.mp hv
      have heS : e ∈ S := by
        have : e ∈ atV src dst S v := by rw [he]; exact mem_singleton_self e
        exact (mem_filter.mp this).1
      have hev : src e = v ∨ dst e = v := by
        have : e ∈ atV src dst S v := by rw [he]; exact mem_singleton_self e
        exact (mem_filter.mp this).2
      have hcard : (S.erase e).card < k := by
        rw [← hk]; exact card_erase_lt_of_mem heS
      have hH' : Hered src dst (S.erase e) := fun T hT hTn => hH T (hT.trans (erase_subset e S)) hTn
      obtain ⟨rank', hinj, hlt, hlow⟩ := ih _ hcard (S.erase e) rfl hH'
      have hn : 0 < n := lt_of_le_of_lt (Nat.zero_le _) (hlt v)
      let t := rank' v
      let rank : Fin n → ℕ := fun x => if x = v then n - 1 else if t < rank' x then rank' x - 1 else rank' x
      have hrv : rank v = n - 1 := by simp [rank]
      have hrx : ∀ x, x ≠ v → rank x = (if t < rank' x then rank' x - 1 else rank' x) := by
        intro x hx; simp [rank, hx]
      have hne : ∀ x, x ≠ v → rank' x ≠ t := fun x hx h => hx (hinj h)
      have hsmall : ∀ x, x ≠ v → rank x < n - 1 := by
        intro x hx
        rw [hrx x hx]
        have h1 := hlt x
        have h2 := hlt v
        have h3 := hne x hx
        split_ifs <;> omega
      have hord : ∀ x y, x ≠ v → y ≠ v → (rank x < rank y ↔ rank' x < rank' y) := by
        intro x y hx hy
        rw [hrx x hx, hrx y hy]
        exact shift_lt _ _ _ (hne x hx) (hne y hy)
      refine ⟨rank, ?_, ?_, ?_⟩
      · -- injective
        intro x y hxy
        by_cases hx : x = v
        · by_cases hy : y = v
          · rw [hx, hy]
          · have := hsmall y hy
            rw [hx, hrv] at hxy
            omega
        · by_cases hy : y = v
          · have := hsmall x hx
            rw [hy, hrv] at hxy
            omega
          · have h1 : ¬ rank x < rank y := by omega
            have h2 : ¬ rank y < rank x := by omega
            rw [hord x y hx hy] at h1
            rw [hord y x hy hx] at h2
            exact hinj (by omega)
      · -- below n
        intro x
        by_cases hx : x = v
        · rw [hx, hrv]; omega
        · have := hsmall x hx; omega
      · -- at most one lower neighbour
        intro i
        by_cases hi : i = v
        · have hsub : lowerS src dst S rank i ⊆ atV src dst S v := by
            intro e' he'
            simp only [lowerS, mem_filter] at he'
            simp only [atV, mem_filter]
            rw [hi] at he'
            exact ⟨he'.1, he'.2.1⟩
          calc (lowerS src dst S rank i).card ≤ (atV src dst S v).card := card_le_card hsub
            _ = 1 := hv
        · have hsub : lowerS src dst S rank i ⊆ lowerS src dst (S.erase e) rank' i := by
            intro e' he'
            simp only [lowerS, mem_filter] at he'
            obtain ⟨he'S, hat, hlt'⟩ := he'
            -- the other end point w of e' seen from i
            have hw : other src dst e' i = src e' ∨ other src dst e' i = dst e' := other_mem src dst e' i
            by_cases hee : e' = e
            · -- e joins i and v: its other end is v, whose rank is the top one
              exfalso
              rw [hee] at hat hlt'
              have hov : other src dst e i = v := by
                unfold other
                split_ifs with h1
                · rcases hev with h | h
                  · exact absurd (h1.symm.trans h) hi
                  · exact h
                · rcases hat with h | h
                  · exact absurd h h1
                  · rcases hev with h2 | h2
                    · exact h2
                    · exact absurd (h.symm.trans h2) hi
              rw [hov, hrv] at hlt'
              have := hsmall i hi
              omega
            · have hwv : other src dst e' i ≠ v := by
                intro hwv
                have : e' ∈ atV src dst S v := by
                  simp only [atV, mem_filter]
                  refine ⟨he'S, ?_⟩
                  rcases hw with h | h
                  · left; rw [← h]; exact hwv
                  · right; rw [← h]; exact hwv
                rw [he] at this
                exact hee (mem_singleton.mp this)
              simp only [lowerS, mem_filter]
              refine ⟨mem_erase.mpr ⟨hee, he'S⟩, hat, ?_⟩
              exact (hord _ _ hwv hi).mp hlt'
          exact le_trans (card_le_card hsub) (hlow i)
    · -- no edges: any injective ranking will do
      have hS0 : S = ∅ := not_nonempty_iff_eq_empty.mp hS
      refine ⟨fun v => v.val, fun a b h => Fin.ext h, fun v => v.isLt, ?_⟩
      intro i
      simp [lowerS, hS0]

/-- the constraints posted by `active_edges_acyclic` are satisfiable exactly for the acyclic sets of active edges -/
theorem enc_iff_acyclic (src dst : Fin m → Fin n) (act : Fin m → Prop) [DecidablePred act]
    (hloop : ∀ e, src e ≠ dst e) :
    Enc src dst act ↔ Acyclic src dst act := by
  constructor
  · exact enc_acyclic src dst act
  · intro hA
    have hH : Hered src dst (univ.filter act) := by
      intro T hT hTn
      exact hA T (fun e he => (mem_filter.mp (hT he)).2) hTn
    obtain ⟨rank, hinj, hlt, hlow⟩ := build src dst _ (univ.filter act) rfl hH
    -- an injective ranking separates the two ends of every edge (loop-free graphs)
    exact ⟨rank, hlt, fun e h => hloop e (hinj h), hlow⟩

end C09


/-
C04 — lemma over the emission contract of `_active_vertices_connected` (rank/root encoding, acyclic = False).

Schema posted by the function (contracts/c04_emission.py): rank variables rank(v) in [0, n-1], flags is_root(v),
  * for every vertex i:  x_i  ->  ( exists a neighbour j of i with rank(j) < rank(i) and x_j )  or  is_root(i)
  * at most one vertex is a root.
`Enc` is that schema with rank and is_root existentially quantified.  Theorem: for a symmetric adjacency relation it
is satisfiable exactly when the active vertices induce a connected subgraph (no active vertex counts as connected):
any two active vertices are joined by a walk through active vertices.
-/


namespace C04

variable {n : ℕ}

/-- one step between adjacent active vertices -/
def Step (adj : Fin n → Fin n → Prop) (act : Fin n → Prop) (x y : Fin n) : Prop := adj x y ∧ act x ∧ act y

/-- joined by a walk through active vertices -/
def Reach (adj : Fin n → Fin n → Prop) (act : Fin n → Prop) : Fin n → Fin n → Prop :=
  Relation.ReflTransGen (Step adj act)

def Connected (adj : Fin n → Fin n → Prop) (act : Fin n → Prop) : Prop :=
  ∀ a b, act a → act b → Reach adj act a b

/-- the constraint schema, auxiliary variables existential -/
def Enc (adj : Fin n → Fin n → Prop) (act : Fin n → Prop) : Prop :=
  ∃ (rank : Fin n → ℕ) (isRoot : Fin n → Prop), (∀ v, rank v < n) ∧
    (∀ i, act i → (∃ j, adj i j ∧ rank j < rank i ∧ act j) ∨ isRoot i) ∧
    (∀ r r', isRoot r → isRoot r' → r = r')

theorem reach_symm (adj : Fin n → Fin n → Prop) (act : Fin n → Prop) (hs : ∀ x y, adj x y → adj y x)
    {a b : Fin n} (h : Reach adj act a b) : Reach adj act b a := by
  induction h with
  | refl => exact Relation.ReflTransGen.refl
  | tail _ hbc ih =>
    exact Relation.ReflTransGen.head ⟨hs _ _ hbc.1, hbc.2.2, hbc.2.1⟩ ih

/-- soundness: following smaller ranks leads every active vertex to the unique root -/
theorem enc_connected (adj : Fin n → Fin n → Prop) (act : Fin n → Prop) (hs : ∀ x y, adj x y → adj y x)
    (h : Enc adj act) : Connected adj act := by
  obtain ⟨rank, isRoot, _, hstep, hone⟩ := h
  have hroot : ∀ k i, rank i = k → act i → ∃ r, isRoot r ∧ Reach adj act i r := by
    intro k
    induction k using Nat.strong_induction_on with
    | _ k ih =>
      intro i hk hi
      rcases hstep i hi with ⟨j, hadj, hlt, hj⟩ | hr
      · obtain ⟨r, hr, hjr⟩ := ih (rank j) (by omega) j rfl hj
        exact ⟨r, hr, Relation.ReflTransGen.head ⟨hadj, hi, hj⟩ hjr⟩
      · exact ⟨i, hr, Relation.ReflTransGen.refl⟩
  intro a b ha hb
  obtain ⟨ra, hra, hara⟩ := hroot _ a rfl ha
  obtain ⟨rb, hrb, hbrb⟩ := hroot _ b rfl hb
  have : ra = rb := hone _ _ hra hrb
  subst this
  exact Relation.ReflTransGen.trans hara (reach_symm adj act hs hbrb)

/-- a walk that starts inside `X` and ends outside crosses its boundary -/
theorem boundary (adj : Fin n → Fin n → Prop) (act : Fin n → Prop) (X : Finset (Fin n)) {a b : Fin n}
    (h : Reach adj act a b) (ha : a ∈ X) (hb : b ∉ X) : ∃ x y, x ∈ X ∧ y ∉ X ∧ Step adj act x y := by
  induction h with
  | refl => exact absurd ha hb
  | tail hac hcb ih =>
    rename_i c d
    by_cases hc : c ∈ X
    · exact ⟨c, d, hc, hb, hcb⟩
    · exact ih hc

/-- a partial ranking: `X` contains the root, its ranks are below `X.card`, and every other member has a neighbour in
    `X` with a smaller rank -/
def Good (adj : Fin n → Fin n → Prop) (act : Fin n → Prop) (r : Fin n) (X : Finset (Fin n)) (rank : Fin n → ℕ) : Prop :=
  r ∈ X ∧ (∀ x ∈ X, act x) ∧ (∀ x ∈ X, rank x < X.card) ∧
    ∀ x ∈ X, x ≠ r → ∃ y ∈ X, adj x y ∧ rank y < rank x

/-- completeness: grow the ranked set along boundary edges until it contains every active vertex -/
theorem grow (adj : Fin n → Fin n → Prop) (act : Fin n → Prop) [DecidablePred act] (hs : ∀ x y, adj x y → adj y x)
    (hc : Connected adj act) (r : Fin n) (hr : act r) :
    ∀ (k : ℕ) (X : Finset (Fin n)) (rank : Fin n → ℕ), (univ.filter act).card - X.card = k →
      Good adj act r X rank → ∃ X' rank', Good adj act r X' rank' ∧ ∀ v, act v → v ∈ X' := by
  intro k
  induction k using Nat.strong_induction_on with
  | _ k ih =>
    intro X rank hk hG
    by_cases hall : ∀ v, act v → v ∈ X
    · exact ⟨X, rank, hG, hall⟩
    · push Not at hall
      obtain ⟨b, hb, hbX⟩ := hall
      obtain ⟨x, y, hx, hy, hxy⟩ := boundary adj act X (hc r b hr hb) hG.1 hbX
      have hXsub : X ⊆ univ.filter act := fun v hv => mem_filter.mpr ⟨mem_univ v, hG.2.1 v hv⟩
      have hyA : y ∈ univ.filter act := mem_filter.mpr ⟨mem_univ y, hxy.2.2⟩
      have hlt : X.card < (univ.filter act).card :=
        card_lt_card ⟨hXsub, fun hh => hy (hh hyA)⟩
      let rank' : Fin n → ℕ := fun v => if v = y then X.card else rank v
      have hcard : (insert y X).card = X.card + 1 := card_insert_of_notMem hy
      have hG' : Good adj act r (insert y X) rank' := by
        refine ⟨mem_insert_of_mem hG.1, ?_, ?_, ?_⟩
        · intro v hv
          rcases mem_insert.mp hv with h | h
          · rw [h]; exact hxy.2.2
          · exact hG.2.1 v h
        · intro v hv
          rcases mem_insert.mp hv with h | h
          · simp [rank', h, hcard]
          · have hvy : v ≠ y := fun hh => hy (hh ▸ h)
            have := hG.2.2.1 v h
            simp only [rank', hvy, if_false, hcard]
            omega
        · intro v hv hvr
          rcases mem_insert.mp hv with h | h
          · -- the new vertex: its neighbour x in X has a smaller rank
            have hxy' : x ≠ y := fun hh => hy (hh ▸ hx)
            refine ⟨x, mem_insert_of_mem hx, ?_, ?_⟩
            · rw [h]; exact hs _ _ hxy.1
            · have := hG.2.2.1 x hx
              simp [rank', h, hxy']
              exact this
          · have hvy : v ≠ y := fun hh => hy (hh ▸ h)
            obtain ⟨w, hw, hadj, hlt'⟩ := hG.2.2.2 v h hvr
            have hwy : w ≠ y := fun hh => hy (hh ▸ hw)
            refine ⟨w, mem_insert_of_mem hw, hadj, ?_⟩
            simp only [rank', hwy, hvy, if_false]
            exact hlt'
      have hk' : (univ.filter act).card - (insert y X).card < k := by
        rw [hcard]; omega
      exact ih _ hk' (insert y X) rank' rfl hG'

theorem connected_enc (adj : Fin n → Fin n → Prop) (act : Fin n → Prop) [DecidablePred act]
    (hs : ∀ x y, adj x y → adj y x) (hc : Connected adj act) : Enc adj act := by
  by_cases hne : ∃ r, act r
  · obtain ⟨r, hr⟩ := hne
    have hG0 : Good adj act r {r} (fun _ => 0) := by
      refine ⟨mem_singleton_self r, ?_, ?_, ?_⟩
      · intro x hx; rw [mem_singleton.mp hx]; exact hr
      · intro x _; simp
      · intro x hx hxr; exact absurd (mem_singleton.mp hx) hxr
    obtain ⟨X, rank, hG, hall⟩ := grow adj act hs hc r hr _ {r} (fun _ => 0) rfl hG0
    have hXn : X.card ≤ n := by
      have := card_le_univ X
      simpa using this
    have hn : 0 < n := lt_of_le_of_lt (Nat.zero_le _) r.isLt
    refine ⟨fun v => if v ∈ X then rank v else 0, fun v => v = r, ?_, ?_, ?_⟩
    · intro v
      by_cases hv : v ∈ X
      · have := hG.2.2.1 v hv
        simp only [hv, if_true]
        omega
      · simp only [hv, if_false]; exact hn
    · intro i hi
      by_cases hir : i = r
      · exact Or.inr hir
      · left
        have hiX := hall i hi
        obtain ⟨y, hy, hadj, hlt⟩ := hG.2.2.2 i hiX hir
        refine ⟨y, hadj, ?_, hG.2.1 y hy⟩
        simp only [hy, hiX, if_true]
        exact hlt
    · intro a b ha hb; rw [ha, hb]
  · -- no active vertex: any values will do
    push Not at hne
    by_cases hn : 0 < n
    · exact ⟨fun _ => 0, fun _ => False, fun _ => hn, fun i hi => absurd hi (hne i), fun _ _ h => absurd h id⟩
    · exact ⟨fun _ => 0, fun _ => False, fun v => absurd v.isLt (by omega), fun i hi => absurd hi (hne i), fun _ _ h => absurd h id⟩

/-- the constraints posted by `_active_vertices_connected` (rank/root encoding) are satisfiable exactly when the active
    vertices induce a connected subgraph -/
theorem enc_iff_connected (adj : Fin n → Fin n → Prop) (act : Fin n → Prop) [DecidablePred act]
    (hs : ∀ x y, adj x y → adj y x) : Enc adj act ↔ Connected adj act :=
  ⟨enc_connected adj act hs, connected_enc adj act hs⟩

end C04



namespace C04T
/-
Tree variant (`acyclic = True`) of `_active_vertices_connected`.  Schema posted by the function:
  rank(v) in [0, n-1], is_root(v);  for every edge e: rank(src e) ≠ rank(dst e);
  for every vertex i:  x_i -> #{e at i : other end active and of smaller rank} + [is_root i] = 1;   at most one root.
Theorem: for a loop-free multigraph it is satisfiable exactly when the active vertices are connected and the edges
between active vertices contain no cycle (the active vertices induce a tree, or there is none).
-/

variable {n m : ℕ}

def adjE (src dst : Fin m → Fin n) (i j : Fin n) : Prop := ∃ e, (src e = i ∧ dst e = j) ∨ (src e = j ∧ dst e = i)

def actE (src dst : Fin m → Fin n) (act : Fin n → Prop) (e : Fin m) : Prop := act (src e) ∧ act (dst e)

instance (src dst : Fin m → Fin n) (act : Fin n → Prop) [DecidablePred act] : DecidablePred (actE src dst act) :=
  fun e => by unfold actE; exact inferInstance

/-- entries of row i whose neighbour is active and has a smaller rank -/
def lowerV (src dst : Fin m → Fin n) (act : Fin n → Prop) [DecidablePred act] (rank : Fin n → ℕ) (i : Fin n) : Finset (Fin m) :=
  univ.filter (fun e => (src e = i ∨ dst e = i) ∧ act (C09.other src dst e i) ∧ rank (C09.other src dst e i) < rank i)

def Enc (src dst : Fin m → Fin n) (act : Fin n → Prop) [DecidablePred act] : Prop :=
  ∃ (rank : Fin n → ℕ) (isRoot : Fin n → Prop) (_ : DecidablePred isRoot), (∀ v, rank v < n) ∧
    (∀ e, rank (src e) ≠ rank (dst e)) ∧
    (∀ i, act i → (lowerV src dst act rank i).card + (if isRoot i then 1 else 0) = 1) ∧
    (∀ r r', isRoot r → isRoot r' → r = r')

def Tree (src dst : Fin m → Fin n) (act : Fin n → Prop) : Prop :=
  C04.Connected (adjE src dst) act ∧ C09.Acyclic src dst (actE src dst act)

theorem adjE_symm (src dst : Fin m → Fin n) : ∀ x y, adjE src dst x y → adjE src dst y x := by
  rintro x y ⟨e, h | h⟩
  · exact ⟨e, Or.inr h⟩
  · exact ⟨e, Or.inl h⟩

theorem adj_other (src dst : Fin m → Fin n) (e : Fin m) (i : Fin n) (h : src e = i ∨ dst e = i) :
    adjE src dst i (C09.other src dst e i) := by
  unfold C09.other
  split_ifs with h1
  · exact ⟨e, Or.inl ⟨h1, rfl⟩⟩
  · rcases h with h | h
    · exact absurd h h1
    · exact ⟨e, Or.inr ⟨rfl, h⟩⟩

/-- for an active vertex the active lower neighbours are the induced edges at it with a lower other end -/
theorem lowerV_eq (src dst : Fin m → Fin n) (act : Fin n → Prop) [DecidablePred act] (rank : Fin n → ℕ) (i : Fin n)
    (hi : act i) : lowerV src dst act rank i = C09.lowerS src dst (univ.filter (actE src dst act)) rank i := by
  ext e
  simp only [lowerV, C09.lowerS, mem_filter, mem_univ, true_and, actE]
  constructor
  · rintro ⟨hat, hact, hlt⟩
    refine ⟨?_, hat, hlt⟩
    unfold C09.other at hact
    split_ifs at hact with h1
    · exact ⟨h1 ▸ hi, hact⟩
    · rcases hat with h | h
      · exact absurd h h1
      · exact ⟨hact, h ▸ hi⟩
  · rintro ⟨⟨hs, hd⟩, hat, hlt⟩
    refine ⟨hat, ?_, hlt⟩
    unfold C09.other
    split_ifs
    · exact hd
    · exact hs

theorem enc_tree (src dst : Fin m → Fin n) (act : Fin n → Prop) [DecidablePred act]
    (h : Enc src dst act) : Tree src dst act := by
  obtain ⟨rank, isRoot, _, hlt, hne, hcnt, hone⟩ := h
  constructor
  · apply C04.enc_connected (adjE src dst) act (adjE_symm src dst)
    refine ⟨rank, isRoot, hlt, ?_, hone⟩
    intro i hi
    by_cases hr : isRoot i
    · exact Or.inr hr
    · left
      have h1 := hcnt i hi
      simp only [hr, if_false, add_zero] at h1
      obtain ⟨e, he⟩ := card_eq_one.mp h1
      have hmem : e ∈ lowerV src dst act rank i := by rw [he]; exact mem_singleton_self e
      simp only [lowerV, mem_filter, mem_univ, true_and] at hmem
      exact ⟨C09.other src dst e i, adj_other src dst e i hmem.1, hmem.2.2, hmem.2.1⟩
  · apply C09.enc_acyclic
    refine ⟨rank, hlt, hne, ?_⟩
    intro i
    by_cases hi : act i
    · rw [← lowerV_eq src dst act rank i hi]
      have := hcnt i hi
      omega
    · have : C09.lowerS src dst (univ.filter (actE src dst act)) rank i = ∅ := by
        ext e
        simp only [C09.lowerS, mem_filter, mem_univ, true_and, actE, notMem_empty, iff_false]
        rintro ⟨⟨hs, hd⟩, hat, _⟩
        rcases hat with h | h
        · exact hi (h ▸ hs)
        · exact hi (h ▸ hd)
      rw [this]; simp

end C04T

namespace C04T

variable {n m : ℕ}

/-- growth of a connected active set along boundary edges, remembering the edges used -/
def GoodF (src dst : Fin m → Fin n) (act : Fin n → Prop) [DecidablePred act] (r : Fin n) (X : Finset (Fin n))
    (F : Finset (Fin m)) : Prop :=
  r ∈ X ∧ (∀ x ∈ X, act x) ∧ F ⊆ univ.filter (actE src dst act) ∧ F.card + 1 = X.card ∧
    ∀ e ∈ F, src e ∈ X ∧ dst e ∈ X

theorem growF (src dst : Fin m → Fin n) (act : Fin n → Prop) [DecidablePred act]
    (hc : C04.Connected (adjE src dst) act) (r : Fin n) (hr : act r) :
    ∀ (k : ℕ) (X : Finset (Fin n)) (F : Finset (Fin m)), (univ.filter act).card - X.card = k →
      GoodF src dst act r X F → ∃ X' F', GoodF src dst act r X' F' ∧ ∀ v, act v → v ∈ X' := by
  intro k
  induction k using Nat.strong_induction_on with
  | _ k ih =>
    intro X F hk hG
    by_cases hall : ∀ v, act v → v ∈ X
    · exact ⟨X, F, hG, hall⟩
    · push Not at hall
      obtain ⟨b, hb, hbX⟩ := hall
      obtain ⟨x, y, hx, hy, hxy⟩ := C04.boundary (adjE src dst) act X (hc r b hr hb) hG.1 hbX
      obtain ⟨hadj, hax, hay⟩ := hxy
      obtain ⟨e, he⟩ := hadj
      have hXsub : X ⊆ univ.filter act := fun v hv => mem_filter.mpr ⟨mem_univ v, hG.2.1 v hv⟩
      have hyA : y ∈ univ.filter act := mem_filter.mpr ⟨mem_univ y, hay⟩
      have hlt : X.card < (univ.filter act).card := card_lt_card ⟨hXsub, fun hh => hy (hh hyA)⟩
      have heF : e ∉ F := by
        intro heF
        have := hG.2.2.2.2 e heF
        rcases he with ⟨_, h2⟩ | ⟨h1, _⟩
        · exact hy (h2 ▸ this.2)
        · exact hy (h1 ▸ this.1)
      have heS : e ∈ univ.filter (actE src dst act) := by
        simp only [mem_filter, mem_univ, true_and, actE]
        rcases he with ⟨h1, h2⟩ | ⟨h1, h2⟩
        · exact ⟨h1 ▸ hax, h2 ▸ hay⟩
        · exact ⟨h1 ▸ hay, h2 ▸ hax⟩
      have hG' : GoodF src dst act r (insert y X) (insert e F) := by
        refine ⟨mem_insert_of_mem hG.1, ?_, ?_, ?_, ?_⟩
        · intro v hv
          rcases mem_insert.mp hv with h | h
          · rw [h]; exact hay
          · exact hG.2.1 v h
        · intro e' he'
          rcases mem_insert.mp he' with h | h
          · rw [h]; exact heS
          · exact hG.2.2.1 h
        · rw [card_insert_of_notMem heF, card_insert_of_notMem hy, hG.2.2.2.1]
        · intro e' he'
          rcases mem_insert.mp he' with h | h
          · rw [h]
            rcases he with ⟨h1, h2⟩ | ⟨h1, h2⟩
            · exact ⟨h1 ▸ mem_insert_of_mem hx, h2 ▸ mem_insert_self y X⟩
            · exact ⟨h1 ▸ mem_insert_self y X, h2 ▸ mem_insert_of_mem hx⟩
          · have := hG.2.2.2.2 e' h
            exact ⟨mem_insert_of_mem this.1, mem_insert_of_mem this.2⟩
      have hk' : (univ.filter act).card - (insert y X).card < k := by
        rw [card_insert_of_notMem hy]; omega
      exact ih _ hk' (insert y X) (insert e F) rfl hG'

/-- a connected active set of k vertices has at least k - 1 edges between active vertices -/
theorem edges_ge (src dst : Fin m → Fin n) (act : Fin n → Prop) [DecidablePred act]
    (hc : C04.Connected (adjE src dst) act) (r : Fin n) (hr : act r) :
    (univ.filter act).card ≤ (univ.filter (actE src dst act)).card + 1 := by
  have hG0 : GoodF src dst act r {r} ∅ := by
    refine ⟨mem_singleton_self r, ?_, empty_subset _, by simp, ?_⟩
    · intro x hx; rw [mem_singleton.mp hx]; exact hr
    · intro e he; exact absurd he (notMem_empty e)
  obtain ⟨X, F, hG, hall⟩ := growF src dst act hc r hr _ {r} ∅ rfl hG0
  have hXA : univ.filter act ⊆ X := fun v hv => hall v (mem_filter.mp hv).2
  have h1 : (univ.filter act).card ≤ X.card := card_le_card hXA
  have h2 : F.card ≤ (univ.filter (actE src dst act)).card := card_le_card hG.2.2.1
  have h3 := hG.2.2.2.1
  omega

/-- the end point of an edge with the larger rank -/
def hi (src dst : Fin m → Fin n) (rank : Fin n → ℕ) (e : Fin m) : Fin n :=
  if rank (src e) < rank (dst e) then dst e else src e

/-- double counting: every induced edge is counted at its higher end point -/
theorem fiber_eq (src dst : Fin m → Fin n) (act : Fin n → Prop) [DecidablePred act] (rank : Fin n → ℕ)
    (hinj : Function.Injective rank) (hloop : ∀ e, src e ≠ dst e) (i : Fin n) (hi' : act i) :
    (univ.filter (actE src dst act)).filter (fun e => hi src dst rank e = i) = lowerV src dst act rank i := by
  ext e
  rw [mem_filter, mem_filter, lowerV, mem_filter]
  simp only [mem_univ, true_and, actE]
  unfold hi
  have hne : rank (src e) ≠ rank (dst e) := fun h => hloop e (hinj h)
  constructor
  · rintro ⟨⟨hs, hd⟩, hh⟩
    split_ifs at hh with h1
    · -- i = dst e
      refine ⟨Or.inr hh, ?_, ?_⟩
      · unfold C09.other
        split_ifs with h2
        · exact absurd (h2.trans hh.symm) (hloop e)
        · exact hs
      · unfold C09.other
        split_ifs with h2
        · exact absurd (h2.trans hh.symm) (hloop e)
        · rw [← hh]; exact h1
    · -- i = src e
      refine ⟨Or.inl hh, ?_, ?_⟩
      · unfold C09.other
        rw [if_pos hh]; exact hd
      · unfold C09.other
        rw [if_pos hh, ← hh]; omega
  · rintro ⟨hat, hact, hlt⟩
    unfold C09.other at hact hlt
    split_ifs at hact hlt with h1
    · -- src e = i, other = dst e
      refine ⟨⟨h1 ▸ hi', hact⟩, ?_⟩
      rw [← h1] at hlt
      rw [if_neg (by omega)]; exact h1
    · -- dst e = i, other = src e
      have h2 : dst e = i := by
        rcases hat with h | h
        · exact absurd h h1
        · exact h
      refine ⟨⟨hact, h2 ▸ hi'⟩, ?_⟩
      rw [← h2] at hlt
      rw [if_pos hlt]; exact h2

theorem tree_enc (src dst : Fin m → Fin n) (act : Fin n → Prop) [DecidablePred act]
    (hloop : ∀ e, src e ≠ dst e) (h : Tree src dst act) : Enc src dst act := by
  obtain ⟨hc, ha⟩ := h
  -- an injective ranking in which every vertex has at most one lower induced edge (C09)
  have hH : C09.Hered src dst (univ.filter (actE src dst act)) := by
    intro T hT hTn
    exact ha T (fun e he => (mem_filter.mp (hT he)).2) hTn
  obtain ⟨rank, hinj, hlt, hlow⟩ := C09.build src dst _ (univ.filter (actE src dst act)) rfl hH
  let c : Fin n → ℕ := fun i => (lowerV src dst act rank i).card
  have hc1 : ∀ i, act i → c i ≤ 1 := by
    intro i hi'
    simp only [c]
    rw [lowerV_eq src dst act rank i hi']
    exact hlow i
  let A := univ.filter act
  let S := univ.filter (actE src dst act)
  -- |S| = sum over active i of c i
  have hsum : S.card = ∑ i ∈ A, c i := by
    have hmaps : ∀ e ∈ S, hi src dst rank e ∈ A := by
      intro e he
      have := (mem_filter.mp he).2
      simp only [A, mem_filter, mem_univ, true_and, hi]
      split_ifs
      · exact this.2
      · exact this.1
    rw [card_eq_sum_card_fiberwise hmaps]
    apply sum_congr rfl
    intro i hi'
    have hai : act i := (mem_filter.mp hi').2
    simp only [c]
    rw [← fiber_eq src dst act rank hinj hloop i hai]
  let roots := A.filter (fun i => c i = 0)
  -- |A| = |S| + |roots|
  have hAcard : A.card = S.card + roots.card := by
    rw [hsum]
    have : ∀ i ∈ A, c i + (if c i = 0 then 1 else 0) = 1 := by
      intro i hi'
      have := hc1 i (mem_filter.mp hi').2
      split_ifs <;> omega
    have h2 : ∑ i ∈ A, (c i + (if c i = 0 then 1 else 0)) = A.card := by
      rw [sum_congr rfl this]; simp
    rw [sum_add_distrib] at h2
    have h3 : ∑ i ∈ A, (if c i = 0 then 1 else 0) = roots.card := by
      simp only [roots]
      rw [card_filter]
    omega
  have hroots : roots.card ≤ 1 := by
    by_cases hne : ∃ r, act r
    · obtain ⟨r, hr⟩ := hne
      have h1 := edges_ge src dst act hc r hr
      have h2 : (univ.filter act).card = (univ.filter (actE src dst act)).card + roots.card := hAcard
      omega
    · push Not at hne
      have : A = ∅ := by
        ext v; simp only [A, mem_filter, mem_univ, true_and, notMem_empty, iff_false]; exact hne v
      have : roots = ∅ := by simp only [roots, this, filter_empty]
      rw [this]; simp
  refine ⟨rank, fun i => act i ∧ c i = 0, inferInstance, hlt, fun e hh => hloop e (hinj hh), ?_, ?_⟩
  · intro i hi'
    have := hc1 i hi'
    have hci : c i = (lowerV src dst act rank i).card := rfl
    by_cases h0 : c i = 0
    · have hroot : act i ∧ c i = 0 := ⟨hi', h0⟩
      rw [if_pos hroot]
      omega
    · have h1 : ¬ (act i ∧ c i = 0) := fun hh => h0 hh.2
      rw [if_neg h1]
      omega
  · intro a b hA hB
    have ha' : a ∈ roots := by simp only [roots, A, mem_filter, mem_univ, true_and]; exact hA
    have hb' : b ∈ roots := by simp only [roots, A, mem_filter, mem_univ, true_and]; exact hB
    exact card_le_one.mp hroots a ha' b hb'

/-- the constraints posted by `_active_vertices_connected(acyclic=True)` are satisfiable exactly when the active
    vertices induce a tree (or there is no active vertex) -/
theorem enc_iff_tree (src dst : Fin m → Fin n) (act : Fin n → Prop) [DecidablePred act]
    (hloop : ∀ e, src e ≠ dst e) : Enc src dst act ↔ Tree src dst act :=
  ⟨enc_tree src dst act, tree_enc src dst act hloop⟩

end C04T


namespace C06
/-
Single cycle (`_active_edges_single_cycle`, rank/root encoding).  Schema posted by the function, for a loop-free
multigraph with active edges `act`:  passed(v), rank(v) in [0, n-1], is_root(v);
  for every vertex i:   #{active e at i} = 2 if passed i else 0
                        passed i -> #{active e at i : rank(other end) >= rank(i)} <= (2 if is_root i else 1)
  exactly one root.
Theorem: satisfiable exactly when every vertex meets 0 or 2 active edges and any two visited vertices are joined by a
walk along active edges (the active edges are empty or form exactly one simple cycle); then passed = visited.
-/

variable {n m : ℕ}

/-- active edges at vertex i -/
def inc (src dst : Fin m → Fin n) (act : Fin m → Prop) [DecidablePred act] (i : Fin n) : Finset (Fin m) :=
  univ.filter (fun e => act e ∧ (src e = i ∨ dst e = i))

/-- joined by an active edge -/
def adjA (src dst : Fin m → Fin n) (act : Fin m → Prop) (i j : Fin n) : Prop :=
  ∃ e, act e ∧ ((src e = i ∧ dst e = j) ∨ (src e = j ∧ dst e = i))

def visited (src dst : Fin m → Fin n) (act : Fin m → Prop) [DecidablePred act] (i : Fin n) : Prop :=
  (inc src dst act i).card = 2

def OneCycle (src dst : Fin m → Fin n) (act : Fin m → Prop) [DecidablePred act] : Prop :=
  (∀ i, (inc src dst act i).card = 0 ∨ (inc src dst act i).card = 2) ∧
    C04.Connected (adjA src dst act) (visited src dst act)

/-- active edges at i whose other end does not have a smaller rank -/
def geq (src dst : Fin m → Fin n) (act : Fin m → Prop) [DecidablePred act] (rank : Fin n → ℕ) (i : Fin n) : Finset (Fin m) :=
  (inc src dst act i).filter (fun e => rank i ≤ rank (C09.other src dst e i))

def Enc (src dst : Fin m → Fin n) (act : Fin m → Prop) [DecidablePred act] : Prop :=
  ∃ (passed : Fin n → Prop) (rank : Fin n → ℕ) (isRoot : Fin n → Prop) (_ : DecidablePred passed) (_ : DecidablePred isRoot),
    (∀ v, rank v < n) ∧
    (∀ i, (inc src dst act i).card = if passed i then 2 else 0) ∧
    (∀ i, passed i → (geq src dst act rank i).card ≤ if isRoot i then 2 else 1) ∧
    (∃ r, isRoot r ∧ ∀ r', isRoot r' → r' = r)

theorem adjA_symm (src dst : Fin m → Fin n) (act : Fin m → Prop) : ∀ x y, adjA src dst act x y → adjA src dst act y x := by
  rintro x y ⟨e, ha, h | h⟩
  · exact ⟨e, ha, Or.inr h⟩
  · exact ⟨e, ha, Or.inl h⟩

theorem other_ne (src dst : Fin m → Fin n) (hloop : ∀ e, src e ≠ dst e) (e : Fin m) (i : Fin n)
    (h : src e = i ∨ dst e = i) : C09.other src dst e i ≠ i := by
  unfold C09.other
  split_ifs with h1
  · intro h2; exact hloop e (h1.trans h2.symm)
  · intro h2; exact h1 h2

theorem other_at (src dst : Fin m → Fin n) (e : Fin m) (i : Fin n) (h : src e = i ∨ dst e = i) :
    src e = C09.other src dst e i ∨ dst e = C09.other src dst e i := by
  unfold C09.other
  split_ifs with h1
  · exact Or.inr rfl
  · exact Or.inl rfl

theorem adjA_other (src dst : Fin m → Fin n) (act : Fin m → Prop) (e : Fin m) (i : Fin n) (ha : act e)
    (h : src e = i ∨ dst e = i) : adjA src dst act i (C09.other src dst e i) := by
  unfold C09.other
  split_ifs with h1
  · exact ⟨e, ha, Or.inl ⟨h1, rfl⟩⟩
  · rcases h with h | h
    · exact absurd h h1
    · exact ⟨e, ha, Or.inr ⟨rfl, h⟩⟩

end C06

namespace C06

variable {n m : ℕ}

open Classical in
/-- soundness: the minimum-rank vertex of every component of the active edges must be the root -/
theorem enc_onecycle (src dst : Fin m → Fin n) (act : Fin m → Prop) [DecidablePred act]
    (h : Enc src dst act) : OneCycle src dst act := by
  obtain ⟨passed, rank, isRoot, _, _, _, hdeg, hgeq, r0, hr0, huniq⟩ := h
  have hcard : ∀ i, (inc src dst act i).card = 0 ∨ (inc src dst act i).card = 2 := by
    intro i
    have := hdeg i
    split_ifs at this
    · exact Or.inr this
    · exact Or.inl this
  have hvp : ∀ i, visited src dst act i → passed i := by
    intro i hv
    have := hdeg i
    unfold visited at hv
    split_ifs at this with hp
    · exact hp
    · omega
  refine ⟨hcard, ?_⟩
  -- every visited vertex reaches the root
  have hroot : ∀ a, visited src dst act a → C04.Reach (adjA src dst act) (visited src dst act) a r0 := by
    intro a ha
    let C := univ.filter (fun v => C04.Reach (adjA src dst act) (visited src dst act) a v)
    have haC : a ∈ C := by simp only [C, mem_filter, mem_univ, true_and]; exact Relation.ReflTransGen.refl
    obtain ⟨v, hvC, hmin⟩ := Finset.exists_min_image C rank ⟨a, haC⟩
    have hav : C04.Reach (adjA src dst act) (visited src dst act) a v := (mem_filter.mp hvC).2
    -- v is visited
    have hvv : visited src dst act v := by
      rcases Relation.ReflTransGen.cases_tail hav with h | ⟨c, _, hstep⟩
      · rw [h]; exact ha
      · exact hstep.2.2
    -- every active edge at v leads to a vertex of the component, hence of rank >= rank v
    have hall : geq src dst act rank v = inc src dst act v := by
      apply Finset.filter_true_of_mem
      intro e he
      simp only [inc, mem_filter, mem_univ, true_and] at he
      set w := C09.other src dst e v with hw
      have hadj : adjA src dst act v w := adjA_other src dst act e v he.1 he.2
      have hwv : visited src dst act w := by
        have hmem : e ∈ inc src dst act w := by
          simp only [inc, mem_filter, mem_univ, true_and]
          exact ⟨he.1, other_at src dst e v he.2⟩
        rcases hcard w with h0 | h2
        · exact absurd (card_eq_zero.mp h0 ▸ hmem) (notMem_empty e)
        · exact h2
      have : w ∈ C := by
        simp only [C, mem_filter, mem_univ, true_and]
        exact Relation.ReflTransGen.tail hav ⟨hadj, hvv, hwv⟩
      exact hmin w this
    have h2 := hgeq v (hvp v hvv)
    rw [hall] at h2
    have h3 : (inc src dst act v).card = 2 := hvv
    have hvr : isRoot v := by
      by_contra hnr
      rw [if_neg hnr] at h2
      omega
    rw [← huniq v hvr]
    exact hav
  intro a b ha hb
  exact Relation.ReflTransGen.trans (hroot a ha) (C04.reach_symm _ _ (adjA_symm src dst act) (hroot b hb))

/-- completeness: rank the visited vertices by growth from one of them -/
theorem onecycle_enc (src dst : Fin m → Fin n) (act : Fin m → Prop) [DecidablePred act] (hn : 0 < n)
    (h : OneCycle src dst act) : Enc src dst act := by
  obtain ⟨hcard, hconn⟩ := h
  have inst : DecidablePred (visited src dst act) := fun i => by unfold visited; exact inferInstance
  have hdeg : ∀ i, (inc src dst act i).card = if visited src dst act i then 2 else 0 := by
    intro i
    by_cases hv : visited src dst act i
    · rw [if_pos hv]; exact hv
    · rw [if_neg hv]
      rcases hcard i with h0 | h2
      · exact h0
      · exact absurd h2 hv
  by_cases hne : ∃ r, visited src dst act r
  · obtain ⟨r, hr⟩ := hne
    have hG0 : C04.Good (adjA src dst act) (visited src dst act) r {r} (fun _ => 0) := by
      refine ⟨mem_singleton_self r, ?_, ?_, ?_⟩
      · intro x hx; rw [mem_singleton.mp hx]; exact hr
      · intro x _; simp
      · intro x hx hxr; exact absurd (mem_singleton.mp hx) hxr
    obtain ⟨X, rank', hG, hall⟩ := C04.grow (adjA src dst act) (visited src dst act) (adjA_symm src dst act) hconn r hr _ {r}
      (fun _ => 0) rfl hG0
    have hXn : X.card ≤ n := by
      have := card_le_univ X
      simpa using this
    refine ⟨visited src dst act, fun v => if v ∈ X then rank' v else 0, fun v => v = r, inferInstance, inferInstance, ?_, hdeg, ?_, ⟨r, rfl, fun r' h' => h'⟩⟩
    · intro v
      by_cases hv : v ∈ X
      · have := hG.2.2.1 v hv
        simp only [hv, if_true]; omega
      · simp only [hv, if_false]; exact hn
    · intro i hi
      by_cases hir : i = r
      · rw [if_pos hir]
        have : (geq src dst act (fun v => if v ∈ X then rank' v else 0) i).card ≤ (inc src dst act i).card :=
          card_le_card (filter_subset _ _)
        have h2 : (inc src dst act i).card = 2 := hi
        omega
      · rw [if_neg hir]
        have hiX := hall i hi
        obtain ⟨y, hy, ⟨e, hae, hends⟩, hlt⟩ := hG.2.2.2 i hiX hir
        have heI : e ∈ inc src dst act i := by
          simp only [inc, mem_filter, mem_univ, true_and]
          refine ⟨hae, ?_⟩
          rcases hends with ⟨h1, _⟩ | ⟨_, h2⟩
          · exact Or.inl h1
          · exact Or.inr h2
        have hoth : C09.other src dst e i = y := by
          unfold C09.other
          rcases hends with ⟨h1, h2⟩ | ⟨h1, h2⟩
          · rw [if_pos h1]; exact h2
          · split_ifs with h3
            · rw [h2]; exact h3.symm.trans h1
            · exact h1
        have hnot : e ∉ geq src dst act (fun v => if v ∈ X then rank' v else 0) i := by
          simp only [geq, mem_filter, not_and, not_le]
          intro _
          rw [hoth]
          simp only [hy, hiX, if_true]
          exact hlt
        have hsub : geq src dst act (fun v => if v ∈ X then rank' v else 0) i ⊆ (inc src dst act i).erase e := by
          intro e' he'
          refine mem_erase.mpr ⟨fun hh => hnot (hh ▸ he'), (mem_filter.mp he').1⟩
        have h2 : (inc src dst act i).card = 2 := hi
        have h3 : ((inc src dst act i).erase e).card = 1 := by
          rw [card_erase_of_mem heI, h2]
        exact le_trans (card_le_card hsub) (le_of_eq h3)
  · -- no active edge anywhere: any vertex may be the root
    push Not at hne
    refine ⟨visited src dst act, fun _ => 0, fun v => v = ⟨0, hn⟩, inferInstance, inferInstance, fun _ => hn, hdeg,
      fun i hi => absurd hi (hne i), ⟨⟨0, hn⟩, rfl, fun r' h' => h'⟩⟩

/-- the constraints posted by `_active_edges_single_cycle` (rank/root encoding) are satisfiable exactly when the
    active edges are empty or form one simple cycle -/
theorem enc_iff_onecycle (src dst : Fin m → Fin n) (act : Fin m → Prop) [DecidablePred act] (hn : 0 < n) :
    Enc src dst act ↔ OneCycle src dst act :=
  ⟨enc_onecycle src dst act, onecycle_enc src dst act hn⟩

/-- in every solution the `passed` flags are exactly the visited vertices -/
theorem passed_iff_visited (src dst : Fin m → Fin n) (act : Fin m → Prop) [DecidablePred act]
    (passed : Fin n → Prop) [DecidablePred passed]
    (hdeg : ∀ i, (inc src dst act i).card = if passed i then 2 else 0) (i : Fin n) :
    passed i ↔ visited src dst act i := by
  unfold visited
  have := hdeg i
  split_ifs at this with hp
  · exact ⟨fun _ => this, fun _ => hp⟩
  · constructor
    · intro hp'; exact absurd hp' hp
    · intro h2; omega

end C06

#print axioms C09.enc_iff_acyclic
#print axioms C04.enc_iff_connected
#print axioms C04T.enc_iff_tree
#print axioms C06.enc_iff_onecycle
#print axioms C06.passed_iff_visited

/-
C05 — lemma over the emission contract of `_division_connected` (rank / spanning-forest encoding, cspuz/graph.py).

Schema posted by the function (contracts/c05_emission.py), for labels d(v) in 0..k-1:
  rank(v) in [0, n-1], is_root(v), spanning_forest(e);
  for every edge e:      sf(e) -> d(src e) = d(dst e) and rank(src e) ≠ rank(dst e);
  for every vertex i:    #{e at i : sf(e) and rank(other end) < rank(i)} = (0 if is_root(i) else 1);
  for every label l:     #{i : is_root(i) and d(i) = l} = 1     (≤ 1 with allow_empty_group);
  for every listed root: d(r) = position in the list, and is_root(r).
Theorem: satisfiable in (rank, is_root, sf) exactly when every label class induces a connected subgraph, every label
is used unless allow_empty_group, and every listed root carries the label of its position.
-/
namespace C05

open C04T (adjE)

attribute [local instance] Classical.propDecidable

variable {n m k : ℕ}

/-- entries of row i that are forest edges leading to a smaller rank -/
noncomputable def lowerF (src dst : Fin m → Fin n) (sf : Fin m → Prop) (rank : Fin n → ℕ) (i : Fin n) : Finset (Fin m) :=
  univ.filter (fun e => (src e = i ∨ dst e = i) ∧ sf e ∧ rank (C09.other src dst e i) < rank i)

def Enc (src dst : Fin m → Fin n) (d : Fin n → Fin k) (ro : Fin k → Option (Fin n)) (allowEmpty : Prop) : Prop :=
  ∃ (rank : Fin n → ℕ) (isRoot : Fin n → Prop) (sf : Fin m → Prop),
    (∀ v, rank v < n) ∧
    (∀ e, sf e → d (src e) = d (dst e) ∧ rank (src e) ≠ rank (dst e)) ∧
    (∀ i, (lowerF src dst sf rank i).card = if isRoot i then 0 else 1) ∧
    (∀ l, (¬ allowEmpty → (univ.filter (fun i => isRoot i ∧ d i = l)).card = 1) ∧
          (allowEmpty → (univ.filter (fun i => isRoot i ∧ d i = l)).card ≤ 1)) ∧
    (∀ l r, ro l = some r → d r = l ∧ isRoot r)

def Spec (src dst : Fin m → Fin n) (d : Fin n → Fin k) (ro : Fin k → Option (Fin n)) (allowEmpty : Prop) : Prop :=
  (∀ l, C04.Connected (adjE src dst) (fun v => d v = l)) ∧ (¬ allowEmpty → ∀ l, ∃ v, d v = l) ∧
    (∀ l r, ro l = some r → d r = l)

/-- the end point with the larger rank is determined by the edge -/
theorem hi_unique (src dst : Fin m → Fin n) (rank : Fin n → ℕ) (e : Fin m) (x i : Fin n)
    (hx : src e = x ∨ dst e = x) (hi : src e = i ∨ dst e = i)
    (h1 : rank (C09.other src dst e x) < rank x) (h2 : rank (C09.other src dst e i) < rank i) : x = i := by
  by_contra hne
  unfold C09.other at h1 h2
  rcases hx with hx | hx <;> rcases hi with hi | hi
  · exact hne (hx.symm.trans hi)
  · have h3 : ¬ src e = i := fun h => hne (hx.symm.trans h)
    rw [if_pos hx] at h1
    rw [if_neg h3] at h2
    rw [hi] at h1; rw [hx] at h2; omega
  · have h3 : ¬ src e = x := fun h => hne (h.symm.trans hi)
    rw [if_neg h3] at h1
    rw [if_pos hi] at h2
    rw [hi] at h1; rw [hx] at h2; omega
  · exact hne (hx.symm.trans hi)

/-- both end points of an edge, seen from one of them -/
theorem ends (src dst : Fin m → Fin n) (e : Fin m) (x : Fin n) (hx : src e = x ∨ dst e = x) :
    (src e = x ∧ dst e = C09.other src dst e x) ∨ (dst e = x ∧ src e = C09.other src dst e x) := by
  unfold C09.other
  by_cases h : src e = x
  · left; exact ⟨h, by rw [if_pos h]⟩
  · right
    rcases hx with hx | hx
    · exact absurd hx h
    · exact ⟨hx, by rw [if_neg h]⟩

theorem enc_spec (src dst : Fin m → Fin n) (d : Fin n → Fin k) (ro : Fin k → Option (Fin n)) (allowEmpty : Prop)
    (h : Enc src dst d ro allowEmpty) : Spec src dst d ro allowEmpty := by
  obtain ⟨rank, isRoot, sf, _, hsf, hcnt, hlab, hro⟩ := h
  have hle : ∀ l, (univ.filter (fun i => isRoot i ∧ d i = l)).card ≤ 1 := by
    intro l
    by_cases ha : allowEmpty
    · exact (hlab l).2 ha
    · exact le_of_eq ((hlab l).1 ha)
  have hroot : ∀ t i, rank i = t → ∃ r, isRoot r ∧ d r = d i ∧ C04.Reach (adjE src dst) (fun v => d v = d i) i r := by
    intro t
    induction t using Nat.strong_induction_on with
    | _ t ih =>
      intro i ht
      by_cases hr : isRoot i
      · exact ⟨i, hr, rfl, Relation.ReflTransGen.refl⟩
      · have hc := hcnt i
        rw [if_neg hr] at hc
        obtain ⟨e, he⟩ := card_pos.mp (by omega : 0 < (lowerF src dst sf rank i).card)
        simp only [lowerF, mem_filter, mem_univ, true_and] at he
        obtain ⟨hat, hsfe, hlt⟩ := he
        have hdj : d (C09.other src dst e i) = d i := by
          have := (hsf e hsfe).1
          rcases ends src dst e i hat with ⟨h1, h2⟩ | ⟨h1, h2⟩
          · rw [← h2, ← this, h1]
          · rw [← h2, this, h1]
        obtain ⟨r, hr1, hr2, hr3⟩ := ih (rank (C09.other src dst e i)) (by omega) (C09.other src dst e i) rfl
        rw [hdj] at hr2 hr3
        exact ⟨r, hr1, hr2, Relation.ReflTransGen.head ⟨C04T.adj_other src dst e i hat, rfl, hdj⟩ hr3⟩
  refine ⟨?_, ?_, ?_⟩
  · intro l a b ha hb
    obtain ⟨ra, hra1, hra2, hra3⟩ := hroot _ a rfl
    obtain ⟨rb, hrb1, hrb2, hrb3⟩ := hroot _ b rfl
    rw [ha] at hra2 hra3
    rw [hb] at hrb2 hrb3
    have hma : ra ∈ univ.filter (fun i => isRoot i ∧ d i = l) := by simp [hra1, hra2]
    have hmb : rb ∈ univ.filter (fun i => isRoot i ∧ d i = l) := by simp [hrb1, hrb2]
    have : ra = rb := card_le_one.mp (hle l) ra hma rb hmb
    subst this
    exact Relation.ReflTransGen.trans hra3 (C04.reach_symm (adjE src dst) _ (C04T.adjE_symm src dst) hrb3)
  · intro ha l
    have := (hlab l).1 ha
    obtain ⟨v, hv⟩ := card_pos.mp (by omega : 0 < (univ.filter (fun i => isRoot i ∧ d i = l)).card)
    simp only [mem_filter, mem_univ, true_and] at hv
    exact ⟨v, hv.2⟩
  · intro l r hr
    exact (hro l r hr).1

/-- per label: a root predicate, ranks and forest edges for the class of `l` -/
theorem class_data (src dst : Fin m → Fin n) (d : Fin n → Fin k) (ro : Fin k → Option (Fin n)) (l : Fin k)
    (hconn : C04.Connected (adjE src dst) (fun v => d v = l)) (hro : ∀ r, ro l = some r → d r = l) :
    ∃ (R : Fin n → Prop) (rk : Fin n → ℕ) (F : Fin m → Prop),
      (∀ v, R v → d v = l) ∧ (∀ a b, R a → R b → a = b) ∧ ((∃ v, d v = l) → ∃ r, R r) ∧ (∀ r, ro l = some r → R r) ∧
      (∀ v, d v = l → rk v < n) ∧
      (∀ e, F e → d (src e) = l ∧ d (dst e) = l ∧ rk (src e) ≠ rk (dst e)) ∧
      (∀ i, d i = l → (lowerF src dst F rk i).card = if R i then 0 else 1) := by
  by_cases hne : ∃ v, d v = l
  · -- the root: the listed one, else any member
    have hr0 : ∃ r, d r = l ∧ ∀ r', ro l = some r' → r' = r := by
      cases hrl : ro l with
      | none => obtain ⟨v, hv⟩ := hne; exact ⟨v, hv, fun r' h => by simp at h⟩
      | some r' => exact ⟨r', hro r' hrl, fun r'' h => by simpa using h.symm⟩
    obtain ⟨r, hr, hrl⟩ := hr0
    have hG0 : C04.Good (adjE src dst) (fun v => d v = l) r {r} (fun _ => 0) := by
      refine ⟨mem_singleton_self r, ?_, ?_, ?_⟩
      · intro x hx; rw [mem_singleton.mp hx]; exact hr
      · intro x _; simp
      · intro x hx hxr; exact absurd (mem_singleton.mp hx) hxr
    obtain ⟨X, rank, hG, hall⟩ := C04.grow (adjE src dst) (fun v => d v = l) (C04T.adjE_symm src dst) hconn r hr _ {r}
      (fun _ => 0) rfl hG0
    have hXn : X.card ≤ n := by
      have := card_le_univ X
      simpa using this
    -- a parent edge for every member but the root
    have hpar : ∀ x, ∃ o : Option (Fin m), (d x = l ∧ x ≠ r) →
        ∃ e, o = some e ∧ (src e = x ∨ dst e = x) ∧ d (C09.other src dst e x) = l ∧
          rank (C09.other src dst e x) < rank x := by
      intro x
      by_cases h : d x = l ∧ x ≠ r
      · obtain ⟨y, hy, ⟨e, he⟩, hlt⟩ := hG.2.2.2 x (hall x h.1) h.2
        have hyl : d y = l := hG.2.1 y hy
        have hat : src e = x ∨ dst e = x := by
          rcases he with he | he
          · exact Or.inl he.1
          · exact Or.inr he.2
        have hoth : C09.other src dst e x = y := by
          unfold C09.other
          rcases he with he | he
          · rw [if_pos he.1]; exact he.2
          · by_cases hsx : src e = x
            · rw [if_pos hsx, he.2, ← hsx, he.1]
            · rw [if_neg hsx]; exact he.1
        exact ⟨some e, fun _ => ⟨e, rfl, hat, by rw [hoth]; exact hyl, by rw [hoth]; exact hlt⟩⟩
      · exact ⟨none, fun h' => absurd h' h⟩
    choose par hpar2 using hpar
    refine ⟨fun v => v = r, rank, fun e => ∃ x, d x = l ∧ x ≠ r ∧ par x = some e, ?_, ?_, ?_, ?_, ?_, ?_, ?_⟩
    · intro v hv; rw [hv]; exact hr
    · intro a b ha hb; rw [ha, hb]
    · intro _; exact ⟨r, rfl⟩
    · intro r' h; exact hrl r' h
    · intro v hv
      have := hG.2.2.1 v (hall v hv)
      omega
    · rintro e ⟨x, hxl, hxr, hpx⟩
      obtain ⟨e', he', hat, hol, hlt⟩ := hpar2 x ⟨hxl, hxr⟩
      have : e' = e := by rw [hpx] at he'; exact (Option.some.inj he').symm
      subst this
      rcases ends src dst e' x hat with ⟨h1, h2⟩ | ⟨h1, h2⟩
      · refine ⟨h1 ▸ hxl, h2 ▸ hol, ?_⟩
        rw [h1, h2]; omega
      · refine ⟨h2 ▸ hol, h1 ▸ hxl, ?_⟩
        rw [h1, h2]; omega
    · intro i hil
      by_cases hir : i = r
      · rw [if_pos hir]
        rw [card_eq_zero]
        ext e
        simp only [lowerF, mem_filter, mem_univ, true_and, notMem_empty, iff_false]
        rintro ⟨hat, ⟨x, hxl, hxr, hpx⟩, hlt⟩
        obtain ⟨e', he', hat', _, hlt'⟩ := hpar2 x ⟨hxl, hxr⟩
        have : e' = e := by rw [hpx] at he'; exact (Option.some.inj he').symm
        subst this
        have := hi_unique src dst rank e' x i hat' hat hlt' hlt
        exact hxr (this.trans hir)
      · rw [if_neg hir]
        obtain ⟨e0, he0, hat0, _, hlt0⟩ := hpar2 i ⟨hil, hir⟩
        rw [card_eq_one]
        refine ⟨e0, ?_⟩
        ext e
        simp only [lowerF, mem_filter, mem_univ, true_and, mem_singleton]
        constructor
        · rintro ⟨hat, ⟨x, hxl, hxr, hpx⟩, hlt⟩
          obtain ⟨e', he', hat', _, hlt'⟩ := hpar2 x ⟨hxl, hxr⟩
          have : e' = e := by rw [hpx] at he'; exact (Option.some.inj he').symm
          subst this
          have hxi := hi_unique src dst rank e' x i hat' hat hlt' hlt
          subst hxi
          rw [he0] at hpx
          exact (Option.some.inj hpx).symm
        · intro he
          subst he
          exact ⟨hat0, ⟨i, hil, hir, he0⟩, hlt0⟩
  · -- an unused label
    refine ⟨fun _ => False, fun _ => 0, fun _ => False, ?_, ?_, ?_, ?_, ?_, ?_, ?_⟩
    · intro v hv; exact absurd hv id
    · intro a b ha; exact absurd ha id
    · intro h; exact absurd h hne
    · intro r h; exact absurd ⟨r, hro r h⟩ hne
    · intro v hv; exact absurd ⟨v, hv⟩ hne
    · intro e he; exact absurd he id
    · intro i hi; exact absurd ⟨i, hi⟩ hne

theorem spec_enc (src dst : Fin m → Fin n) (d : Fin n → Fin k) (ro : Fin k → Option (Fin n)) (allowEmpty : Prop)
    (h : Spec src dst d ro allowEmpty) : Enc src dst d ro allowEmpty := by
  obtain ⟨hconn, hused, hroots⟩ := h
  have hdata := fun l => class_data src dst d ro l (hconn l) (hroots l)
  choose R rk F hR1 hR2 hR3 hR4 hrk hF hcnt using hdata
  refine ⟨fun i => rk (d i) i, fun i => R (d i) i, fun e => F (d (src e)) e, ?_, ?_, ?_, ?_, ?_⟩
  · intro v; exact hrk (d v) v rfl
  · intro e he
    obtain ⟨h1, h2, h3⟩ := hF (d (src e)) e he
    refine ⟨h2.symm, ?_⟩
    simp only
    rw [h2]; exact h3
  · intro i
    have hset : lowerF src dst (fun e => F (d (src e)) e) (fun i => rk (d i) i) i = lowerF src dst (F (d i)) (rk (d i)) i := by
      ext e
      simp only [lowerF, mem_filter, mem_univ, true_and]
      constructor
      · rintro ⟨hat, hFe, hlt⟩
        obtain ⟨h1, h2, _⟩ := hF (d (src e)) e hFe
        have hsi : d (src e) = d i := by
          rcases hat with h | h
          · rw [h]
          · rw [← h]; exact h2.symm
        have hoi : d (C09.other src dst e i) = d i := by
          rcases ends src dst e i hat with ⟨_, h4⟩ | ⟨_, h4⟩
          · rw [← h4, h2, hsi]
          · rw [← h4, hsi]
        refine ⟨hat, hsi ▸ hFe, ?_⟩
        rw [hoi] at hlt; exact hlt
      · rintro ⟨hat, hFe, hlt⟩
        obtain ⟨h1, h2, _⟩ := hF (d i) e hFe
        have hoi : d (C09.other src dst e i) = d i := by
          rcases ends src dst e i hat with ⟨_, h4⟩ | ⟨_, h4⟩
          · rw [← h4]; exact h2
          · rw [← h4]; exact h1
        refine ⟨hat, h1 ▸ hFe, ?_⟩
        rw [hoi]; exact hlt
    rw [hset]
    exact hcnt (d i) i rfl
  · intro l
    have hset : univ.filter (fun i => R (d i) i ∧ d i = l) = univ.filter (fun i => R l i) := by
      ext i
      simp only [mem_filter, mem_univ, true_and]
      constructor
      · rintro ⟨h1, h2⟩; rw [h2] at h1; exact h1
      · intro h1
        have := hR1 l i h1
        exact ⟨this ▸ h1, this⟩
    rw [hset]
    have hle : (univ.filter (fun i => R l i)).card ≤ 1 := by
      apply card_le_one.mpr
      intro a ha b hb
      exact hR2 l a b (mem_filter.mp ha).2 (mem_filter.mp hb).2
    refine ⟨fun ha => ?_, fun _ => hle⟩
    obtain ⟨r, hr⟩ := hR3 l (hused ha l)
    have : 0 < (univ.filter (fun i => R l i)).card := card_pos.mpr ⟨r, by simp [hr]⟩
    omega
  · intro l r hr
    have h1 := hroots l r hr
    refine ⟨h1, ?_⟩
    simp only
    rw [h1]; exact hR4 l r hr

/-- the constraints posted by `_division_connected` (rank / spanning-forest encoding) are satisfiable exactly when every
    label class is connected, every label is used (unless empty groups are allowed) and the listed roots carry the
    label of their position -/
theorem enc_iff_spec (src dst : Fin m → Fin n) (d : Fin n → Fin k) (ro : Fin k → Option (Fin n)) (allowEmpty : Prop) :
    Enc src dst d ro allowEmpty ↔ Spec src dst d ro allowEmpty :=
  ⟨enc_spec src dst d ro allowEmpty, spec_enc src dst d ro allowEmpty⟩

end C05

#print axioms C05.enc_iff_spec

/-
C07 — lemma over the emission contract of `_division_connected_variable_groups` (cspuz/graph.py).

Schema posted by the function (contracts/c07_emission.py):
  group_id(v), rank(v) in [0, n-1], is_root(v), active(e);
  is_root(v) <-> rank(v) = 0;   is_root(v) -> group_id(v) = v;
  for every edge e:   active(e) -> rank(src e) ≠ rank(dst e),   active(e) -> group_id(src e) = group_id(dst e);
  for every vertex i: #{e at i : active(e) and rank(other end) < rank(i)} = (0 if is_root(i) else 1);
  with group sizes:   down(v), total(v) in [1, n], down <= total, is_root(v) -> down(v) = total(v),
                      for every vertex i: (sum of down(other end) over the active edges at i leading to a larger rank) + 1 = down(i),
                      total(v) = size(v) where a size is given, active(e) -> total(src e) = total(dst e).
Theorem: a partition of the vertices (an equivalence P) is realised by group ids (equal ids exactly inside a block) under
these constraints exactly when every block induces a connected subgraph and every vertex with a given size lies in a block
of exactly that size.
-/
namespace C07

open C04T (adjE)

attribute [local instance] Classical.propDecidable

variable {n m : ℕ}

structure Aux (n m : ℕ) where
  gid : Fin n → ℕ
  rank : Fin n → ℕ
  isRoot : Fin n → Prop
  act : Fin m → Prop
  down : Fin n → ℕ
  total : Fin n → ℕ

/-- active edges at i leading to a smaller / larger rank -/
noncomputable def lowA (src dst : Fin m → Fin n) (act : Fin m → Prop) (rank : Fin n → ℕ) (i : Fin n) : Finset (Fin m) :=
  univ.filter (fun e => (src e = i ∨ dst e = i) ∧ act e ∧ rank (C09.other src dst e i) < rank i)

noncomputable def upA (src dst : Fin m → Fin n) (act : Fin m → Prop) (rank : Fin n → ℕ) (i : Fin n) : Finset (Fin m) :=
  univ.filter (fun e => (src e = i ∨ dst e = i) ∧ act e ∧ rank i < rank (C09.other src dst e i))

def Base (src dst : Fin m → Fin n) (a : Aux n m) : Prop :=
  (∀ v, a.gid v < n ∧ a.rank v < n) ∧ (∀ i, a.isRoot i ↔ a.rank i = 0) ∧ (∀ i, a.isRoot i → a.gid i = i.val) ∧
  (∀ e, a.act e → a.rank (src e) ≠ a.rank (dst e)) ∧
  (∀ i, (lowA src dst a.act a.rank i).card = if a.isRoot i then 0 else 1) ∧
  (∀ e, a.act e → a.gid (src e) = a.gid (dst e))

def Sized (src dst : Fin m → Fin n) (size : Fin n → Option ℕ) (a : Aux n m) : Prop :=
  (∀ i, 1 ≤ a.down i ∧ a.down i ≤ n ∧ 1 ≤ a.total i ∧ a.total i ≤ n ∧ a.down i ≤ a.total i) ∧
  (∀ i, a.isRoot i → a.down i = a.total i) ∧
  (∀ i, (∑ e ∈ upA src dst a.act a.rank i, a.down (C09.other src dst e i)) + 1 = a.down i) ∧
  (∀ i s, size i = some s → a.total i = s) ∧
  (∀ e, a.act e → a.total (src e) = a.total (dst e))

/-- the group ids realise the partition -/
def Realizes (a : Aux n m) (P : Fin n → Fin n → Prop) : Prop := ∀ u v, a.gid u = a.gid v ↔ P u v

def BlocksConnected (src dst : Fin m → Fin n) (P : Fin n → Fin n → Prop) : Prop :=
  ∀ u v, P u v → C04.Reach (adjE src dst) (fun w => P u w) u v

def SizesOK (size : Fin n → Option ℕ) (P : Fin n → Fin n → Prop) : Prop :=
  ∀ v s, size v = some s → (univ.filter (fun w => P v w)).card = s

theorem reach_congr (adj : Fin n → Fin n → Prop) (A B : Fin n → Prop) (h : ∀ w, A w → B w) {x y : Fin n}
    (hr : C04.Reach adj A x y) : C04.Reach adj B x y := by
  induction hr with
  | refl => exact Relation.ReflTransGen.refl
  | tail _ hbc ih => exact Relation.ReflTransGen.tail ih ⟨hbc.1, h _ hbc.2.1, h _ hbc.2.2⟩

/-- every vertex is joined to a root along active edges; whatever is constant along active edges has the same value at
    the root -/
theorem root_of (src dst : Fin m → Fin n) (a : Aux n m) (hB : Base src dst a) :
    ∀ t i, a.rank i = t → ∃ r, a.isRoot r ∧ C04.Reach (adjE src dst) (fun w => a.gid w = a.gid i) i r ∧
      ∀ f : Fin n → ℕ, (∀ e, a.act e → f (src e) = f (dst e)) → f r = f i := by
  obtain ⟨_, _, _, _, hcnt, hgid⟩ := hB
  intro t
  induction t using Nat.strong_induction_on with
  | _ t ih =>
    intro i ht
    by_cases hr : a.isRoot i
    · exact ⟨i, hr, Relation.ReflTransGen.refl, fun _ _ => rfl⟩
    · have hc := hcnt i
      rw [if_neg hr] at hc
      obtain ⟨e, he⟩ := card_pos.mp (by omega : 0 < (lowA src dst a.act a.rank i).card)
      simp only [lowA, mem_filter, mem_univ, true_and] at he
      obtain ⟨hat, hact, hlt⟩ := he
      have hconst : ∀ f : Fin n → ℕ, (∀ e, a.act e → f (src e) = f (dst e)) → f (C09.other src dst e i) = f i := by
        intro f hf
        have := hf e hact
        rcases C05.ends src dst e i hat with ⟨h1, h2⟩ | ⟨h1, h2⟩
        · rw [← h2, ← this, h1]
        · rw [← h2, this, h1]
      have hdj := hconst a.gid hgid
      obtain ⟨r, hr1, hr2, hr3⟩ := ih (a.rank (C09.other src dst e i)) (by omega) (C09.other src dst e i) rfl
      rw [hdj] at hr2
      refine ⟨r, hr1, Relation.ReflTransGen.head ⟨C04T.adj_other src dst e i hat, rfl, hdj⟩ hr2, ?_⟩
      intro f hf
      rw [hr3 f hf, hconst f hf]

theorem base_connected (src dst : Fin m → Fin n) (a : Aux n m) (P : Fin n → Fin n → Prop) (hB : Base src dst a)
    (hR : Realizes a P) : BlocksConnected src dst P := by
  intro u v huv
  obtain ⟨ru, hru1, hru2, hru3⟩ := root_of src dst a hB _ u rfl
  obtain ⟨rv, hrv1, hrv2, hrv3⟩ := root_of src dst a hB _ v rfl
  have hguv : a.gid u = a.gid v := (hR u v).mpr huv
  have hg1 := hru3 a.gid hB.2.2.2.2.2
  have hg2 := hrv3 a.gid hB.2.2.2.2.2
  have h1 := hB.2.2.1 ru hru1
  have h2 := hB.2.2.1 rv hrv1
  have : ru = rv := Fin.ext (by omega)
  subst this
  rw [← hguv] at hrv2
  have hsub : ∀ w, a.gid w = a.gid u → P u w := fun w hw => (hR u w).mp hw.symm
  have r1 := reach_congr (adjE src dst) _ (fun w => P u w) hsub hru2
  have r2 := reach_congr (adjE src dst) _ (fun w => P u w) hsub hrv2
  exact Relation.ReflTransGen.trans r1 (C04.reach_symm (adjE src dst) _ (C04T.adjE_symm src dst) r2)

/-- the end points of an edge by rank -/
def hi (src dst : Fin m → Fin n) (rank : Fin n → ℕ) (e : Fin m) : Fin n :=
  if rank (src e) < rank (dst e) then dst e else src e

def lo (src dst : Fin m → Fin n) (rank : Fin n → ℕ) (e : Fin m) : Fin n :=
  if rank (src e) < rank (dst e) then src e else dst e

theorem lo_eq_iff (src dst : Fin m → Fin n) (rank : Fin n → ℕ) (e : Fin m) (i : Fin n)
    (hne : rank (src e) ≠ rank (dst e)) :
    lo src dst rank e = i ↔ (src e = i ∨ dst e = i) ∧ rank i < rank (C09.other src dst e i) := by
  unfold lo C09.other
  constructor
  · intro h
    by_cases hlt : rank (src e) < rank (dst e)
    · rw [if_pos hlt] at h
      refine ⟨Or.inl h, ?_⟩
      rw [if_pos h, ← h]; exact hlt
    · rw [if_neg hlt] at h
      refine ⟨Or.inr h, ?_⟩
      have hsi : ¬ src e = i := by
        intro hs
        rw [hs, ← h] at hne
        exact hne rfl
      rw [if_neg hsi, ← h]; omega
  · rintro ⟨hat, hlt⟩
    by_cases hsi : src e = i
    · rw [if_pos hsi] at hlt
      rw [← hsi] at hlt
      rw [if_pos hlt]; exact hsi
    · rw [if_neg hsi] at hlt
      rcases hat with h | h
      · exact absurd h hsi
      · have : ¬ rank (src e) < rank (dst e) := by rw [h]; omega
        rw [if_neg this]; exact h

theorem hi_eq_iff (src dst : Fin m → Fin n) (rank : Fin n → ℕ) (e : Fin m) (i : Fin n)
    (hne : rank (src e) ≠ rank (dst e)) :
    hi src dst rank e = i ↔ (src e = i ∨ dst e = i) ∧ rank (C09.other src dst e i) < rank i := by
  unfold hi C09.other
  constructor
  · intro h
    by_cases hlt : rank (src e) < rank (dst e)
    · rw [if_pos hlt] at h
      refine ⟨Or.inr h, ?_⟩
      have hsi : ¬ src e = i := by
        intro hs
        rw [hs, ← h] at hne
        exact hne rfl
      rw [if_neg hsi, ← h]; exact hlt
    · rw [if_neg hlt] at h
      refine ⟨Or.inl h, ?_⟩
      rw [if_pos h, ← h]; omega
  · rintro ⟨hat, hlt⟩
    by_cases hsi : src e = i
    · rw [if_pos hsi] at hlt
      rw [← hsi] at hlt
      have : ¬ rank (src e) < rank (dst e) := by omega
      rw [if_neg this]; exact hsi
    · rw [if_neg hsi] at hlt
      rcases hat with h | h
      · exact absurd h hsi
      · rw [← h] at hlt
        rw [if_pos hlt]; exact h

theorem other_lo (src dst : Fin m → Fin n) (rank : Fin n → ℕ) (e : Fin m) :
    C09.other src dst e (lo src dst rank e) = hi src dst rank e ∨ src e = dst e := by
  unfold lo hi C09.other
  by_cases hlt : rank (src e) < rank (dst e)
  · left; simp [hlt]
  · by_cases hsd : src e = dst e
    · right; exact hsd
    · left
      simp only [hlt, if_false]
      rw [if_neg hsd]

/-- double counting over a set of vertices closed under active edges with a single root: the root's `down` value is the
    number of vertices -/
theorem count_tree (src dst : Fin m → Fin n) (a : Aux n m) (hB : Base src dst a)
    (hS3 : ∀ i, (∑ e ∈ upA src dst a.act a.rank i, a.down (C09.other src dst e i)) + 1 = a.down i)
    (T : Finset (Fin n)) (r : Fin n) (hr : r ∈ T) (hroot : a.isRoot r) (huniq : ∀ i ∈ T, a.isRoot i → i = r)
    (hclosed : ∀ e, a.act e → (src e ∈ T ↔ dst e ∈ T)) : a.down r = T.card := by
  obtain ⟨_, _, _, hne, hcnt, _⟩ := hB
  let AT : Finset (Fin m) := univ.filter (fun e => a.act e ∧ src e ∈ T)
  have hAT : ∀ e, e ∈ AT ↔ a.act e ∧ src e ∈ T := by intro e; simp [AT]
  -- (1)
  have h1 : ∑ i ∈ T, a.down i = T.card + ∑ i ∈ T, ∑ e ∈ upA src dst a.act a.rank i, a.down (C09.other src dst e i) := by
    rw [← sum_congr rfl (fun i _ => hS3 i), sum_add_distrib]
    simp; ring
  -- (2)
  have hlo : ∀ e ∈ AT, lo src dst a.rank e ∈ T := by
    intro e he
    obtain ⟨hact, hs⟩ := (hAT e).mp he
    unfold lo
    split_ifs
    · exact hs
    · exact (hclosed e hact).mp hs
  have h2 : ∑ i ∈ T, ∑ e ∈ upA src dst a.act a.rank i, a.down (C09.other src dst e i) =
      ∑ e ∈ AT, a.down (hi src dst a.rank e) := by
    rw [← sum_fiberwise_of_maps_to hlo]
    apply sum_congr rfl
    intro i hi'
    have hset : AT.filter (fun e => lo src dst a.rank e = i) = upA src dst a.act a.rank i := by
      ext e
      simp only [mem_filter, hAT, upA, mem_univ, true_and]
      constructor
      · rintro ⟨⟨hact, _⟩, hl⟩
        obtain ⟨hat, hlt⟩ := (lo_eq_iff src dst a.rank e i (hne e hact)).mp hl
        exact ⟨hat, hact, hlt⟩
      · rintro ⟨hat, hact, hlt⟩
        refine ⟨⟨hact, ?_⟩, (lo_eq_iff src dst a.rank e i (hne e hact)).mpr ⟨hat, hlt⟩⟩
        rcases hat with h | h
        · rw [h]; exact hi'
        · exact (hclosed e hact).mpr (h ▸ hi')
    rw [hset]
    apply sum_congr rfl
    intro e he
    simp only [upA, mem_filter, mem_univ, true_and] at he
    obtain ⟨hat, hact, hlt⟩ := he
    have hl := (lo_eq_iff src dst a.rank e i (hne e hact)).mpr ⟨hat, hlt⟩
    rcases other_lo src dst a.rank e with h | h
    · rw [← h, hl]
    · exact absurd (congrArg a.rank h) (hne e hact)
  -- (3)
  have hhi : ∀ e ∈ AT, hi src dst a.rank e ∈ T := by
    intro e he
    obtain ⟨hact, hs⟩ := (hAT e).mp he
    unfold hi
    split_ifs
    · exact (hclosed e hact).mp hs
    · exact hs
  have h3 : ∑ e ∈ AT, a.down (hi src dst a.rank e) = ∑ c ∈ T, (if a.isRoot c then 0 else a.down c) := by
    rw [← sum_fiberwise_of_maps_to hhi]
    apply sum_congr rfl
    intro c hc
    have hset : AT.filter (fun e => hi src dst a.rank e = c) = lowA src dst a.act a.rank c := by
      ext e
      simp only [mem_filter, hAT, lowA, mem_univ, true_and]
      constructor
      · rintro ⟨⟨hact, _⟩, hh⟩
        obtain ⟨hat, hlt⟩ := (hi_eq_iff src dst a.rank e c (hne e hact)).mp hh
        exact ⟨hat, hact, hlt⟩
      · rintro ⟨hat, hact, hlt⟩
        refine ⟨⟨hact, ?_⟩, (hi_eq_iff src dst a.rank e c (hne e hact)).mpr ⟨hat, hlt⟩⟩
        rcases hat with h | h
        · rw [h]; exact hc
        · exact (hclosed e hact).mpr (h ▸ hc)
    rw [hset]
    have hconst : ∀ e ∈ lowA src dst a.act a.rank c, a.down (hi src dst a.rank e) = a.down c := by
      intro e he
      simp only [lowA, mem_filter, mem_univ, true_and] at he
      obtain ⟨hat, hact, hlt⟩ := he
      rw [(hi_eq_iff src dst a.rank e c (hne e hact)).mpr ⟨hat, hlt⟩]
    rw [sum_congr rfl hconst, sum_const, hcnt c]
    split_ifs <;> simp
  -- (4), (5)
  have h4 : ∑ c ∈ T, (if a.isRoot c then 0 else a.down c) = ∑ c ∈ T.erase r, a.down c := by
    rw [← add_sum_erase T _ hr, if_pos hroot, zero_add]
    apply sum_congr rfl
    intro c hc
    have hcr : c ≠ r := (mem_erase.mp hc).1
    have hcT : c ∈ T := (mem_erase.mp hc).2
    have : ¬ a.isRoot c := fun h => hcr (huniq c hcT h)
    rw [if_neg this]
  have h5 : ∑ i ∈ T, a.down i = a.down r + ∑ c ∈ T.erase r, a.down c := (add_sum_erase T _ hr).symm
  omega

theorem sized_sizes (src dst : Fin m → Fin n) (size : Fin n → Option ℕ) (a : Aux n m) (P : Fin n → Fin n → Prop)
    (hB : Base src dst a) (hS : Sized src dst size a) (hR : Realizes a P) : SizesOK size P := by
  intro v s hvs
  obtain ⟨_, hS2, hS3, hS4, hS5⟩ := hS
  obtain ⟨r, hr1, _, hr3⟩ := root_of src dst a hB _ v rfl
  have hgr : a.gid r = a.gid v := hr3 a.gid hB.2.2.2.2.2
  have htr : a.total r = a.total v := hr3 a.total hS5
  let T : Finset (Fin n) := univ.filter (fun w => P v w)
  have hT : ∀ w, w ∈ T ↔ a.gid v = a.gid w := by
    intro w
    simp only [T, mem_filter, mem_univ, true_and]
    exact (hR v w).symm
  have hrT : r ∈ T := (hT r).mpr hgr.symm
  have huniq : ∀ i ∈ T, a.isRoot i → i = r := by
    intro i hi hiroot
    have h1 := hB.2.2.1 i hiroot
    have h2 := hB.2.2.1 r hr1
    have h3 := (hT i).mp hi
    exact Fin.ext (by omega)
  have hclosed : ∀ e, a.act e → (src e ∈ T ↔ dst e ∈ T) := by
    intro e he
    have := hB.2.2.2.2.2 e he
    rw [hT, hT, this]
  have hcount := count_tree src dst a hB hS3 T r hrT hr1 huniq hclosed
  have := hS2 r hr1
  have h4 := hS4 v s hvs
  show T.card = s
  omega

/-- in a ranked set the root may be given rank 0 -/
theorem good_root0 (adj : Fin n → Fin n → Prop) (act : Fin n → Prop) (r : Fin n) (X : Finset (Fin n)) (rank : Fin n → ℕ)
    (h : C04.Good adj act r X rank) : C04.Good adj act r X (fun v => if v = r then 0 else rank v) := by
  obtain ⟨h1, h2, h3, h4⟩ := h
  refine ⟨h1, h2, ?_, ?_⟩
  · intro x hx
    have := h3 x hx
    simp only
    split_ifs <;> omega
  · intro x hx hxr
    obtain ⟨y, hy, hadj, hlt⟩ := h4 x hx hxr
    refine ⟨y, hy, hadj, ?_⟩
    simp only [hxr, if_false]
    split_ifs <;> omega

/-- a connected set of vertices with a chosen root: ranks (root 0, others positive) and tree edges such that every other
    member has exactly one tree edge to a smaller rank -/
theorem tree_data (src dst : Fin m → Fin n) (A : Fin n → Prop) (hconn : C04.Connected (adjE src dst) A) (r : Fin n)
    (hr : A r) :
    ∃ (rk : Fin n → ℕ) (F : Fin m → Prop),
      rk r = 0 ∧ (∀ v, A v → rk v < n) ∧ (∀ v, A v → v ≠ r → 1 ≤ rk v) ∧
      (∀ e, F e → A (src e) ∧ A (dst e) ∧ rk (src e) ≠ rk (dst e)) ∧
      (∀ i, A i → (lowA src dst F rk i).card = if i = r then 0 else 1) := by
  have hG0 : C04.Good (adjE src dst) A r {r} (fun _ => 0) := by
    refine ⟨mem_singleton_self r, ?_, ?_, ?_⟩
    · intro x hx; rw [mem_singleton.mp hx]; exact hr
    · intro x _; simp
    · intro x hx hxr; exact absurd (mem_singleton.mp hx) hxr
  obtain ⟨X, rank0, hG', hall⟩ := C04.grow (adjE src dst) A (C04T.adjE_symm src dst) hconn r hr _ {r} (fun _ => 0) rfl hG0
  have hG := good_root0 (adjE src dst) A r X rank0 hG'
  generalize hrank : (fun v => if v = r then 0 else rank0 v) = rank at hG
  have hr0 : rank r = 0 := by rw [← hrank]; simp
  have hXn : X.card ≤ n := by
    have := card_le_univ X
    simpa using this
  have hpar : ∀ x, ∃ o : Option (Fin m), (A x ∧ x ≠ r) →
      ∃ e, o = some e ∧ (src e = x ∨ dst e = x) ∧ A (C09.other src dst e x) ∧
        rank (C09.other src dst e x) < rank x := by
    intro x
    by_cases h : A x ∧ x ≠ r
    · obtain ⟨y, hy, ⟨e, he⟩, hlt⟩ := hG.2.2.2 x (hall x h.1) h.2
      have hyl : A y := hG.2.1 y hy
      have hat : src e = x ∨ dst e = x := by
        rcases he with he | he
        · exact Or.inl he.1
        · exact Or.inr he.2
      have hoth : C09.other src dst e x = y := by
        unfold C09.other
        rcases he with he | he
        · rw [if_pos he.1]; exact he.2
        · by_cases hsx : src e = x
          · rw [if_pos hsx, he.2, ← hsx, he.1]
          · rw [if_neg hsx]; exact he.1
      exact ⟨some e, fun _ => ⟨e, rfl, hat, by rw [hoth]; exact hyl, by rw [hoth]; exact hlt⟩⟩
    · exact ⟨none, fun h' => absurd h' h⟩
  choose par hpar2 using hpar
  refine ⟨rank, fun e => ∃ x, A x ∧ x ≠ r ∧ par x = some e, hr0, ?_, ?_, ?_, ?_⟩
  · intro v hv
    have := hG.2.2.1 v (hall v hv)
    omega
  · intro v hv hvr
    obtain ⟨y, _, _, hlt⟩ := hG.2.2.2 v (hall v hv) hvr
    omega
  · rintro e ⟨x, hxl, hxr, hpx⟩
    obtain ⟨e', he', hat, hol, hlt⟩ := hpar2 x ⟨hxl, hxr⟩
    have : e' = e := by rw [hpx] at he'; exact (Option.some.inj he').symm
    subst this
    rcases C05.ends src dst e' x hat with ⟨h1, h2⟩ | ⟨h1, h2⟩
    · refine ⟨h1 ▸ hxl, h2 ▸ hol, ?_⟩
      rw [h1, h2]; omega
    · refine ⟨h2 ▸ hol, h1 ▸ hxl, ?_⟩
      rw [h1, h2]; omega
  · intro i hil
    by_cases hir : i = r
    · rw [if_pos hir]
      rw [card_eq_zero]
      ext e
      simp only [lowA, mem_filter, mem_univ, true_and, notMem_empty, iff_false]
      rintro ⟨hat, ⟨x, hxl, hxr, hpx⟩, hlt⟩
      obtain ⟨e', he', hat', _, hlt'⟩ := hpar2 x ⟨hxl, hxr⟩
      have : e' = e := by rw [hpx] at he'; exact (Option.some.inj he').symm
      subst this
      have := C05.hi_unique src dst rank e' x i hat' hat hlt' hlt
      exact hxr (this.trans hir)
    · rw [if_neg hir]
      obtain ⟨e0, he0, hat0, _, hlt0⟩ := hpar2 i ⟨hil, hir⟩
      rw [card_eq_one]
      refine ⟨e0, ?_⟩
      ext e
      simp only [lowA, mem_filter, mem_univ, true_and, mem_singleton]
      constructor
      · rintro ⟨hat, ⟨x, hxl, hxr, hpx⟩, hlt⟩
        obtain ⟨e', he', hat', _, hlt'⟩ := hpar2 x ⟨hxl, hxr⟩
        have : e' = e := by rw [hpx] at he'; exact (Option.some.inj he').symm
        subst this
        have hxi := C05.hi_unique src dst rank e' x i hat' hat hlt' hlt
        subst hxi
        rw [he0] at hpx
        exact (Option.some.inj hpx).symm
      · intro he
        subst he
        exact ⟨hat0, ⟨i, hil, hir, he0⟩, hlt0⟩

/-- sizes of the subtrees, by recursion with fuel: one more than the sum over the children -/
noncomputable def D (src dst : Fin m → Fin n) (act : Fin m → Prop) (rank : Fin n → ℕ) : ℕ → Fin n → ℕ
  | 0, _ => 1
  | k + 1, i => (∑ e ∈ upA src dst act rank i, D src dst act rank k (C09.other src dst e i)) + 1

theorem D_stable (src dst : Fin m → Fin n) (act : Fin m → Prop) (rank : Fin n → ℕ) (hlt : ∀ v, rank v < n) :
    ∀ k i, n ≤ k + rank i → D src dst act rank (k + 1) i = D src dst act rank k i := by
  intro k
  induction k with
  | zero => intro i h; have := hlt i; omega
  | succ k ih =>
    intro i h
    show (∑ e ∈ upA src dst act rank i, D src dst act rank (k + 1) (C09.other src dst e i)) + 1 =
      (∑ e ∈ upA src dst act rank i, D src dst act rank k (C09.other src dst e i)) + 1
    congr 1
    apply sum_congr rfl
    intro e he
    simp only [upA, mem_filter, mem_univ, true_and] at he
    exact ih _ (by omega)

theorem D_rec (src dst : Fin m → Fin n) (act : Fin m → Prop) (rank : Fin n → ℕ) (hlt : ∀ v, rank v < n) (i : Fin n) :
    (∑ e ∈ upA src dst act rank i, D src dst act rank n (C09.other src dst e i)) + 1 = D src dst act rank n i := by
  have := D_stable src dst act rank hlt n i (by omega)
  rw [← this]
  rfl

theorem other_other (src dst : Fin m → Fin n) (e : Fin m) (i : Fin n) (hat : src e = i ∨ dst e = i) :
    C09.other src dst e (C09.other src dst e i) = i := by
  unfold C09.other
  by_cases h1 : src e = i
  · rw [if_pos h1]
    by_cases h2 : src e = dst e
    · rw [if_pos h2, ← h2, h1]
    · rw [if_neg h2, h1]
  · rw [if_neg h1, if_pos rfl]
    rcases hat with h | h
    · exact absurd h h1
    · exact h

/-- the `down` value of a vertex is at most that of the root it leads to -/
theorem down_le_root (src dst : Fin m → Fin n) (a : Aux n m) (hB : Base src dst a)
    (hS3 : ∀ i, (∑ e ∈ upA src dst a.act a.rank i, a.down (C09.other src dst e i)) + 1 = a.down i) :
    ∀ t i, a.rank i = t → ∃ r, a.isRoot r ∧ a.gid r = a.gid i ∧ a.down i ≤ a.down r := by
  obtain ⟨_, _, _, _, hcnt, hgid⟩ := hB
  intro t
  induction t using Nat.strong_induction_on with
  | _ t ih =>
    intro i ht
    by_cases hr : a.isRoot i
    · exact ⟨i, hr, rfl, le_refl _⟩
    · have hc := hcnt i
      rw [if_neg hr] at hc
      obtain ⟨e, he⟩ := card_pos.mp (by omega : 0 < (lowA src dst a.act a.rank i).card)
      simp only [lowA, mem_filter, mem_univ, true_and] at he
      obtain ⟨hat, hact, hlt⟩ := he
      have hdj : a.gid (C09.other src dst e i) = a.gid i := by
        have := hgid e hact
        rcases C05.ends src dst e i hat with ⟨h1, h2⟩ | ⟨h1, h2⟩
        · rw [← h2, ← this, h1]
        · rw [← h2, this, h1]
      obtain ⟨r, hr1, hr2, hr3⟩ := ih (a.rank (C09.other src dst e i)) (by omega) (C09.other src dst e i) rfl
      refine ⟨r, hr1, hr2.trans hdj, le_trans ?_ hr3⟩
      -- i is a child of the other end j: its value is one of the summands of down j
      have hoo := other_other src dst e i hat
      have hatj : src e = C09.other src dst e i ∨ dst e = C09.other src dst e i := by
        rcases C05.ends src dst e i hat with ⟨_, h2⟩ | ⟨_, h2⟩
        · exact Or.inr h2
        · exact Or.inl h2
      have hmem : e ∈ upA src dst a.act a.rank (C09.other src dst e i) := by
        simp only [upA, mem_filter, mem_univ, true_and]
        exact ⟨hatj, hact, by rw [hoo]; exact hlt⟩
      have hle := single_le_sum (f := fun e' => a.down (C09.other src dst e' (C09.other src dst e i)))
        (fun _ _ => Nat.zero_le _) hmem
      simp only [hoo] at hle
      have := hS3 (C09.other src dst e i)
      omega

theorem exists_rep (P : Fin n → Fin n → Prop) (hP : Equivalence P) :
    ∃ rep : Fin n → Fin n, (∀ v, P v (rep v)) ∧ (∀ u v, P u v → rep u = rep v) := by
  let S : Setoid (Fin n) := ⟨P, hP⟩
  refine ⟨fun v => Quotient.out (Quotient.mk S v), ?_, ?_⟩
  · intro v
    have : S.r (Quotient.out (Quotient.mk S v)) v := Quotient.mk_out v
    exact hP.symm this
  · intro u v h
    have : Quotient.mk S u = Quotient.mk S v := Quotient.sound h
    simp only [this]

theorem construct (src dst : Fin m → Fin n) (size : Fin n → Option ℕ) (P : Fin n → Fin n → Prop) (hP : Equivalence P)
    (hconn : BlocksConnected src dst P) (hsize : SizesOK size P) :
    ∃ a : Aux n m, Base src dst a ∧ Sized src dst size a ∧ Realizes a P := by
  obtain ⟨rep, hrep1, hrep2⟩ := exists_rep P hP
  have hreprep : ∀ v, rep (rep v) = rep v := fun v => (hrep2 v (rep v) (hrep1 v)).symm
  -- a tree for the block of every vertex r
  have hdata := fun r => tree_data src dst (fun w => P r w)
    (fun x y hx hy => reach_congr (adjE src dst) _ _ (fun w hw => hP.trans hx hw) (hconn x y (hP.trans (hP.symm hx) hy)))
    r (hP.refl r)
  choose RK FF hrk0 hrklt hrkpos hF hcnt using hdata
  let rank : Fin n → ℕ := fun v => RK (rep v) v
  let act : Fin m → Prop := fun e => FF (rep (src e)) e
  have hact_same : ∀ e, act e → rep (dst e) = rep (src e) := by
    intro e he
    obtain ⟨h1, h2, _⟩ := hF (rep (src e)) e he
    have := hrep2 _ _ h2
    rw [hreprep] at this
    exact this.symm
  have hranklt : ∀ v, rank v < n := fun v => hrklt (rep v) v (hP.symm (hrep1 v))
  let down : Fin n → ℕ := D src dst act rank n
  let total : Fin n → ℕ := fun v => (univ.filter (fun w => P v w)).card
  let a : Aux n m := ⟨fun v => (rep v).val, rank, fun v => v = rep v, act, down, total⟩
  have hlow : ∀ i, lowA src dst act rank i = lowA src dst (FF (rep i)) (RK (rep i)) i := by
    intro i
    ext e
    simp only [lowA, mem_filter, mem_univ, true_and]
    constructor
    · rintro ⟨hat, hFe, hlt⟩
      have hsame := hact_same e hFe
      have hsi : rep (src e) = rep i := by
        rcases hat with h | h
        · rw [h]
        · rw [← h]; exact hsame.symm
      have hoi : rep (C09.other src dst e i) = rep i := by
        rcases C05.ends src dst e i hat with ⟨_, h4⟩ | ⟨_, h4⟩
        · rw [← h4, hsame, hsi]
        · rw [← h4, hsi]
      refine ⟨hat, ?_, ?_⟩
      · have : FF (rep (src e)) e := hFe
        rw [hsi] at this; exact this
      · have : RK (rep (C09.other src dst e i)) (C09.other src dst e i) < RK (rep i) i := hlt
        rw [hoi] at this; exact this
    · rintro ⟨hat, hFe, hlt⟩
      obtain ⟨h1, h2, _⟩ := hF (rep i) e hFe
      have hs : rep (src e) = rep i := by have := hrep2 _ _ h1; rw [hreprep] at this; exact this.symm
      have hd : rep (dst e) = rep i := by have := hrep2 _ _ h2; rw [hreprep] at this; exact this.symm
      have hoi : rep (C09.other src dst e i) = rep i := by
        rcases C05.ends src dst e i hat with ⟨_, h4⟩ | ⟨_, h4⟩
        · rw [← h4]; exact hd
        · rw [← h4]; exact hs
      refine ⟨hat, ?_, ?_⟩
      · show FF (rep (src e)) e
        rw [hs]; exact hFe
      · show RK (rep (C09.other src dst e i)) (C09.other src dst e i) < RK (rep i) i
        rw [hoi]; exact hlt
  have hB : Base src dst a := by
    refine ⟨fun v => ⟨(rep v).isLt, hranklt v⟩, ?_, fun i hi => ?_, ?_, ?_, ?_⟩
    · intro i
      constructor
      · intro hi
        show RK (rep i) i = 0
        have : i = rep i := hi
        rw [← this]; exact hrk0 i
      · intro hi
        by_contra hne
        have hi0 : RK (rep i) i = 0 := hi
        have := hrkpos (rep i) i (hP.symm (hrep1 i)) hne
        omega
    · have : i = rep i := hi
      show (rep i).val = i.val
      rw [← this]
    · intro e he
      obtain ⟨_, _, h3⟩ := hF (rep (src e)) e he
      show RK (rep (src e)) (src e) ≠ RK (rep (dst e)) (dst e)
      rw [hact_same e he]; exact h3
    · intro i
      rw [hlow i, hcnt (rep i) i (hP.symm (hrep1 i))]
      by_cases hi : i = rep i
      · have hi' : a.isRoot i := hi
        rw [if_pos hi, if_pos hi']
      · have hi' : ¬ a.isRoot i := hi
        rw [if_neg hi, if_neg hi']
    · intro e he
      show (rep (src e)).val = (rep (dst e)).val
      rw [hact_same e he]
  have hR : Realizes a P := by
    intro u v
    constructor
    · intro h
      have : rep u = rep v := Fin.ext h
      exact hP.trans (hrep1 u) (this ▸ hP.symm (hrep1 v))
    · intro h
      show (rep u).val = (rep v).val
      rw [hrep2 u v h]
  have hS3 : ∀ i, (∑ e ∈ upA src dst a.act a.rank i, a.down (C09.other src dst e i)) + 1 = a.down i :=
    fun i => D_rec src dst act rank hranklt i
  have hblock : ∀ u v, P u v → total u = total v := by
    intro u v h
    show (univ.filter (fun w => P u w)).card = (univ.filter (fun w => P v w)).card
    congr 1
    ext w
    simp only [mem_filter, mem_univ, true_and]
    exact ⟨fun hw => hP.trans (hP.symm h) hw, fun hw => hP.trans h hw⟩
  have hrootsize : ∀ i, a.isRoot i → a.down i = a.total i := by
    intro i hi
    let T : Finset (Fin n) := univ.filter (fun w => P i w)
    have hT : ∀ w, w ∈ T ↔ P i w := by intro w; simp [T]
    have huniq : ∀ j ∈ T, a.isRoot j → j = i := by
      intro j hj hjr
      have h1 : j = rep j := hjr
      have h2 : i = rep i := hi
      rw [h1, h2]
      exact (hrep2 i j ((hT j).mp hj)).symm
    have hclosed : ∀ e, a.act e → (src e ∈ T ↔ dst e ∈ T) := by
      intro e he
      have hsd : P (src e) (dst e) := by
        have := hact_same e he
        exact hP.trans (hrep1 (src e)) (this ▸ hP.symm (hrep1 (dst e)))
      rw [hT, hT]
      exact ⟨fun h => hP.trans h hsd, fun h => hP.trans h (hP.symm hsd)⟩
    exact count_tree src dst a hB hS3 T i ((hT i).mpr (hP.refl i)) hi huniq hclosed
  refine ⟨a, hB, ⟨?_, hrootsize, hS3, ?_, ?_⟩, hR⟩
  · intro i
    have h1 : 1 ≤ a.down i := by have := hS3 i; omega
    have h2 : 1 ≤ a.total i := by
      show 1 ≤ (univ.filter (fun w => P i w)).card
      exact card_pos.mpr ⟨i, mem_filter.mpr ⟨mem_univ i, hP.refl i⟩⟩
    have h3 : a.total i ≤ n := by
      have := card_le_univ (univ.filter (fun w => P i w))
      simpa using this
    obtain ⟨r, hr1, hr2, hr3⟩ := down_le_root src dst a hB hS3 _ i rfl
    have h4 : a.down r = a.total r := hrootsize r hr1
    have h5 : a.total r = a.total i := by
      apply hblock
      have : rep r = rep i := Fin.ext hr2
      exact hP.trans (hrep1 r) (this ▸ hP.symm (hrep1 i))
    exact ⟨h1, by omega, h2, h3, by omega⟩
  · intro i s hs
    exact hsize i s hs
  · intro e he
    apply hblock
    have := hact_same e he
    exact hP.trans (hrep1 (src e)) (this ▸ hP.symm (hrep1 (dst e)))

/-- with group sizes: the partition P is realised by group ids under the posted constraints exactly when its blocks are
    connected and every sized vertex lies in a block of that size -/
theorem enc_iff_sized (src dst : Fin m → Fin n) (size : Fin n → Option ℕ) (P : Fin n → Fin n → Prop) (hP : Equivalence P) :
    (∃ a : Aux n m, Base src dst a ∧ Sized src dst size a ∧ Realizes a P) ↔ BlocksConnected src dst P ∧ SizesOK size P :=
  ⟨fun ⟨a, hB, hS, hR⟩ => ⟨base_connected src dst a P hB hR, sized_sizes src dst size a P hB hS hR⟩,
   fun ⟨h1, h2⟩ => construct src dst size P hP h1 h2⟩

/-- without group sizes (group_size=None: no `down` / `total` variables are created) -/
theorem enc_iff_plain (src dst : Fin m → Fin n) (P : Fin n → Fin n → Prop) (hP : Equivalence P) :
    (∃ a : Aux n m, Base src dst a ∧ Realizes a P) ↔ BlocksConnected src dst P :=
  ⟨fun ⟨a, hB, hR⟩ => base_connected src dst a P hB hR,
   fun h => by
     obtain ⟨a, hB, _, hR⟩ := construct src dst (fun _ => none) P hP h (fun v s hs => by cases hs)
     exact ⟨a, hB, hR⟩⟩

/-! ### the `_with_borders` variant: `is_border[e] == (group_id[src e] != group_id[dst e])` posted on top -/

/-- joined by an edge that is not a border -/
def adjNB (src dst : Fin m → Fin n) (B : Fin m → Prop) (x y : Fin n) : Prop :=
  ∃ e, ¬ B e ∧ ((src e = x ∧ dst e = y) ∨ (src e = y ∧ dst e = x))

/-- in the same block after cutting the border edges -/
def SameBlock (src dst : Fin m → Fin n) (B : Fin m → Prop) (x y : Fin n) : Prop :=
  C04.Reach (adjNB src dst B) (fun _ => True) x y

theorem adjNB_symm (src dst : Fin m → Fin n) (B : Fin m → Prop) : ∀ x y, adjNB src dst B x y → adjNB src dst B y x := by
  rintro x y ⟨e, hb, h | h⟩
  · exact ⟨e, hb, Or.inr h⟩
  · exact ⟨e, hb, Or.inl h⟩

theorem sameBlock_equiv (src dst : Fin m → Fin n) (B : Fin m → Prop) : Equivalence (SameBlock src dst B) :=
  ⟨fun _ => Relation.ReflTransGen.refl,
   fun h => C04.reach_symm (adjNB src dst B) _ (adjNB_symm src dst B) h,
   fun h1 h2 => Relation.ReflTransGen.trans h1 h2⟩

theorem enc_iff_borders (src dst : Fin m → Fin n) (size : Fin n → Option ℕ) (B : Fin m → Prop) :
    (∃ a : Aux n m, Base src dst a ∧ Sized src dst size a ∧ ∀ e, B e ↔ a.gid (src e) ≠ a.gid (dst e)) ↔
    SizesOK size (SameBlock src dst B) ∧ ∀ e, B e → ¬ SameBlock src dst B (src e) (dst e) := by
  constructor
  · rintro ⟨a, hB, hS, hbor⟩
    let P : Fin n → Fin n → Prop := fun u v => a.gid u = a.gid v
    have hR : Realizes a P := fun u v => Iff.rfl
    have hc := base_connected src dst a P hB hR
    have hs := sized_sizes src dst size a P hB hS hR
    have hQP : ∀ u v, SameBlock src dst B u v → P u v := by
      intro u v h
      induction h with
      | refl => exact rfl
      | tail _ hbc ih =>
        obtain ⟨⟨e, hnb, he⟩, _, _⟩ := hbc
        have hg : a.gid (src e) = a.gid (dst e) := by
          by_contra hne
          exact hnb ((hbor e).mpr hne)
        rcases he with ⟨h1, h2⟩ | ⟨h1, h2⟩
        · exact ih.trans (by rw [← h1, ← h2]; exact hg)
        · exact ih.trans (by rw [← h1, ← h2]; exact hg.symm)
    have hPQ : ∀ u v, P u v → SameBlock src dst B u v := by
      intro u v h
      have key : ∀ w, C04.Reach (adjE src dst) (fun x => P u x) u w → SameBlock src dst B u w := by
        intro w hr
        induction hr with
        | refl => exact Relation.ReflTransGen.refl
        | tail _ hbc ih =>
          refine Relation.ReflTransGen.tail ih ⟨?_, trivial, trivial⟩
          obtain ⟨⟨e, he⟩, hx, hy⟩ := hbc
          have hxy : a.gid _ = a.gid _ := hx.symm.trans hy
          refine ⟨e, ?_, he⟩
          intro hb
          have := (hbor e).mp hb
          rcases he with ⟨h1, h2⟩ | ⟨h1, h2⟩
          · rw [h1, h2] at this; exact this hxy
          · rw [h1, h2] at this; exact this hxy.symm
      exact key v (hc u v h)
    refine ⟨?_, ?_⟩
    · intro v s hvs
      have := hs v s hvs
      rw [← this]
      congr 1
      ext w
      simp only [mem_filter, mem_univ, true_and]
      exact ⟨hQP v w, hPQ v w⟩
    · intro e hb hq
      exact (hbor e).mp hb (hQP _ _ hq)
  · rintro ⟨hs, hb⟩
    have hP := sameBlock_equiv src dst B
    have hconn : BlocksConnected src dst (SameBlock src dst B) := by
      intro u v h
      have key : ∀ w, SameBlock src dst B u w → C04.Reach (adjE src dst) (fun x => SameBlock src dst B u x) u w := by
        intro w hw
        induction hw with
        | refl => exact Relation.ReflTransGen.refl
        | tail hab hbc ih =>
          have hbc' := hbc
          obtain ⟨⟨e, _, he⟩, _, _⟩ := hbc
          exact Relation.ReflTransGen.tail ih ⟨⟨e, he⟩, hab, Relation.ReflTransGen.tail hab hbc'⟩
      exact key v h
    obtain ⟨a, hB, hS, hR⟩ := construct src dst size _ hP hconn hs
    refine ⟨a, hB, hS, ?_⟩
    intro e
    constructor
    · intro hbe hg
      exact hb e hbe ((hR _ _).mp hg)
    · intro hne
      by_contra hnb
      apply hne
      apply (hR _ _).mpr
      exact Relation.ReflTransGen.single ⟨⟨e, hnb, Or.inl ⟨rfl, rfl⟩⟩, trivial, trivial⟩

end C07

#print axioms C07.enc_iff_sized
#print axioms C07.enc_iff_plain
#print axioms C07.enc_iff_borders
