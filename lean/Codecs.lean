/-
Lemmas over the step contracts of the serializer combinators of cspuz/problem_serializer.py (Lean 4 + Mathlib).

A combinator with its environment (height, width) fixed is modelled by two big-step result relations
  ser data idx r     r = the value returned by  c.serialize(env, data, idx)    (none / some (items consumed, text))
  des text idx r     r = the value returned by  c.deserialize(env, text, idx)  (none / some (chars consumed, items))
(a call that raises or does not return has no result).  The pyvc contracts (contracts/c15_combinators.py) prove on the
real methods that OneOf, Seq, Grid and Tupl compute exactly the relations defined below from the relations of their
components; the leaf combinators are proved directly against `RT` and `Lead` by pyvc (contracts/c15_leaf_codecs.py).
The theorems carry the round-trip contract `RT` from the components to the composition, for every nesting.
-/
import Mathlib.Data.List.Basic
import Mathlib.Tactic

namespace C15

structure Codec (V : Type) where
  ser : List V → ℕ → Option (ℕ × List Char) → Prop
  des : List Char → ℕ → Option (ℕ × List V) → Prop

variable {V : Type}

/-- what the decoder may return for the items `(data.drop p).take k` that were consumed -/
abbrev Shape (V : Type) := List V → ℕ → ℕ → List V → Prop

/-- exactly the consumed items -/
def exact : Shape V := fun data p k items => items = (data.drop p).take k

/-- the consumed items, possibly followed by padding when they were the last items of the list (MultiDigit packs a
    short tail into a full group of digits; Seq cuts the padding off again) -/
def padded : Shape V := fun data p k items =>
  ∃ pad, items = (data.drop p).take k ++ pad ∧ (pad ≠ [] → p + k = data.length)

/-- round trip, with arbitrary text before and any text allowed by `F` after: whenever serialization of items of the
    domain `D` succeeds, deserialization of the produced text consumes exactly the produced characters and returns items
    of shape `G` (it has that result, and no other) -/
def RTg (G : Shape V) (c : Codec V) (D : V → Prop) (F : List Char → Prop) : Prop :=
  ∀ data p k s, (∀ x ∈ data, D x) → c.ser data p (some (k, s)) →
    p + k ≤ data.length ∧ ∀ pre post, F post → ∃ items, G data p k items ∧
      c.des (pre ++ s ++ post) pre.length (some (s.length, items)) ∧
      ∀ r, c.des (pre ++ s ++ post) pre.length r → r = some (s.length, items)

/-- exact round trip -/
def RT (c : Codec V) (D : V → Prop) (F : List Char → Prop) : Prop := RTg exact c D F

/-- round trip up to padding after the last item -/
def RTp (c : Codec V) (D : V → Prop) (F : List Char → Prop) : Prop := RTg padded c D F

theorem RTp_of_RT {c : Codec V} {D : V → Prop} {F : List Char → Prop} (h : RT c D F) : RTp c D F := by
  intro data p k s hd hs
  obtain ⟨h1, h2⟩ := h data p k s hd hs
  refine ⟨h1, fun pre post hF => ?_⟩
  obtain ⟨items, hG, h3⟩ := h2 pre post hF
  exact ⟨items, ⟨[], by simpa [exact] using hG, fun hne => absurd rfl hne⟩, h3⟩

theorem RT_unfold {c : Codec V} {D : V → Prop} {F : List Char → Prop} (h : RT c D F) :
    ∀ data p k s, (∀ x ∈ data, D x) → c.ser data p (some (k, s)) →
      p + k ≤ data.length ∧ ∀ pre post, F post →
        c.des (pre ++ s ++ post) pre.length (some (s.length, (data.drop p).take k)) ∧
        ∀ r, c.des (pre ++ s ++ post) pre.length r → r = some (s.length, (data.drop p).take k) := by
  intro data p k s hd hs
  obtain ⟨h1, h2⟩ := h data p k s hd hs
  refine ⟨h1, fun pre post hF => ?_⟩
  obtain ⟨items, hG, h3⟩ := h2 pre post hF
  have : items = (data.drop p).take k := hG
  subst this
  exact h3

theorem RT_fold {c : Codec V} {D : V → Prop} {F : List Char → Prop}
    (h : ∀ data p k s, (∀ x ∈ data, D x) → c.ser data p (some (k, s)) →
      p + k ≤ data.length ∧ ∀ pre post, F post →
        c.des (pre ++ s ++ post) pre.length (some (s.length, (data.drop p).take k)) ∧
        ∀ r, c.des (pre ++ s ++ post) pre.length r → r = some (s.length, (data.drop p).take k)) : RT c D F := by
  intro data p k s hd hs
  obtain ⟨h1, h2⟩ := h data p k s hd hs
  exact ⟨h1, fun pre post hF => ⟨_, rfl, h2 pre post hF⟩⟩

/-- leading characters: every produced text is non-empty and starts in `L`; text that does not start in `L` (or has
    ended) is refused -/
def Lead (c : Codec V) (D : V → Prop) (L : Char → Prop) : Prop :=
  (∀ data p k s, (∀ x ∈ data, D x) → c.ser data p (some (k, s)) → ∃ ch rest, s = ch :: rest ∧ L ch) ∧
  (∀ text q, (∀ ch, text[q]? = some ch → ¬ L ch) → c.des text q none ∧ ∀ r, c.des text q r → r = none)

theorem RTg_mono {G : Shape V} {c : Codec V} {D D' : V → Prop} {F F' : List Char → Prop} (h : RTg G c D F)
    (hD : ∀ x, D' x → D x) (hF : ∀ t, F' t → F t) : RTg G c D' F' := by
  intro data p k s hd hs
  obtain ⟨h1, h2⟩ := h data p k s (fun x hx => hD x (hd x hx)) hs
  exact ⟨h1, fun pre post hp => h2 pre post (hF post hp)⟩

/-! ### OneOf: the first alternative that does not return None -/

inductive First {α : Type} : List (Option α → Prop) → Option α → Prop
  | nil : First [] none
  | hit {R : Option α → Prop} {Rs : List (Option α → Prop)} {a : α} : R (some a) → First (R :: Rs) (some a)
  | skip {R : Option α → Prop} {Rs : List (Option α → Prop)} {r : Option α} : R none → First Rs r → First (R :: Rs) r

def oneOf (cs : List (Codec V)) : Codec V :=
  ⟨fun d p r => First (cs.map (fun c => c.ser d p)) r, fun t q r => First (cs.map (fun c => c.des t q)) r⟩

theorem first_some_mem {α : Type} {β : Type} (f : β → Option α → Prop) :
    ∀ (cs : List β) (a : α), First (cs.map f) (some a) → ∃ c ∈ cs, f c (some a) := by
  intro cs
  induction cs with
  | nil => intro a h; cases h
  | cons c cs ih =>
    intro a h
    cases h with
    | hit h1 => exact ⟨c, List.mem_cons_self, h1⟩
    | skip _ h2 =>
      obtain ⟨c', hc', hf⟩ := ih a h2
      exact ⟨c', List.mem_cons_of_mem _ hc', hf⟩

theorem getElem_mid (pre s post : List Char) (ch : Char) (rest : List Char) (hs : s = ch :: rest) :
    (pre ++ s ++ post)[pre.length]? = some ch := by
  subst hs
  simp

theorem oneOf_RTg (G : Shape V) (D : V → Prop) (F : List Char → Prop) :
    ∀ (cs : List (Codec V × (Char → Prop))),
      (∀ cl ∈ cs, RTg G cl.1 D F ∧ Lead cl.1 D cl.2) →
      cs.Pairwise (fun a b => ∀ ch, ¬ (a.2 ch ∧ b.2 ch)) →
      RTg G (oneOf (cs.map Prod.fst)) D F := by
  intro cs
  induction cs with
  | nil =>
    intro _ _ data p k s _ hs
    simp only [oneOf, List.map_nil] at hs
    cases hs
  | cons cl cs ih =>
    intro hall hpw data p k s hd hs
    have hcl := hall cl List.mem_cons_self
    have hrest : ∀ cl' ∈ cs, RTg G cl'.1 D F ∧ Lead cl'.1 D cl'.2 := fun cl' h => hall cl' (List.mem_cons_of_mem _ h)
    obtain ⟨hdis, hpw'⟩ := List.pairwise_cons.mp hpw
    simp only [oneOf, List.map_cons, List.map_map] at hs
    cases hs with
    | hit h1 =>
      obtain ⟨hb, hrt⟩ := hcl.1 data p k s hd h1
      refine ⟨hb, fun pre post hp => ?_⟩
      obtain ⟨items, hG, hd1, hd2⟩ := hrt pre post hp
      refine ⟨items, hG, ?_, ?_⟩
      · simp only [oneOf, List.map_cons]
        exact First.hit hd1
      · intro r hr
        simp only [oneOf, List.map_cons] at hr
        cases hr with
        | hit h3 => exact hd2 _ h3
        | skip h3 _ => exact absurd (hd2 _ h3) (by simp)
    | skip h1 h2 =>
      have h2' : (oneOf (cs.map Prod.fst)).ser data p (some (k, s)) := by
        simp only [oneOf, List.map_map]; exact h2
      obtain ⟨hb, hrt⟩ := ih hrest hpw' data p k s hd h2'
      -- the alternative that produced s, and its leading character
      obtain ⟨cl', hcl', hser⟩ := first_some_mem (fun (c : Codec V × (Char → Prop)) => c.1.ser data p) cs (k, s)
        (by simpa [Function.comp_def] using h2)
      obtain ⟨ch, rest, hsr, hL⟩ := (hrest cl' hcl').2.1 data p k s hd hser
      refine ⟨hb, fun pre post hp => ?_⟩
      have hnot : ∀ c, (pre ++ s ++ post)[pre.length]? = some c → ¬ cl.2 c := by
        intro c hc
        rw [getElem_mid pre s post ch rest hsr] at hc
        have : ch = c := Option.some.inj hc
        subst this
        exact fun h => hdis cl' hcl' ch ⟨h, hL⟩
      obtain ⟨hn1, hn2⟩ := hcl.2.2 (pre ++ s ++ post) pre.length hnot
      obtain ⟨items, hG, hd1, hd2⟩ := hrt pre post hp
      refine ⟨items, hG, ?_, ?_⟩
      · simp only [oneOf, List.map_cons]
        exact First.skip hn1 (by simpa [oneOf] using hd1)
      · intro r hr
        simp only [oneOf, List.map_cons] at hr
        cases hr with
        | hit h3 => exact absurd (hn2 _ h3) (by simp)
        | skip _ h4 => exact hd2 r (by simpa [oneOf] using h4)

/-- OneOf keeps the leading-character discipline: it produces texts starting in the union and refuses the rest -/
theorem oneOf_Lead (D : V → Prop) :
    ∀ (cs : List (Codec V × (Char → Prop))), (∀ cl ∈ cs, Lead cl.1 D cl.2) →
      Lead (oneOf (cs.map Prod.fst)) D (fun ch => ∃ cl ∈ cs, cl.2 ch) := by
  intro cs hall
  refine ⟨?_, ?_⟩
  · intro data p k s hd hs
    simp only [oneOf, List.map_map] at hs
    obtain ⟨cl, hcl, hser⟩ := first_some_mem (fun (c : Codec V × (Char → Prop)) => c.1.ser data p) cs (k, s)
      (by simpa [Function.comp_def] using hs)
    obtain ⟨ch, rest, hsr, hL⟩ := (hall cl hcl).1 data p k s hd hser
    exact ⟨ch, rest, hsr, cl, hcl, hL⟩
  · intro text q hnot
    induction cs with
    | nil =>
      simp only [oneOf, List.map_nil]
      exact ⟨First.nil, fun r hr => by cases hr; rfl⟩
    | cons cl cs ih =>
      have hcl := hall cl List.mem_cons_self
      have hnot1 : ∀ ch, text[q]? = some ch → ¬ cl.2 ch := fun ch hc h => hnot ch hc ⟨cl, List.mem_cons_self, h⟩
      obtain ⟨hn1, hn2⟩ := hcl.2 text q hnot1
      obtain ⟨ih1, ih2⟩ := ih (fun cl' h => hall cl' (List.mem_cons_of_mem _ h))
        (fun ch hc ⟨cl', h1, h2⟩ => hnot ch hc ⟨cl', List.mem_cons_of_mem _ h1, h2⟩)
      simp only [oneOf, List.map_cons] at ih1 ih2 ⊢
      refine ⟨First.skip hn1 ih1, ?_⟩
      intro r hr
      cases hr with
      | hit h3 => exact absurd (hn2 _ h3) (by simp)
      | skip _ h4 => exact ih2 r h4

/-! ### Seq: drive the base combinator until n items are consumed / produced -/

/-- `while n_read < n: tmp = base.serialize(env, d, n_read); if tmp is None: return None; n_read += ofs; ret.append(text)`
    then `assert n_read == n; return "".join(ret)`; state = (n_read, text joined so far) -/
inductive SeqSer (b : Codec V) (n : ℕ) (d : List V) : ℕ → List Char → Option (List Char) → Prop
  | done {nr : ℕ} {acc : List Char} : ¬ nr < n → nr = n → SeqSer b n d nr acc (some acc)
  | fail {nr : ℕ} {acc : List Char} : nr < n → b.ser d nr none → SeqSer b n d nr acc none
  | step {nr : ℕ} {acc : List Char} {ofs : ℕ} {s : List Char} {r : Option (List Char)} :
      nr < n → b.ser d nr (some (ofs, s)) → SeqSer b n d (nr + ofs) (acc ++ s) r → SeqSer b n d nr acc r

/-- `while len(ret) < n: tmp = base.deserialize(env, text, idx + n_read); if tmp is None: return None; n_read += ofs;
    ret += items` then `return n_read, ret[:n]`; state = (n_read, ret) -/
inductive SeqDes (b : Codec V) (n : ℕ) (text : List Char) (idx : ℕ) : ℕ → List V → Option (ℕ × List V) → Prop
  | done {nr : ℕ} {ret : List V} : ¬ ret.length < n → SeqDes b n text idx nr ret (some (nr, ret.take n))
  | fail {nr : ℕ} {ret : List V} : ret.length < n → b.des text (idx + nr) none → SeqDes b n text idx nr ret none
  | step {nr : ℕ} {ret : List V} {ofs : ℕ} {d : List V} {r : Option (ℕ × List V)} :
      ret.length < n → b.des text (idx + nr) (some (ofs, d)) → SeqDes b n text idx (nr + ofs) (ret ++ d) r →
      SeqDes b n text idx nr ret r

theorem seq_core (b : Codec V) (D : V → Prop) (n : ℕ) (d : List V) (hb : RTp b D (fun _ => True)) (hd : ∀ x ∈ d, D x)
    (hdn : d.length = n) :
    ∀ (nr : ℕ) (acc : List Char) (r : Option (List Char)), SeqSer b n d nr acc r → ∀ s, r = some s → nr ≤ n →
      ∃ tail, s = acc ++ tail ∧ ∀ pre post,
        SeqDes b n (pre ++ s ++ post) pre.length acc.length (d.take nr) (some (s.length, d)) ∧
        ∀ r', SeqDes b n (pre ++ s ++ post) pre.length acc.length (d.take nr) r' → r' = some (s.length, d) := by
  intro nr acc r h
  induction h with
  | @done nr acc h1 h2 =>
    intro s hs hle
    have hsa : s = acc := (Option.some.inj hs).symm
    subst hsa
    refine ⟨[], by simp, fun pre post => ?_⟩
    have htk : d.take nr = d := by rw [h2, ← hdn]; simp
    have hnot : ¬ (d.take nr).length < n := by rw [htk, hdn]; omega
    have htt : (d.take nr).take n = d := by rw [htk, ← hdn]; simp
    refine ⟨?_, ?_⟩
    · have := @SeqDes.done V b n (pre ++ s ++ post) pre.length s.length (d.take nr) hnot
      rw [htt] at this; exact this
    · intro r' hr'
      cases hr' with
      | done _ => rw [htt]
      | fail h3 _ => exact absurd h3 hnot
      | step h3 _ _ => exact absurd h3 hnot
  | @fail nr acc h1 h2 => intro s hs; cases hs
  | @step nr acc ofs sx r h1 h2 h3 ih =>
    intro s hs hle
    obtain ⟨hbound, hrt⟩ := hb d nr ofs sx hd h2
    rw [hdn] at hbound
    have hlen : (d.take nr).length = nr := by simp [List.length_take, hdn, hle]
    have hlt : (d.take nr).length < n := by rw [hlen]; exact h1
    have htake : d.take nr ++ (d.drop nr).take ofs = d.take (nr + ofs) := (List.take_add).symm
    have hlen2 : acc.length + sx.length = (acc ++ sx).length := by simp
    by_cases hend : nr + ofs = n
    · -- the last chunk: the loop of the encoder stops here, the decoder may have read padding
      have hs2 : s = acc ++ sx := by
        rw [hend] at h3
        cases h3 with
        | done _ _ => exact (Option.some.inj hs).symm
        | fail h4 _ => omega
        | step h4 _ _ => omega
      refine ⟨sx, hs2, fun pre post => ?_⟩
      have htext : pre ++ s ++ post = (pre ++ acc) ++ sx ++ post := by rw [hs2]; simp
      obtain ⟨items, ⟨pad, hitems, _⟩, hb1, hb2⟩ := hrt (pre ++ acc) post trivial
      rw [← htext, List.length_append] at hb1 hb2
      have hfull : d.take nr ++ items = d ++ pad := by
        rw [hitems, ← List.append_assoc, htake, hend, ← hdn]; simp
      have hnot : ¬ (d.take nr ++ items).length < n := by rw [hfull]; simp [hdn]
      have htt : (d.take nr ++ items).take n = d := by rw [hfull, ← hdn]; simp
      have hsl : acc.length + sx.length = s.length := by rw [hs2]; simp
      have hdone := @SeqDes.done V b n (pre ++ s ++ post) pre.length (acc.length + sx.length) (d.take nr ++ items) hnot
      rw [htt] at hdone
      have hdone' : SeqDes b n (pre ++ s ++ post) pre.length (acc.length + sx.length) (d.take nr ++ items)
          (some (s.length, d)) := by rw [← hsl]; exact hdone
      refine ⟨SeqDes.step hlt hb1 hdone', ?_⟩
      intro r' hr'
      cases hr' with
      | done h5 => exact absurd hlt h5
      | fail _ h5 => exact absurd (hb2 _ h5) (by simp)
      | @step _ _ ofs' d' _ _ h5 h6 =>
        have := Option.some.inj (hb2 _ h5)
        have h7 : ofs' = sx.length := congrArg Prod.fst this
        have h8 : d' = items := congrArg Prod.snd this
        rw [h7, h8] at h6
        cases h6 with
        | done _ => rw [htt, hsl]
        | fail h9 _ => exact absurd h9 hnot
        | step h9 _ _ => exact absurd h9 hnot
    · have hlt2 : nr + ofs < n := by omega
      obtain ⟨tail', hst, hdes⟩ := ih s hs (by omega)
      refine ⟨sx ++ tail', by rw [hst]; simp, fun pre post => ?_⟩
      obtain ⟨hd1, hd2⟩ := hdes pre post
      have htext : pre ++ s ++ post = (pre ++ acc) ++ sx ++ (tail' ++ post) := by rw [hst]; simp
      obtain ⟨items, ⟨pad, hitems, hpad⟩, hb1, hb2⟩ := hrt (pre ++ acc) (tail' ++ post) trivial
      have hpad0 : pad = [] := by
        by_contra hne
        have := hpad hne
        omega
      rw [hpad0, List.append_nil] at hitems
      subst hitems
      rw [← htext, List.length_append] at hb1 hb2
      refine ⟨?_, ?_⟩
      · refine SeqDes.step hlt hb1 ?_
        rw [htake, hlen2]; exact hd1
      · intro r' hr'
        cases hr' with
        | done h5 => exact absurd hlt h5
        | fail _ h5 => exact absurd (hb2 _ h5) (by simp)
        | @step _ _ ofs' d' _ _ h5 h6 =>
          have := Option.some.inj (hb2 _ h5)
          have h7 : ofs' = sx.length := congrArg Prod.fst this
          have h8 : d' = (d.drop nr).take ofs := congrArg Prod.snd this
          rw [h7, h8, htake, hlen2] at h6
          exact hd2 _ h6

/-- the Seq combinator over a base; `lst` is the constructor of list values -/
def seq (lst : List V → V) (b : Codec V) (n : ℕ) : Codec V :=
  ⟨fun data p r =>
      (p = data.length ∧ r = none) ∨
      ∃ x, data[p]? = some x ∧
        (((∀ d, x ≠ lst d) ∧ r = none) ∨
         ∃ d, x = lst d ∧ ((SeqSer b n d 0 [] none ∧ r = none) ∨ ∃ s, SeqSer b n d 0 [] (some s) ∧ r = some (1, s))),
   fun text q r =>
      (SeqDes b n text q 0 [] none ∧ r = none) ∨
      ∃ nr ret, SeqDes b n text q 0 [] (some (nr, ret)) ∧ r = some (nr, [lst ret])⟩

theorem drop_take_one (data : List V) (p : ℕ) (x : V) (h : data[p]? = some x) : (data.drop p).take 1 = [x] := by
  have hp : p < data.length := by
    by_contra hh
    rw [List.getElem?_eq_none (by omega)] at h
    cases h
  rw [List.getElem?_eq_getElem hp] at h
  have hx : data[p] = x := Option.some.inj h
  rw [List.drop_eq_getElem_cons hp, hx]
  simp

theorem seq_RT (lst : List V → V) (hinj : Function.Injective lst) (b : Codec V) (D : V → Prop) (n : ℕ)
    (hb : RTp b D (fun _ => True)) (F : List Char → Prop) :
    RT (seq lst b n) (fun x => ∃ d, x = lst d ∧ d.length = n ∧ ∀ y ∈ d, D y) F := by
  apply RT_fold
  intro data p k s hd hs
  simp only [seq] at hs
  rcases hs with ⟨_, h⟩ | ⟨x, hx, h⟩
  · cases h
  · rcases h with ⟨_, h⟩ | ⟨d, hxd, h⟩
    · cases h
    · rcases h with ⟨_, h⟩ | ⟨s', hser, h⟩
      · cases h
      · have hks : k = 1 ∧ s = s' := by
          have := Option.some.inj h
          exact ⟨congrArg Prod.fst this, congrArg Prod.snd this⟩
        obtain ⟨hk, hss⟩ := hks
        subst hk; subst hss
        have hp : p < data.length := by
          by_contra hh
          rw [List.getElem?_eq_none (by omega)] at hx
          cases hx
        have hxmem : x ∈ data := List.mem_of_getElem? hx
        obtain ⟨d', hxd', hlen, hdom⟩ := hd x hxmem
        have hdd : d = d' := hinj (hxd.symm.trans hxd')
        subst hdd
        refine ⟨by omega, fun pre post _ => ?_⟩
        obtain ⟨tail, _, hcore⟩ := seq_core b D n d hb hdom hlen 0 [] (some s) hser s rfl (Nat.zero_le _)
        obtain ⟨h1, h2⟩ := hcore pre post
        simp only [List.take_zero, List.length_nil] at h1 h2
        rw [drop_take_one data p x hx, hxd]
        refine ⟨?_, ?_⟩
        · simp only [seq]
          exact Or.inr ⟨s.length, d, h1, rfl⟩
        · intro r hr
          simp only [seq] at hr
          rcases hr with ⟨h3, _⟩ | ⟨nr, ret, h3, h4⟩
          · exact absurd (h2 _ h3) (by simp)
          · have := Option.some.inj (h2 _ h3)
            have h5 : nr = s.length := congrArg Prod.fst this
            have h6 : ret = d := congrArg Prod.snd this
            rw [h4, h5, h6]

/-! ### Tupl: one component per element, each component a list of items handed to its element at index 0 -/

/-- what Tupl needs from an element for component lists satisfying `P`: the element consumes the whole component and
    reads it back -/
def Elem (e : Codec V) (P : List V → Prop) (F : List Char → Prop) : Prop :=
  ∀ items k s, P items → e.ser items 0 (some (k, s)) → ∀ pre post, F post →
    e.des (pre ++ s ++ post) pre.length (some (s.length, items)) ∧
    ∀ r, e.des (pre ++ s ++ post) pre.length r → r = some (s.length, items)

theorem elem_of_RT {e : Codec V} {D : V → Prop} {F : List Char → Prop} {P : List V → Prop} (h : RT e D F)
    (hP : ∀ items, P items → (∀ x ∈ items, D x) ∧ ∀ k s, e.ser items 0 (some (k, s)) → k = items.length) : Elem e P F := by
  intro items k s hp hs pre post hF
  obtain ⟨hd, hk⟩ := hP items hp
  obtain ⟨_, hrt⟩ := RT_unfold h items 0 k s hd hs
  have := hk k s hs
  subst this
  simpa using hrt pre post hF

/-- `for i: res = elements[i].serialize(env, d[i], 0); if res is None: return None; parts.append(res[1])`, then the
    joined text; the components are given by their item lists -/
inductive TuplSer : List (Codec V) → List (List V) → Option (List Char) → Prop
  | nil : TuplSer [] [] (some [])
  | fail {e : Codec V} {es : List (Codec V)} {items : List V} {comps : List (List V)} :
      e.ser items 0 none → TuplSer (e :: es) (items :: comps) none
  | step {e : Codec V} {es : List (Codec V)} {items : List V} {comps : List (List V)} {k : ℕ} {s : List Char}
      {r : Option (List Char)} :
      e.ser items 0 (some (k, s)) → TuplSer es comps r → TuplSer (e :: es) (items :: comps) (r.map (s ++ ·))

/-- `for element: res = element.deserialize(env, text, idx + ofs); if res is None: return None; ofs += n_read;
    parts.append(val)`; state = (ofs, parts) -/
inductive TuplDes (text : List Char) (idx : ℕ) : List (Codec V) → ℕ → List (List V) → Option (ℕ × List (List V)) → Prop
  | nil {ofs : ℕ} {parts : List (List V)} : TuplDes text idx [] ofs parts (some (ofs, parts))
  | fail {e : Codec V} {es : List (Codec V)} {ofs : ℕ} {parts : List (List V)} :
      e.des text (idx + ofs) none → TuplDes text idx (e :: es) ofs parts none
  | step {e : Codec V} {es : List (Codec V)} {ofs : ℕ} {parts : List (List V)} {k : ℕ} {val : List V}
      {r : Option (ℕ × List (List V))} :
      e.des text (idx + ofs) (some (k, val)) → TuplDes text idx es (ofs + k) (parts ++ [val]) r →
      TuplDes text idx (e :: es) ofs parts r

/-- the Tupl combinator; `tup` / `lst` are the constructors of tuple and list values -/
def tupl (lst tup : List V → V) (es : List (Codec V)) : Codec V :=
  ⟨fun data p r =>
      (p = data.length ∧ r = none) ∨
      ∃ x, data[p]? = some x ∧
        (((∀ c, x ≠ tup c) ∧ r = none) ∨
         ∃ comps, x = tup (comps.map lst) ∧ ((comps.length ≠ es.length ∧ r = none) ∨
           (comps.length = es.length ∧ ∃ r0, TuplSer es comps r0 ∧ r = r0.map (fun s => (1, s))))),
   fun text q r => ∃ r0, TuplDes text q es 0 [] r0 ∧ r = r0.map (fun op => (op.1, [tup (op.2.map lst)]))⟩

/-- hypotheses on the elements: every element reads its component back, whatever follows — only the last element
    may restrict what follows it (DecInt must not be followed by a digit) -/
def Elems (F : List Char → Prop) : List (Codec V × (List V → Prop)) → Prop
  | [] => True
  | (eP :: rest) => Elem eP.1 eP.2 (fun post => rest = [] → F post) ∧ Elems F rest

theorem tupl_core (F : List Char → Prop) :
    ∀ (specs : List (Codec V × (List V → Prop))), Elems F specs →
      ∀ (comps : List (List V)) (r : Option (List Char)), List.Forall₂ (fun eP items => eP.2 items) specs comps →
        TuplSer (specs.map Prod.fst) comps r → ∀ s, r = some s →
        ∀ pre0 pre post parts, F post →
          TuplDes (pre0 ++ pre ++ s ++ post) pre0.length (specs.map Prod.fst) pre.length parts
            (some (pre.length + s.length, parts ++ comps)) ∧
          ∀ r', TuplDes (pre0 ++ pre ++ s ++ post) pre0.length (specs.map Prod.fst) pre.length parts r' →
            r' = some (pre.length + s.length, parts ++ comps) := by
  intro specs
  induction specs with
  | nil =>
    intro _ comps r hdom hser s hs pre0 pre post parts _
    cases hdom
    simp only [List.map_nil] at hser ⊢
    cases hser
    have : s = [] := (Option.some.inj hs).symm
    subst this
    refine ⟨by simpa using TuplDes.nil, ?_⟩
    intro r' hr'
    cases hr'
    simp
  | cons eP rest ih =>
    intro hE comps r hdom hser s hs pre0 pre post parts hF
    obtain ⟨hE1, hE2⟩ := hE
    cases hdom with
    | @cons _ items _ compsR hP hrestdom =>
      simp only [List.map_cons] at hser ⊢
      cases hser with
      | fail _ => cases hs
      | @step _ _ _ _ k sx r0 h1 h2 =>
        cases r0 with
        | none => cases hs
        | some t =>
          have hst : s = sx ++ t := (Option.some.inj hs).symm
          obtain ⟨ih1, ih2⟩ := ih hE2 compsR (some t) hrestdom h2 t rfl pre0 (pre ++ sx) post (parts ++ [items]) hF
          have hfol : (fun post' => rest = [] → F post') (t ++ post) := by
            intro hr
            subst hr
            cases hrestdom
            simp only [List.map_nil] at h2
            cases h2
            simpa using hF
          obtain ⟨hd1, hd2⟩ := hE1 items k sx hP h1 (pre0 ++ pre) (t ++ post) hfol
          have htext : pre0 ++ pre ++ s ++ post = (pre0 ++ pre) ++ sx ++ (t ++ post) := by rw [hst]; simp
          have htext2 : pre0 ++ (pre ++ sx) ++ t ++ post = pre0 ++ pre ++ s ++ post := by rw [hst]; simp
          rw [← htext, List.length_append] at hd1 hd2
          rw [htext2] at ih1 ih2
          have hl1 : (pre ++ sx).length = pre.length + sx.length := by simp
          have hl2 : pre.length + sx.length + t.length = pre.length + s.length := by rw [hst]; simp; omega
          have hp2 : parts ++ [items] ++ compsR = parts ++ items :: compsR := by simp
          rw [hl1, hl2, hp2] at ih1 ih2
          refine ⟨TuplDes.step hd1 ih1, ?_⟩
          intro r' hr'
          cases hr' with
          | fail h3 => exact absurd (hd2 _ h3) (by simp)
          | @step _ _ _ _ k' val' _ h3 h4 =>
            have := Option.some.inj (hd2 _ h3)
            have h5 : k' = sx.length := congrArg Prod.fst this
            have h6 : val' = items := congrArg Prod.snd this
            rw [h5, h6] at h4
            exact ih2 _ h4

theorem tupl_RT (lst tup : List V → V) (hlst : Function.Injective lst) (htup : Function.Injective tup)
    (F : List Char → Prop) (specs : List (Codec V × (List V → Prop))) (hE : Elems F specs) :
    RT (tupl lst tup (specs.map Prod.fst))
      (fun x => ∃ comps, x = tup (comps.map lst) ∧ List.Forall₂ (fun eP items => eP.2 items) specs comps) F := by
  apply RT_fold
  intro data p k s hd hs
  simp only [tupl] at hs
  rcases hs with ⟨_, h⟩ | ⟨x, hx, h⟩
  · cases h
  · rcases h with ⟨_, h⟩ | ⟨comps, hxc, h⟩
    · cases h
    · rcases h with ⟨_, h⟩ | ⟨_, r0, hser, h⟩
      · cases h
      · cases r0 with
        | none => cases h
        | some t =>
          have hks : k = 1 ∧ s = t := by
            have := Option.some.inj h
            exact ⟨congrArg Prod.fst this, congrArg Prod.snd this⟩
          obtain ⟨hk, hss⟩ := hks
          subst hk; subst hss
          have hp : p < data.length := by
            by_contra hh
            rw [List.getElem?_eq_none (by omega)] at hx
            cases hx
          obtain ⟨comps', hxc', hdom⟩ := hd x (List.mem_of_getElem? hx)
          have hcc : comps = comps' := by
            have h1 : comps.map lst = comps'.map lst := htup (hxc.symm.trans hxc')
            exact List.map_injective_iff.mpr hlst h1
          subst hcc
          refine ⟨by omega, fun pre post hF => ?_⟩
          obtain ⟨h1, h2⟩ := tupl_core F specs hE comps (some s) hdom hser s rfl pre [] post [] hF
          simp only [List.append_nil, List.length_nil, Nat.zero_add, List.nil_append] at h1 h2
          rw [drop_take_one data p x hx, hxc]
          refine ⟨?_, ?_⟩
          · simp only [tupl]
            exact ⟨_, h1, rfl⟩
          · intro r hr
            simp only [tupl] at hr
            obtain ⟨r0, h3, h4⟩ := hr
            rw [h4, h2 _ h3]
            rfl

/-! ### Grid: rows flattened, driven through Seq(base, height * width), rows rebuilt by index -/

/-- `[[d2[i * width + j] for j in range(width)] for i in range(height)]` -/
def rowsOf : List V → ℕ → ℕ → List (List V)
  | _, 0, _ => []
  | flat, h + 1, w => flat.take w :: rowsOf (flat.drop w) h w

theorem rowsOf_length (w : ℕ) : ∀ (h : ℕ) (flat : List V), (rowsOf flat h w).length = h := by
  intro h
  induction h with
  | zero => intro flat; simp [rowsOf]
  | succ h ih => intro flat; simp [rowsOf, ih]

/-- row i of `rowsOf` is the slice `flat[i*w : i*w + w]` -/
theorem rowsOf_get (w : ℕ) : ∀ (h : ℕ) (flat : List V) (i : ℕ), i < h →
    (rowsOf flat h w)[i]? = some ((flat.drop (i * w)).take w) := by
  intro h
  induction h with
  | zero => intro flat i hi; omega
  | succ h ih =>
    intro flat i hi
    cases i with
    | zero => simp [rowsOf]
    | succ i =>
      simp only [rowsOf, List.getElem?_cons_succ]
      rw [ih (flat.drop w) i (by omega), List.drop_drop]
      have : w + i * w = (i + 1) * w := by ring
      rw [this]

/-- entry j of that slice is `flat[i*w + j]` -/
theorem slice_get (flat : List V) (i w j : ℕ) (hj : j < w) : ((flat.drop (i * w)).take w)[j]? = flat[i * w + j]? := by
  rw [List.getElem?_take_of_lt hj, List.getElem?_drop]

theorem rowsOf_flatten (w : ℕ) : ∀ (rs : List (List V)), (∀ r ∈ rs, r.length = w) → rowsOf rs.flatten rs.length w = rs := by
  intro rs
  induction rs with
  | nil => intro _; simp [rowsOf]
  | cons r rs ih =>
    intro hlen
    have hr : r.length = w := hlen r List.mem_cons_self
    simp only [List.flatten_cons, List.length_cons, rowsOf]
    rw [List.take_left' hr, List.drop_left' hr, ih (fun r' h => hlen r' (List.mem_cons_of_mem _ h))]

/-- the Grid combinator with height h and width w (its own, or those of the environment) -/
def grid (lst : List V → V) (b : Codec V) (h w : ℕ) : Codec V :=
  ⟨fun data p r =>
      (p = data.length ∧ r = none) ∨
      ∃ x, data[p]? = some x ∧
        (((∀ rows, x ≠ lst rows) ∧ r = none) ∨
         ∃ rs : List (List V), x = lst (rs.map lst) ∧ h ≤ rs.length ∧ (seq lst b (h * w)).ser [lst (rs.take h).flatten] p r),
   fun text q r =>
      ((seq lst b (h * w)).des text q none ∧ r = none) ∨
      ∃ nr flat, (seq lst b (h * w)).des text q (some (nr, [lst flat])) ∧ flat.length = h * w ∧
        r = some (nr, [lst ((rowsOf flat h w).map lst)])⟩

theorem flatten_length (w : ℕ) : ∀ (rs : List (List V)), (∀ r ∈ rs, r.length = w) → rs.flatten.length = rs.length * w := by
  intro rs
  induction rs with
  | nil => intro _; simp
  | cons r rs ih =>
    intro hlen
    simp only [List.flatten_cons, List.length_append, List.length_cons]
    rw [ih (fun r' h => hlen r' (List.mem_cons_of_mem _ h)), hlen r List.mem_cons_self]
    ring

theorem grid_RT (lst : List V → V) (hinj : Function.Injective lst) (b : Codec V) (D : V → Prop) (h w : ℕ)
    (hb : RTp b D (fun _ => True)) (F : List Char → Prop) :
    RT (grid lst b h w)
      (fun x => ∃ rs : List (List V), x = lst (rs.map lst) ∧ rs.length = h ∧ ∀ r ∈ rs, r.length = w ∧ ∀ y ∈ r, D y) F := by
  apply RT_fold
  intro data p k s hd hs
  simp only [grid] at hs
  rcases hs with ⟨_, hh⟩ | ⟨x, hx, hh⟩
  · cases hh
  · rcases hh with ⟨_, hh⟩ | ⟨rs, hxr, hle, hser⟩
    · cases hh
    · have hp : p < data.length := by
        by_contra hh
        rw [List.getElem?_eq_none (by omega)] at hx
        cases hx
      obtain ⟨rs', hxr', hlen, hrows⟩ := hd x (List.mem_of_getElem? hx)
      have hrr : rs = rs' := by
        have h1 : rs.map lst = rs'.map lst := hinj (hxr.symm.trans hxr')
        exact List.map_injective_iff.mpr hinj h1
      subst hrr
      have htake : rs.take h = rs := by rw [← hlen]; simp
      rw [htake] at hser
      have hw : ∀ r ∈ rs, r.length = w := fun r hr => (hrows r hr).1
      have hflat : rs.flatten.length = h * w := by rw [flatten_length w rs hw, hlen]
      -- the inner Seq call is made on the one-element list [flat] at the same index: it can only succeed at index 0
      have hdom' : ∀ x' ∈ [lst rs.flatten], ∃ d, x' = lst d ∧ d.length = h * w ∧ ∀ y ∈ d, D y := by
        intro x' hx'
        rw [List.mem_singleton] at hx'
        refine ⟨rs.flatten, hx', hflat, ?_⟩
        intro y hy
        obtain ⟨r, hr, hyr⟩ := List.mem_flatten.mp hy
        exact (hrows r hr).2 y hyr
      obtain ⟨hb1, hrt⟩ := RT_unfold (seq_RT lst hinj b D (h * w) hb F) [lst rs.flatten] p k s hdom' hser
      simp only [List.length_singleton] at hb1
      have hp0 : p = 0 := by
        simp only [seq] at hser
        rcases hser with ⟨_, h1⟩ | ⟨x', hx', h1⟩
        · cases h1
        · by_contra hne
          rw [List.getElem?_eq_none (by simp; omega)] at hx'
          cases hx'
      have hk1 : k = 1 := by
        simp only [seq] at hser
        rcases hser with ⟨_, h1⟩ | ⟨x', _, h1⟩
        · cases h1
        · rcases h1 with ⟨_, h1⟩ | ⟨d, _, h1⟩
          · cases h1
          · rcases h1 with ⟨_, h1⟩ | ⟨s', _, h1⟩
            · cases h1
            · exact congrArg Prod.fst (Option.some.inj h1)
      refine ⟨by omega, fun pre post hF => ?_⟩
      obtain ⟨h1, h2⟩ := hrt pre post hF
      rw [hp0, hk1] at h1 h2
      simp only [List.drop_zero, List.take_succ_cons, List.take_zero] at h1 h2
      have hdt := drop_take_one data p x hx
      rw [← hk1] at hdt
      rw [hdt, hxr]
      have hrows' : rowsOf rs.flatten h w = rs := by rw [← hlen]; exact rowsOf_flatten w rs hw
      refine ⟨?_, ?_⟩
      · simp only [grid]
        refine Or.inr ⟨s.length, rs.flatten, h1, hflat, ?_⟩
        rw [hrows']
      · intro r hr
        simp only [grid] at hr
        rcases hr with ⟨h3, _⟩ | ⟨nr, flat, h3, _, h4⟩
        · exact absurd (h2 _ h3) (by simp)
        · have := Option.some.inj (h2 _ h3)
          have h5 : nr = s.length := congrArg Prod.fst this
          have h6 : flat = rs.flatten := by
            have h7 : [lst flat] = [lst rs.flatten] := congrArg Prod.snd this
            exact hinj (List.head_eq_of_cons_eq h7)
          rw [h4, h5, h6, hrows']

/-! ### compositions used by the puzzle codecs, and the top level -/

/-- `Grid(OneOf(leaf, ...))` (nurikabe, nurimisaki, sudoku, slitherlink, yajilin bodies; `Grid(leaf)` is the case of
    one alternative): leaves that round-trip up to tail padding and have pairwise disjoint leading characters -/
theorem grid_oneOf_RT (lst : List V → V) (hinj : Function.Injective lst) (D : V → Prop) (h w : ℕ)
    (cs : List (Codec V × (Char → Prop)))
    (hall : ∀ cl ∈ cs, RTp cl.1 D (fun _ => True) ∧ Lead cl.1 D cl.2)
    (hpw : cs.Pairwise (fun a b => ∀ ch, ¬ (a.2 ch ∧ b.2 ch))) (F : List Char → Prop) :
    RT (grid lst (oneOf (cs.map Prod.fst)) h w)
      (fun x => ∃ rs : List (List V), x = lst (rs.map lst) ∧ rs.length = h ∧ ∀ r ∈ rs, r.length = w ∧ ∀ y ∈ r, D y) F :=
  grid_RT lst hinj _ D h w (oneOf_RTg padded D (fun _ => True) cs hall hpw) F

/-- `serialize_problem(c, x)` returns the text of `c.serialize(env, [x], 0)`; `deserialize_problem(c, s)` calls
    `c.deserialize(env, s, 0)` and returns the single item: for a combinator with an exact round trip that consumes the
    problem, the decoder reads the whole text and returns `[x]` (and nothing else) -/
theorem problem_roundtrip (c : Codec V) (D : V → Prop) (h : RT c D (fun _ => True)) (x : V) (hx : D x) (s : List Char)
    (hs : c.ser [x] 0 (some (1, s))) :
    c.des s 0 (some (s.length, [x])) ∧ ∀ r, c.des s 0 r → r = some (s.length, [x]) := by
  have hd : ∀ y ∈ [x], D y := by
    intro y hy
    rw [List.mem_singleton] at hy
    rw [hy]; exact hx
  obtain ⟨_, hrt⟩ := RT_unfold h [x] 0 1 s hd hs
  simpa using hrt [] [] trivial

end C15

#print axioms C15.oneOf_RTg
#print axioms C15.oneOf_Lead
#print axioms C15.seq_RT
#print axioms C15.tupl_RT
#print axioms C15.grid_RT
#print axioms C15.rowsOf_get
#print axioms C15.grid_oneOf_RT
#print axioms C15.problem_roundtrip
