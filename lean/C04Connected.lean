/-
C04 — lemma over the emission contract of `_active_vertices_connected` (rank/root encoding, acyclic = False).

Schema posted by the function (contracts/c04_emission.py): rank variables rank(v) in [0, n-1], flags is_root(v),
  * for every vertex i:  x_i  ->  ( exists a neighbour j of i with rank(j) < rank(i) and x_j )  or  is_root(i)
  * at most one vertex is a root.
`Enc` is that schema with rank and is_root existentially quantified.  Theorem: for a symmetric adjacency relation it
is satisfiable exactly when the active vertices induce a connected subgraph (no active vertex counts as connected):
any two active vertices are joined by a walk through active vertices.
-/
import Mathlib.Data.Fintype.Card
import Mathlib.Logic.Relation
import Mathlib.Tactic

open Finset

namespace C04

variable {n : ℕ}

/-- one step between adjacent active vertices -/
def Step (adj : Fin n → Fin n → Prop) (act : Fin n → Prop) (x y : Fin n) : Prop := adj x y ∧ act x ∧ act y

/-- joined by a walk through active vertices -/
def Reach (adj : Fin n → Fin n → Prop) (act : Fin n → Prop) : Fin n → Fin n → Prop :=
  Relation.ReflTransGen (Step adj act)

def Connected (adj : Fin n → Fin n → Prop) (act : Fin n → Prop) : Prop :=
  ∀ a b, act a → act b → Reach adj act a b

/-- the constraint schema, auxiliary variables existential -/
def Enc (adj : Fin n → Fin n → Prop) (act : Fin n → Prop) : Prop :=
  ∃ (rank : Fin n → ℕ) (isRoot : Fin n → Prop), (∀ v, rank v < n) ∧
    (∀ i, act i → (∃ j, adj i j ∧ rank j < rank i ∧ act j) ∨ isRoot i) ∧
    (∀ r r', isRoot r → isRoot r' → r = r')

theorem reach_symm (adj : Fin n → Fin n → Prop) (act : Fin n → Prop) (hs : ∀ x y, adj x y → adj y x)
    {a b : Fin n} (h : Reach adj act a b) : Reach adj act b a := by
  induction h with
  | refl => exact Relation.ReflTransGen.refl
  | tail _ hbc ih =>
    exact Relation.ReflTransGen.head ⟨hs _ _ hbc.1, hbc.2.2, hbc.2.1⟩ ih

/-- soundness: following smaller ranks leads every active vertex to the unique root -/
theorem enc_connected (adj : Fin n → Fin n → Prop) (act : Fin n → Prop) (hs : ∀ x y, adj x y → adj y x)
    (h : Enc adj act) : Connected adj act := by
  obtain ⟨rank, isRoot, _, hstep, hone⟩ := h
  have hroot : ∀ k i, rank i = k → act i → ∃ r, isRoot r ∧ Reach adj act i r := by
    intro k
    induction k using Nat.strong_induction_on with
    | _ k ih =>
      intro i hk hi
      rcases hstep i hi with ⟨j, hadj, hlt, hj⟩ | hr
      · obtain ⟨r, hr, hjr⟩ := ih (rank j) (by omega) j rfl hj
        exact ⟨r, hr, Relation.ReflTransGen.head ⟨hadj, hi, hj⟩ hjr⟩
      · exact ⟨i, hr, Relation.ReflTransGen.refl⟩
  intro a b ha hb
  obtain ⟨ra, hra, hara⟩ := hroot _ a rfl ha
  obtain ⟨rb, hrb, hbrb⟩ := hroot _ b rfl hb
  have : ra = rb := hone _ _ hra hrb
  subst this
  exact Relation.ReflTransGen.trans hara (reach_symm adj act hs hbrb)

/-- a walk that starts inside `X` and ends outside crosses its boundary -/
theorem boundary (adj : Fin n → Fin n → Prop) (act : Fin n → Prop) (X : Finset (Fin n)) {a b : Fin n}
    (h : Reach adj act a b) (ha : a ∈ X) (hb : b ∉ X) : ∃ x y, x ∈ X ∧ y ∉ X ∧ Step adj act x y := by
  induction h with
  | refl => exact absurd ha hb
  | tail hac hcb ih =>
    rename_i c d
    by_cases hc : c ∈ X
    · exact ⟨c, d, hc, hb, hcb⟩
    · exact ih hc

/-- a partial ranking: `X` contains the root, its ranks are below `X.card`, and every other member has a neighbour in
    `X` with a smaller rank -/
def Good (adj : Fin n → Fin n → Prop) (act : Fin n → Prop) (r : Fin n) (X : Finset (Fin n)) (rank : Fin n → ℕ) : Prop :=
  r ∈ X ∧ (∀ x ∈ X, act x) ∧ (∀ x ∈ X, rank x < X.card) ∧
    ∀ x ∈ X, x ≠ r → ∃ y ∈ X, adj x y ∧ rank y < rank x

/-- completeness: grow the ranked set along boundary edges until it contains every active vertex -/
theorem grow (adj : Fin n → Fin n → Prop) (act : Fin n → Prop) [DecidablePred act] (hs : ∀ x y, adj x y → adj y x)
    (hc : Connected adj act) (r : Fin n) (hr : act r) :
    ∀ (k : ℕ) (X : Finset (Fin n)) (rank : Fin n → ℕ), (univ.filter act).card - X.card = k →
      Good adj act r X rank → ∃ X' rank', Good adj act r X' rank' ∧ ∀ v, act v → v ∈ X' := by
  intro k
  induction k using Nat.strong_induction_on with
  | _ k ih =>
    intro X rank hk hG
    by_cases hall : ∀ v, act v → v ∈ X
    · exact ⟨X, rank, hG, hall⟩
    · push Not at hall
      obtain ⟨b, hb, hbX⟩ := hall
      obtain ⟨x, y, hx, hy, hxy⟩ := boundary adj act X (hc r b hr hb) hG.1 hbX
      have hXsub : X ⊆ univ.filter act := fun v hv => mem_filter.mpr ⟨mem_univ v, hG.2.1 v hv⟩
      have hyA : y ∈ univ.filter act := mem_filter.mpr ⟨mem_univ y, hxy.2.2⟩
      have hlt : X.card < (univ.filter act).card :=
        card_lt_card ⟨hXsub, fun hh => hy (hh hyA)⟩
      let rank' : Fin n → ℕ := fun v => if v = y then X.card else rank v
      have hcard : (insert y X).card = X.card + 1 := card_insert_of_notMem hy
      have hG' : Good adj act r (insert y X) rank' := by
        refine ⟨mem_insert_of_mem hG.1, ?_, ?_, ?_⟩
        · intro v hv
          rcases mem_insert.mp hv with h | h
          · rw [h]; exact hxy.2.2
          · exact hG.2.1 v h
        · intro v hv
          rcases mem_insert.mp hv with h | h
          · simp [rank', h, hcard]
          · have hvy : v ≠ y := fun hh => hy (hh ▸ h)
            have := hG.2.2.1 v h
            simp only [rank', hvy, if_false, hcard]
            omega
        · intro v hv hvr
          rcases mem_insert.mp hv with h | h
          · -- the new vertex: its neighbour x in X has a smaller rank
            have hxy' : x ≠ y := fun hh => hy (hh ▸ hx)
            refine ⟨x, mem_insert_of_mem hx, ?_, ?_⟩
            · rw [h]; exact hs _ _ hxy.1
            · have := hG.2.2.1 x hx
              simp [rank', h, hxy']
              exact this
          · have hvy : v ≠ y := fun hh => hy (hh ▸ h)
            obtain ⟨w, hw, hadj, hlt'⟩ := hG.2.2.2 v h hvr
            have hwy : w ≠ y := fun hh => hy (hh ▸ hw)
            refine ⟨w, mem_insert_of_mem hw, hadj, ?_⟩
            simp only [rank', hwy, hvy, if_false]
            exact hlt'
      have hk' : (univ.filter act).card - (insert y X).card < k := by
        rw [hcard]; omega
      exact ih _ hk' (insert y X) rank' rfl hG'

theorem connected_enc (adj : Fin n → Fin n → Prop) (act : Fin n → Prop) [DecidablePred act]
    (hs : ∀ x y, adj x y → adj y x) (hc : Connected adj act) : Enc adj act := by
  by_cases hne : ∃ r, act r
  · obtain ⟨r, hr⟩ := hne
    have hG0 : Good adj act r {r} (fun _ => 0) := by
      refine ⟨mem_singleton_self r, ?_, ?_, ?_⟩
      · intro x hx; rw [mem_singleton.mp hx]; exact hr
      · intro x _; simp
      · intro x hx hxr; exact absurd (mem_singleton.mp hx) hxr
    obtain ⟨X, rank, hG, hall⟩ := grow adj act hs hc r hr _ {r} (fun _ => 0) rfl hG0
    have hXn : X.card ≤ n := by
      have := card_le_univ X
      simpa using this
    have hn : 0 < n := lt_of_le_of_lt (Nat.zero_le _) r.isLt
    refine ⟨fun v => if v ∈ X then rank v else 0, fun v => v = r, ?_, ?_, ?_⟩
    · intro v
      by_cases hv : v ∈ X
      · have := hG.2.2.1 v hv
        simp only [hv, if_true]
        omega
      · simp only [hv, if_false]; exact hn
    · intro i hi
      by_cases hir : i = r
      · exact Or.inr hir
      · left
        have hiX := hall i hi
        obtain ⟨y, hy, hadj, hlt⟩ := hG.2.2.2 i hiX hir
        refine ⟨y, hadj, ?_, hG.2.1 y hy⟩
        simp only [hy, hiX, if_true]
        exact hlt
    · intro a b ha hb; rw [ha, hb]
  · -- no active vertex: any values will do
    push Not at hne
    by_cases hn : 0 < n
    · exact ⟨fun _ => 0, fun _ => False, fun _ => hn, fun i hi => absurd hi (hne i), fun _ _ h => absurd h id⟩
    · exact ⟨fun _ => 0, fun _ => False, fun v => absurd v.isLt (by omega), fun i hi => absurd hi (hne i), fun _ _ h => absurd h id⟩

/-- the constraints posted by `_active_vertices_connected` (rank/root encoding) are satisfiable exactly when the active
    vertices induce a connected subgraph -/
theorem enc_iff_connected (adj : Fin n → Fin n → Prop) (act : Fin n → Prop) [DecidablePred act]
    (hs : ∀ x y, adj x y → adj y x) : Enc adj act ↔ Connected adj act :=
  ⟨enc_connected adj act hs, connected_enc adj act hs⟩

end C04

#print axioms C04.enc_iff_connected
