"""Reference implementation of the Sugar CSP text protocol used by cspuz's text back ends.

  * parser for the CSP description (S-expressions; `(bool b)`, `(int i lo hi)`, constraints, an optional
    `#key key ...` line as read by sugar_extension/CspuzSugarInterface.java::loadProblem),
  * evaluator of the Sugar constraint language subset cspuz emits (Sugar syntax: `-` unary/n-ary,
    `+`, `=`, `!=`, `<=`, `<`, `>=`, `>`, `!`, `&&`, `||`, `iff`, `xor`, `=>`, `if`, `alldifferent`,
    and the two csugar/cspuz_core graph operators),
  * a brute-force solver and the two reply formats exactly as CspuzSugarInterface.java::run() prints them.
Written from the Sugar documentation and the Java file, not from cspuz/backend/sugar_like.py.
"""
import itertools

from . import graphpred


class ParseError(Exception):
    pass


def tokenize(s):
    out, i = [], 0
    while i < len(s):
        c = s[i]
        if c in " \t\r\n":
            i += 1
        elif c in "()":
            out.append(c)
            i += 1
        else:
            j = i
            while j < len(s) and s[j] not in " \t\r\n()":
                j += 1
            out.append(s[i:j])
            i = j
    return out


def parse_sexprs(s):
    toks = tokenize(s)
    pos = 0

    def rd():
        nonlocal pos
        if pos >= len(toks):
            raise ParseError("unexpected end")
        t = toks[pos]
        pos += 1
        if t == "(":
            lst = []
            while True:
                if pos >= len(toks):
                    raise ParseError("missing )")
                if toks[pos] == ")":
                    pos += 1
                    return lst
                lst.append(rd())
        if t == ")":
            raise ParseError("unexpected )")
        return t

    out = []
    while pos < len(toks):
        out.append(rd())
    return out


class Problem:
    def __init__(self):
        self.decls = []        # ('bool', name) | ('int', name, lo, hi)   in order of appearance
        self.constraints = []  # s-expressions
        self.keys = None       # list of names or None


def parse(text):
    p = Problem()
    lines = []
    for line in text.split("\n"):
        if line.startswith("#"):
            body = line[1:]
            p.keys = [k for k in body.split(" ") if k != ""] if body.strip() != "" else []
        else:
            lines.append(line)
    for e in parse_sexprs("\n".join(lines)):
        if isinstance(e, list) and e and e[0] == "bool":
            if len(e) != 2:
                raise ParseError("bool declaration %r" % (e,))
            p.decls.append(("bool", e[1]))
        elif isinstance(e, list) and e and e[0] == "int":
            if len(e) != 4:
                raise ParseError("int declaration %r" % (e,))
            p.decls.append(("int", e[1], int(e[2]), int(e[3])))
        else:
            p.constraints.append(e)
    return p


def _is_int_atom(a):
    try:
        int(a)
        return True
    except ValueError:
        return False


def ev(e, asg):
    """value of a Sugar expression under {name: value}"""
    if isinstance(e, str):
        if e == "true":
            return True
        if e == "false":
            return False
        if e == "*":
            return None
        if _is_int_atom(e):
            return int(e)
        if e not in asg:
            raise ParseError("undeclared name %s" % e)
        return asg[e]
    if not e:
        raise ParseError("empty expression")
    op, args = e[0], e[1:]
    if op in ("graph-active-vertices-connected", "graph-division"):
        return _ev_graph(op, args, asg)
    xs = [ev(a, asg) for a in args]

    def I(i):
        v = xs[i]
        if isinstance(v, bool) or not isinstance(v, int):
            raise ParseError("%s: integer operand expected, got %r" % (op, v))
        return v

    def B(i):
        if not isinstance(xs[i], bool):
            raise ParseError("%s: boolean operand expected, got %r" % (op, xs[i]))
        return xs[i]

    n = len(xs)
    if op in ("-", "sub", "neg"):
        if n == 1:
            return -I(0)
        r = I(0)
        for i in range(1, n):
            r -= I(i)
        return r
    if op in ("+", "add"):
        return sum(I(i) for i in range(n))
    if op in ("=", "eq"):
        return I(0) == I(1)
    if op in ("!=", "ne"):
        return I(0) != I(1)
    if op in ("<=", "le"):
        return I(0) <= I(1)
    if op in ("<", "lt"):
        return I(0) < I(1)
    if op in (">=", "ge"):
        return I(0) >= I(1)
    if op in (">", "gt"):
        return I(0) > I(1)
    if op in ("!", "not"):
        return not B(0)
    if op in ("&&", "and"):
        return all(B(i) for i in range(n))
    if op in ("||", "or"):
        return any(B(i) for i in range(n))
    if op == "iff":
        return B(0) == B(1)
    if op == "xor":
        return B(0) != B(1)
    if op in ("=>", "imp"):
        return (not B(0)) or B(1)
    if op == "if":
        return I(1) if B(0) else I(2)
    if op == "alldifferent":
        vals = [I(i) for i in range(n)]
        return len(set(vals)) == len(vals)
    raise ParseError("unknown Sugar operator %s" % op)


def _ev_graph(op, args, asg):
    n, m = int(args[0]), int(args[1])
    if op == "graph-active-vertices-connected":
        if len(args) != 2 + n + 2 * m:
            raise ParseError("operand count of %s" % op)
        act = [ev(a, asg) for a in args[2:2 + n]]
        flat = [int(a) for a in args[2 + n:]]
        edges = [(flat[2 * i], flat[2 * i + 1]) for i in range(m)]
        return graphpred.active_connected(n, edges, act)
    if len(args) != 2 + n + 3 * m:
        raise ParseError("operand count of %s" % op)
    sizes = [ev(a, asg) for a in args[2:2 + n]]
    flat = [int(a) for a in args[2 + n:2 + n + 2 * m]]
    edges = [(flat[2 * i], flat[2 * i + 1]) for i in range(m)]
    borders = [ev(a, asg) for a in args[2 + n + 2 * m:]]
    return graphpred.division_with_borders_ok(n, edges, borders, sizes)


def solutions(p, cap=300000):
    names = [d[1] for d in p.decls]
    doms = [[False, True] if d[0] == "bool" else list(range(d[2], d[3] + 1)) for d in p.decls]
    total = 1
    for d in doms:
        total *= len(d)
    if total > cap:
        raise ParseError("domain product too large for the reference solver")
    out = []
    for vals in itertools.product(*doms):
        asg = dict(zip(names, vals))
        if all(ev(c, asg) is True for c in p.constraints):
            out.append(asg)
    return out


def _fmt(v):
    return ("true" if v else "false") if isinstance(v, bool) else str(v)


def reply(text, pick=0):
    """what a correct external solver prints for this description (Java run())"""
    p = parse(text)
    sols = solutions(p)
    ints = [d[1] for d in p.decls if d[0] == "int"]
    bools = [d[1] for d in p.decls if d[0] == "bool"]
    if p.keys is None:
        if not sols:
            return "s UNSATISFIABLE\n"
        s = sols[pick % len(sols)]
        lines = ["s SATISFIABLE"] + ["a %s\t%s" % (n, _fmt(s[n])) for n in ints] + ["a %s\t%s" % (n, _fmt(s[n])) for n in bools] + ["a"]
        return "\n".join(lines) + "\n"
    if not sols:
        return "unsat\n"
    keyset = set(p.keys)
    lines = ["sat"]
    for n in ints + bools:
        if n in keyset:
            vals = {_fmt(s[n]) for s in sols}
            if len(vals) == 1:
                lines.append("%s %s" % (n, next(iter(vals))))
    return "\n".join(lines) + "\n"
