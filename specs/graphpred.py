"""Graph predicates used as oracles (BFS / union-find; written from the property statements)."""


def _components(n, edges, keep_vertex=None, keep_edge=None):
    parent = list(range(n))

    def find(x):
        while parent[x] != x:
            parent[x] = parent[parent[x]]
            x = parent[x]
        return x

    for i, (u, v) in enumerate(edges):
        if keep_edge is not None and not keep_edge[i]:
            continue
        if keep_vertex is not None and not (keep_vertex[u] and keep_vertex[v]):
            continue
        parent[find(u)] = find(v)
    return [find(x) for x in range(n)]


def active_connected(n, edges, active):
    """the active vertices induce a connected subgraph (no active vertex counts as connected)"""
    comp = _components(n, edges, keep_vertex=active)
    reps = {comp[v] for v in range(n) if active[v]}
    return len(reps) <= 1


def active_tree(n, edges, active):
    """the active vertices induce a tree, or there is none"""
    k = sum(1 for a in active if a)
    if k == 0:
        return True
    if not active_connected(n, edges, active):
        return False
    induced = sum(1 for (u, v) in edges if active[u] and active[v])
    return induced == k - 1


def classes_connected(n, edges, labels, num_regions, allow_empty, roots=None):
    for r in range(num_regions):
        cls = [labels[v] == r for v in range(n)]
        if not allow_empty and not any(cls):
            return False
        if not active_connected(n, edges, cls):
            return False
    if any(not (0 <= l < num_regions) for l in labels):
        return False
    if roots is not None:
        for i, r in enumerate(roots):
            if r is not None and labels[r] != i:
                return False
    return True


def not_adjacent(n, edges, active):
    return not any(active[u] and active[v] for (u, v) in edges)


def not_adjacent_not_segmenting(n, edges, active):
    return not_adjacent(n, edges, active) and active_connected(n, edges, [not a for a in active])


def edges_acyclic(n, edges, active_e):
    parent = list(range(n))

    def find(x):
        while parent[x] != x:
            parent[x] = parent[parent[x]]
            x = parent[x]
        return x

    for i, (u, v) in enumerate(edges):
        if not active_e[i]:
            continue
        a, b = find(u), find(v)
        if a == b:
            return False
        parent[a] = b
    return True


def _degrees(n, edges, active_e):
    deg = [0] * n
    for i, (u, v) in enumerate(edges):
        if active_e[i]:
            deg[u] += 1
            deg[v] += 1
    return deg


def _edge_connected(n, edges, active_e):
    """all active edges lie in one connected component"""
    comp = _components(n, edges, keep_edge=active_e)
    reps = {comp[u] for i, (u, v) in enumerate(edges) if active_e[i]}
    return len(reps) <= 1


def single_cycle(n, edges, active_e):
    """(ok, visited) : active edges empty or exactly one simple cycle (a parallel pair is a cycle)"""
    deg = _degrees(n, edges, active_e)
    visited = [d > 0 for d in deg]
    if not any(active_e):
        return True, visited
    ok = all(d in (0, 2) for d in deg) and _edge_connected(n, edges, active_e)
    return ok, visited


def single_path(n, edges, active_e, allow_empty=True):
    """(ok, visited): one simple path with >= 1 edge; the empty edge set is admitted (as documented)"""
    deg = _degrees(n, edges, active_e)
    visited = [d > 0 for d in deg]
    if not any(active_e):
        return allow_empty, visited
    ends = sum(1 for d in deg if d == 1)
    ok = all(d in (0, 1, 2) for d in deg) and ends == 2 and _edge_connected(n, edges, active_e)
    return ok, visited


def blocks_of(n, edges, cut):
    """components after removing the edges with cut[i]"""
    comp = _components(n, edges, keep_edge=[not c for c in cut])
    return comp


def partition_ok(n, edges, block_of, sizes):
    """block_of: block label per vertex.  Every block connected (inside itself); every vertex with a
    specified size lies in a block of exactly that size."""
    labels = sorted(set(block_of))
    for b in labels:
        cls = [block_of[v] == b for v in range(n)]
        if not active_connected(n, edges, cls):
            return False
    for v in range(n):
        if sizes[v] is not None:
            if sum(1 for u in range(n) if block_of[u] == block_of[v]) != sizes[v]:
                return False
    return True


def division_with_borders_ok(n, edges, borders, sizes):
    comp = blocks_of(n, edges, borders)
    for i, (u, v) in enumerate(edges):
        if borders[i] and comp[u] == comp[v]:
            return False
    for v in range(n):
        if sizes[v] is not None:
            if sum(1 for u in range(n) if comp[u] == comp[v]) != sizes[v]:
                return False
    return True


# ----------------------------------------------------------------------------- lattice (C10 / C14)
def crossable(h, w, hor, ver, single_cycle_mode):
    """frame of h x w cells; hor[(y, x)] for 0<=y<=h, 0<=x<w joins points (y,x)-(y,x+1);
    ver[(y, x)] for 0<=y<h, 0<=x<=w joins (y,x)-(y+1,x).
    returns (ok, visited points, crossing points) as dicts over points."""
    pts = [(y, x) for y in range(h + 1) for x in range(w + 1)]
    segs = [("h", y, x) for y in range(h + 1) for x in range(w) if hor[(y, x)]] + \
           [("v", y, x) for y in range(h) for x in range(w + 1) if ver[(y, x)]]
    inc = {p: {} for p in pts}  # point -> {direction: segment}
    for s in segs:
        k, y, x = s
        if k == "h":
            inc[(y, x)]["E"] = s
            inc[(y, x + 1)]["W"] = s
        else:
            inc[(y, x)]["S"] = s
            inc[(y + 1, x)]["N"] = s
    visited = {p: len(inc[p]) > 0 for p in pts}
    cross = {p: len(inc[p]) == 4 for p in pts}
    ok = True
    allowed = (0, 2, 4) if single_cycle_mode else (0, 1, 2, 4)
    for (y, x) in pts:
        d = len(inc[(y, x)])
        if d not in allowed:
            ok = False
        if d == 4 and not (0 < y < h and 0 < x < w):
            ok = False  # cannot happen geometrically, kept for symmetry with the statement
    # strands: union segments
    idx = {s: i for i, s in enumerate(segs)}
    parent = list(range(len(segs)))

    def find(a):
        while parent[a] != a:
            parent[a] = parent[parent[a]]
            a = parent[a]
        return a

    def union(a, b):
        parent[find(idx[a])] = find(idx[b])

    for p in pts:
        d = inc[p]
        if len(d) == 4:
            union(d["E"], d["W"])
            union(d["N"], d["S"])
        else:
            ss = list(d.values())
            for s in ss[1:]:
                union(ss[0], s)
    if len({find(i) for i in range(len(segs))}) > 1:
        ok = False
    return ok, visited, cross
