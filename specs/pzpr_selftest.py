"""Cross-check of specs/pzpr.py (independent pzpr codec) against cspuz's own URL codecs on random
problems.  Run:  cd /verif && /venv/bin/python -m specs.pzpr_selftest [N] [seed] [genre,genre|all] [tame]

Prints, per genre, the number of agreements and the first few disagreements of each kind:
  ENC   cspuz's URL text differs from the text pzprjs would write (and whether the pzpr reader
        still decodes cspuz's text to the same board)
  DEC   cspuz's reader returns something else than the pzpr reader for the pzpr-written URL
  EXC   cspuz raised
"""

import random
import sys

sys.path.insert(0, "/repo")

from . import pzpr  # noqa: E402


TAME = False  # tame profile: boards >= 2x2, rooms given in canonical order, small numbers, no '??'


def rand_dims(rng, lo=1, hi=7):
    if TAME:
        lo = max(lo, 2)
    return rng.randint(lo, hi), rng.randint(lo, hi)


def rand_number(rng, lo=1):
    r = rng.random()
    if r < 0.7 or TAME:
        return rng.randint(lo, 15)
    if r < 0.9:
        return rng.randint(16, 255)
    return rng.randint(256, 4095)


def rand_rooms(rng, h, w):
    rid = [[y * w + x for x in range(w)] for y in range(h)]
    parent = list(range(h * w))

    def find(a):
        while parent[a] != a:
            parent[a] = parent[parent[a]]
            a = parent[a]
        return a

    edges = []
    for y in range(h):
        for x in range(w):
            if x + 1 < w:
                edges.append((y * w + x, y * w + x + 1))
            if y + 1 < h:
                edges.append((y * w + x, (y + 1) * w + x))
    rng.shuffle(edges)
    p = rng.random()
    for (a, b) in edges:
        if rng.random() < p:
            parent[find(a)] = find(b)
    groups = {}
    for y in range(h):
        for x in range(w):
            groups.setdefault(find(rid[y][x]), []).append((y, x))
    # rooms must be "border-closed": two adjacent cells of one room have no border, which is
    # automatic for a partition; nothing else to do
    rooms = list(groups.values())
    if TAME:
        return pzpr.canonical_rooms(rooms)
    rng.shuffle(rooms)
    for r in rooms:
        rng.shuffle(r)
    return rooms


def gen(module, rng):
    h, w = rand_dims(rng)
    dens = rng.random()
    if module == "nurikabe":
        return h, w, [[(0 if rng.random() > dens else (-1 if rng.random() < 0.2 else rand_number(rng))) for _ in range(w)] for _ in range(h)], {}
    if module == "sudoku":
        return h, w, [[(0 if rng.random() > dens else rand_number(rng)) for _ in range(w)] for _ in range(h)], {}
    if module == "nurimisaki":
        return h, w, [[(-1 if rng.random() > dens else (0 if rng.random() < 0.4 else rand_number(rng))) for _ in range(w)] for _ in range(h)], {}
    if module == "masyu":
        return h, w, [[(0 if rng.random() > dens else rng.randint(1, 2)) for _ in range(w)] for _ in range(h)], {}
    if module == "slitherlink":
        return h, w, [[(-1 if rng.random() > dens else rng.randint(0, 4)) for _ in range(w)] for _ in range(h)], {}
    if module == "yajilin":
        def cell():
            if rng.random() > dens:
                return ".."
            if rng.random() < 0.15 and not TAME:
                return "??"
            return rng.choice("^v<>") + str(rand_number(rng, lo=0))
        return h, w, [[cell() for _ in range(w)] for _ in range(h)], {}
    if module in ("lits", "norinori"):
        return h, w, rand_rooms(rng, h, w), {}
    if module == "heyawake":
        rooms = rand_rooms(rng, h, w)
        return h, w, (rooms, [(-1 if rng.random() > dens else rand_number(rng, lo=0)) for _ in rooms]), {}
    if module == "compass":
        if TAME:
            w = h
        prob = []
        for y in range(h):
            for x in range(w):
                if rng.random() < dens * 0.5:
                    prob.append((y, x) + tuple((-1 if rng.random() < 0.4 else rand_number(rng, lo=0)) for _ in range(4)))
        return h, w, prob, {}
    if module == "star_battle":
        n = h
        rooms = pzpr.canonical_rooms(rand_rooms(rng, n, n))
        grid = pzpr.room_id_grid(n, n, rooms)
        return n, n, grid, {"k": rng.randint(1, 3)}
    if module == "aquarium":
        rooms = rand_rooms(rng, h, w)
        return h, w, (rooms, [(-1 if rng.random() > dens else min(rand_number(rng, lo=0), 255)) for _ in range(h)],
                      [(-1 if rng.random() > dens else min(rand_number(rng, lo=0), 255)) for _ in range(w)]), {}
    raise ValueError(module)


def cspuz_codec(module):
    """-> (serialize(h, w, problem, extra) -> url, deserialize(url) -> (h, w, problem) or None)"""
    import importlib

    m = importlib.import_module("cspuz.puzzle." + module)
    if module in ("nurikabe", "masyu", "slitherlink", "sudoku", "nurimisaki", "yajilin"):
        ser = getattr(m, "serialize_" + module)
        des = getattr(m, "deserialize_" + module)

        def d(url):
            p = des(url)
            return None if p is None else (len(p), len(p[0]), p)

        return (lambda h, w, p, e: ser(p)), d
    if module in ("lits", "norinori"):
        ser = getattr(m, "serialize_" + module)
        des = getattr(m, "deserialize_" + module)
        return (lambda h, w, p, e: ser(h, w, p)), des
    if module == "heyawake":
        return (lambda h, w, p, e: m.serialize_heyawake(h, w, *p)), m.deserialize_heyawake
    if module == "compass":
        return (lambda h, w, p, e: m.to_puzz_link_url(h, w, p)), m.parse_puzz_link_url
    if module == "star_battle":
        return (lambda h, w, p, e: m.problem_to_pzv_url(h, e["k"], p)), None
    if module == "aquarium":
        return (lambda h, w, p, e: m.problem_to_url(h, w, *p)), None
    raise ValueError(module)


def same_body(u1, u2):
    return u1[u1.index("?"):] == u2[u2.index("?"):]


def crosscheck(module, n, seed, show=3):
    rng = random.Random(seed)
    ser, des = cspuz_codec(module)
    stats = {"ok": 0, "ENC-text": 0, "ENC-board": 0, "DEC": 0, "EXC-ser": 0, "EXC-des": 0}
    shown = {k: 0 for k in stats}
    lines = []

    def note(kind, msg):
        stats[kind] += 1
        if shown[kind] < show:
            shown[kind] += 1
            lines.append("  %s %s" % (kind, msg))

    for _ in range(n):
        h, w, problem, extra = gen(module, rng)
        ref = pzpr.encode(module, h, w, problem, **extra)
        back = pzpr.decode(module, ref)
        assert (back["height"], back["width"]) == (h, w)
        assert pzpr._norm(module, back["problem"]) == pzpr._norm(module, problem), (module, problem, ref)
        good = True
        try:
            cu = ser(h, w, problem, extra)
        except Exception as e:  # noqa: BLE001
            note("EXC-ser", "%dx%d (h x w) %r: cspuz serializer raised %r; pzpr: %s" % (h, w, problem, e, ref))
            cu = None
            good = False
        if cu is not None and not same_body(cu, ref):
            good = False
            try:
                d2 = pzpr.decode(module, cu)
                same = (d2["height"], d2["width"]) == (h, w) and pzpr._norm(module, d2["problem"]) == pzpr._norm(module, problem)
                why = "pzpr reads it back as the same board" if same else "pzpr reads it as %dx%d %r" % (d2["height"], d2["width"], d2["problem"])
            except ValueError as e:
                same = False
                why = "pzpr reader: %s: %s" % (type(e).__name__, e)
            note("ENC-text" if same else "ENC-board", "%dx%d (h x w) %r: cspuz %s ; pzpr %s ; %s" % (h, w, problem, cu, ref, why))
        if des is not None:
            try:
                r = des(ref)
                if r is None:
                    raise ValueError("deserializer returned None")
                hh, ww, pp = r
                if (hh, ww) != (h, w) or pzpr._norm(module, pp) != pzpr._norm(module, problem):
                    good = False
                    note("DEC", "%s : cspuz reads %dx%d %r ; pzpr %dx%d %r" % (ref, hh, ww, pp, h, w, problem))
            except Exception as e:  # noqa: BLE001
                good = False
                note("EXC-des", "%s (%dx%d %r): cspuz reader raised %s: %s" % (ref, h, w, problem, type(e).__name__, e))
        if good:
            stats["ok"] += 1
    return stats, lines


def main():
    n = int(sys.argv[1]) if len(sys.argv) > 1 else 300
    seed = int(sys.argv[2]) if len(sys.argv) > 2 else 1
    mods = sys.argv[3].split(",") if len(sys.argv) > 3 and sys.argv[3] != "all" else pzpr.SUPPORTED
    global TAME
    TAME = len(sys.argv) > 4 and sys.argv[4] == "tame"
    print("profile:", "tame" if TAME else "full")
    bad = pzpr.selftest()
    print("recorded pairs: %d mismatches" % len(bad))
    for b in bad:
        print("  ", b)
    for module in mods:
        stats, lines = crosscheck(module, n, seed)
        print("%-12s %s" % (module, " ".join("%s=%d" % kv for kv in stats.items())))
        for ln in lines:
            print(ln[:700])


if __name__ == "__main__":
    main()
