"""Reference ("ordinary arithmetic / logical") meaning of cspuz expression trees.

Written from the property statements, not from cspuz/backend/*.  Two evaluators that are
cross-checked against each other on every run (`selfcheck`):
  * `ev(e, asg)`    concrete value of an expression under an assignment {var id: value}
  * `tz(e, zv)`     z3 term for an expression, zv = {var id: z3 const}
Python literals are constants (bool -> boolean, other int -> integer).  Native graph operators are
decoded from their documented operand layout:
  GRAPH_ACTIVE_VERTICES_CONNECTED  n, m, vertex exprs (n), edge endpoints (2m)
  GRAPH_DIVISION                   n, m, size exprs or None (n), edge endpoints (2m), border exprs (m)
"""

import itertools

import z3

from . import graphpred


def _op(e):
    return e.op.name


def is_var(e):
    return hasattr(e, "id") and _op(e) == "VAR"


def kind_of(e):
    """'bool' | 'int' for a literal or an expression (by its class name, not by trusting its op)"""
    if isinstance(e, bool):
        return "bool"
    if isinstance(e, int):
        return "int"
    names = [c.__name__ for c in type(e).__mro__]
    if "BoolExpr" in names:
        return "bool"
    if "IntExpr" in names:
        return "int"
    raise TypeError("not an expression: %r" % (e,))


class IllTyped(Exception):
    pass


def _want(v, ty, what):
    if ty == "bool":
        if not isinstance(v, bool):
            raise IllTyped("%s: expected a boolean value, got %r" % (what, v))
    else:
        if isinstance(v, bool) or not isinstance(v, int):
            raise IllTyped("%s: expected an integer value, got %r" % (what, v))
    return v


def ev(e, asg):
    if isinstance(e, bool):
        return e
    if isinstance(e, int):
        return e
    op = _op(e)
    if op == "VAR":
        return asg[e.id]
    if op == "BOOL_CONSTANT":
        return _want(e.operands[0], "bool", op)
    if op == "INT_CONSTANT":
        return _want(e.operands[0], "int", op)
    if op in ("GRAPH_ACTIVE_VERTICES_CONNECTED", "GRAPH_DIVISION"):
        return _ev_graph(e, asg)
    xs = [ev(o, asg) for o in e.operands]
    I = lambda i: _want(xs[i], "int", op)
    B = lambda i: _want(xs[i], "bool", op)
    if op == "NEG":
        return -I(0)
    if op == "ADD":
        return sum(I(i) for i in range(len(xs)))
    if op == "SUB":
        r = I(0)
        for i in range(1, len(xs)):
            r -= I(i)
        return r
    if op == "EQ":
        return I(0) == I(1)
    if op == "NE":
        return I(0) != I(1)
    if op == "LE":
        return I(0) <= I(1)
    if op == "LT":
        return I(0) < I(1)
    if op == "GE":
        return I(0) >= I(1)
    if op == "GT":
        return I(0) > I(1)
    if op == "NOT":
        return not B(0)
    if op == "AND":
        return all(B(i) for i in range(len(xs)))
    if op == "OR":
        return any(B(i) for i in range(len(xs)))
    if op == "IFF":
        return B(0) == B(1)
    if op == "XOR":
        return B(0) != B(1)
    if op == "IMP":
        return (not B(0)) or B(1)
    if op == "IF":
        return I(1) if B(0) else I(2)
    if op == "ALLDIFF":
        vals = [I(i) for i in range(len(xs))]
        return len(set(vals)) == len(vals)
    raise ValueError("unknown operator %s" % op)


def decode_graph(e):
    ops = e.operands
    n, m = ops[0], ops[1]
    if _op(e) == "GRAPH_ACTIVE_VERTICES_CONNECTED":
        assert len(ops) == 2 + n + 2 * m, "operand layout of graph-active-vertices-connected"
        verts = ops[2:2 + n]
        flat = ops[2 + n:]
        edges = [(flat[2 * i], flat[2 * i + 1]) for i in range(m)]
        return n, m, verts, edges, None
    assert len(ops) == 2 + n + 3 * m, "operand layout of graph-division"
    sizes = ops[2:2 + n]
    flat = ops[2 + n:2 + n + 2 * m]
    edges = [(flat[2 * i], flat[2 * i + 1]) for i in range(m)]
    borders = ops[2 + n + 2 * m:]
    return n, m, sizes, edges, borders


def _ev_graph(e, asg):
    n, m, verts, edges, borders = decode_graph(e)
    if borders is None:
        active = [_want(ev(v, asg), "bool", "graph vertex") for v in verts]
        return graphpred.active_connected(n, edges, active)
    sizes = [None if s is None else _want(ev(s, asg), "int", "group size") for s in verts]
    bd = [_want(ev(b, asg), "bool", "border") for b in borders]
    return graphpred.division_with_borders_ok(n, edges, bd, sizes)


# ------------------------------------------------------------------------------------------- z3
def tz(e, zv):
    if isinstance(e, bool):
        return z3.BoolVal(e)
    if isinstance(e, int):
        return z3.IntVal(e)
    op = _op(e)
    if op == "VAR":
        return zv[e.id]
    if op == "BOOL_CONSTANT":
        return z3.BoolVal(_want(e.operands[0], "bool", op))
    if op == "INT_CONSTANT":
        return z3.IntVal(_want(e.operands[0], "int", op))
    if op in ("GRAPH_ACTIVE_VERTICES_CONNECTED", "GRAPH_DIVISION"):
        return _tz_graph(e, zv)
    xs = [tz(o, zv) for o in e.operands]

    def I(i):
        if not z3.is_int(xs[i]):
            raise IllTyped("%s: operand %d is not integer-valued" % (op, i))
        return xs[i]

    def B(i):
        if not z3.is_bool(xs[i]):
            raise IllTyped("%s: operand %d is not boolean-valued" % (op, i))
        return xs[i]

    if op == "NEG":
        return -I(0)
    if op == "ADD":
        return z3.Sum([I(i) for i in range(len(xs))]) if xs else z3.IntVal(0)
    if op == "SUB":
        r = I(0)
        for i in range(1, len(xs)):
            r = r - I(i)
        return r
    if op == "EQ":
        return I(0) == I(1)
    if op == "NE":
        return I(0) != I(1)
    if op == "LE":
        return I(0) <= I(1)
    if op == "LT":
        return I(0) < I(1)
    if op == "GE":
        return I(0) >= I(1)
    if op == "GT":
        return I(0) > I(1)
    if op == "NOT":
        return z3.Not(B(0))
    if op == "AND":
        return z3.And([B(i) for i in range(len(xs))]) if xs else z3.BoolVal(True)
    if op == "OR":
        return z3.Or([B(i) for i in range(len(xs))]) if xs else z3.BoolVal(False)
    if op == "IFF":
        return B(0) == B(1)
    if op == "XOR":
        return z3.Xor(B(0), B(1))
    if op == "IMP":
        return z3.Implies(B(0), B(1))
    if op == "IF":
        return z3.If(B(0), I(1), I(2))
    if op == "ALLDIFF":
        vs = [I(i) for i in range(len(xs))]
        return z3.And([vs[i] != vs[j] for i in range(len(vs)) for j in range(i)]) if len(vs) > 1 else z3.BoolVal(True)
    raise ValueError("unknown operator %s" % op)


def _closure(n, adj_terms):
    """Floyd-Warshall style reachability as formulas: adj_terms[u][v] boolean term (symmetric)."""
    c = [[z3.BoolVal(True) if u == v else adj_terms[u][v] for v in range(n)] for u in range(n)]
    for k in range(n):
        c = [[z3.Or(c[u][v], z3.And(c[u][k], c[k][v])) for v in range(n)] for u in range(n)]
    return c


def _tz_graph(e, zv):
    n, m, verts, edges, borders = decode_graph(e)
    F = z3.BoolVal(False)
    if borders is None:
        act = [tz(v, zv) for v in verts]
        adj = [[F for _ in range(n)] for _ in range(n)]
        for (u, v) in edges:
            t = z3.And(act[u], act[v])
            adj[u][v] = z3.Or(adj[u][v], t)
            adj[v][u] = z3.Or(adj[v][u], t)
        c = _closure(n, adj)
        return z3.And([z3.Implies(z3.And(act[u], act[v]), c[u][v]) for u in range(n) for v in range(u)])
    bd = [tz(b, zv) for b in borders]
    adj = [[F for _ in range(n)] for _ in range(n)]
    for i, (u, v) in enumerate(edges):
        t = z3.Not(bd[i])
        adj[u][v] = z3.Or(adj[u][v], t)
        adj[v][u] = z3.Or(adj[v][u], t)
    c = _closure(n, adj)
    conds = []
    for i, (u, v) in enumerate(edges):
        conds.append(z3.Implies(bd[i], z3.Not(c[u][v])))
    for v, s in enumerate(verts):
        if s is not None:
            conds.append(z3.Sum([z3.If(c[v][u], 1, 0) for u in range(n)]) == tz(s, zv))
    return z3.And(conds) if conds else z3.BoolVal(True)


# ------------------------------------------------------------------------------------------- helpers
def declare(variables):
    """z3 constants + bound constraints for a list of cspuz variables (by class name)"""
    zv, bounds = {}, []
    for v in variables:
        if kind_of(v) == "bool":
            zv[v.id] = z3.Bool("b%d" % v.id)
        else:
            zv[v.id] = z3.Int("i%d" % v.id)
            bounds.append(z3.And(zv[v.id] >= v.lo, zv[v.id] <= v.hi))
    return zv, bounds


def domain(v):
    return [False, True] if kind_of(v) == "bool" else list(range(v.lo, v.hi + 1))


def all_assignments(variables, cap=None):
    doms = [domain(v) for v in variables]
    total = 1
    for d in doms:
        total *= len(d)
    if cap is not None and total > cap:
        return None
    return (dict(zip([v.id for v in variables], vals)) for vals in itertools.product(*doms))


def brute_solutions(variables, constraints, cap=200000):
    gen = all_assignments(variables, cap)
    if gen is None:
        return None
    return [a for a in gen if all(ev(c, a) is True for c in constraints)]
