"""Independent reference codec for puzz.link / pzv URL bodies ("pzpr encoding").

Written from the encoding rules of pzprjs (pzpr.js, the engine behind pzv.jp and puzz.link), i.e.
from the behaviour of its `Encode` functions, NOT from cspuz's serializer (cspuz/problem_serializer.py,
the *_COMBINATOR definitions and cspuz.puzzle.util.encode_* are the code under test).  The only thing
taken from cspuz is each puzzle module's PROBLEM FORMAT (the Python value its solver takes).

pzprjs functions transcribed here (src/puzzle/Encode.js unless noted):

  decodeNumber16 / encodeNumber16      one item per cell, row-major:
        '0'..'f'   number 0..15                 '-' + 2 hex digits   number 16..255
        '+' + 3 hex digits  number 256..4095    '=' + 3 hex digits   4096..8191   '%' + 3 hex: 8192..
        '.'        the "?" mark (qnum = -2)     'g'..'z'             run of 1..20 empty cells
        The encoder emits every run, including the trailing one; runs longer than 20 are split.
  decode4Cell / encode4Cell            (slitherlink)
        '0'..'4' number n;  '5'..'9' number n-5 followed by 1 empty cell;  'a'..'e' number n-10
        followed by 2 empty cells;  'g'..'z' run of 1..20 empty cells;  '.' = "?".
        Encoder quirk (kept): a neighbour that does not exist (beyond the last cell) counts as
        empty, so a number in the last cell is written 'a'..'e' and a number in the last-but-one
        cell followed by an empty last cell is written 'a'..'e' too (e.g. slither/4/4/dgdh2c7b).
  decodeCircle / encodeCircle          (masyu) 3 cells per base-27 character, first cell has weight
        9, then 3, then 1; cell value 0 none, 1 white, 2 black; the last character is zero padded.
  decodeBorder / encodeBorder          first the (W-1)*H borders between horizontally adjacent
        cells, row by row (border id = y*(W-1)+x separates (y,x)|(y,x+1)), 5 per base-32 character
        ('0'..'9','a'..'v'), first border has weight 16, last character zero padded; then, starting
        a NEW character, the W*(H-1) borders between vertically adjacent cells (id = y*W+x
        separates (y,x)/(y+1,x)).  A section with 0 borders (W == 1 or H == 1) has 0 characters.
        Rooms are the connected components of cells not separated by a border (AreaRoomGraph).
        A border both of whose sides end up in the same room is legal in pzpr.
  decodeRoomNumber16 / encodeRoomNumber16   one number16 item per ROOM; rooms are numbered in the
        order in which a row-major scan of the cells first meets them (= order of their
        smallest cell).  '.' is not a legal item here.
  decodeArrowNumber16 / encodeArrowNumber16 (yajilin) direction d: 0 none, 1 up, 2 down, 3 left,
        4 right.   d + hex digit    number 0..15     d + '.'   "?"
                   (d+5) + 2 hex    number 16..255   '-' + d + 3 hex   number 256..4095
                   'a'..'z'         run of 1..26 empty cells
  readNumber16 / writeNumber16         the single-item version of number16, used by compass: a
        compass cell is 4 consecutive items in the order up, down, left, right ('.' = blank);
        'g'..'z' is a run of 1..20 cells without compass.
  decodeNumber16ExCell / encodeNumber16ExCell  (aquarium) number16 items over the outside cells:
        first the W cells above the board (column clues, left to right), then the H cells left of
        the board (row clues, top to bottom).  Only '0'..'f', '-'+2 hex, '.', 'g'..'z'.
  URL layout (pzpr.parser.parseURL):  <prefix>?<pid>[/<pflag>]/<cols>/<rows>/<body>, where
        cols = WIDTH comes first.  starbattle: body = "<stars>/<border data>" (decodeStarCount).
        aquarium: body = border data immediately followed by the ExCell items, NO separator.

Problem formats returned by decode() (those of the cspuz puzzle modules):

  nurikabe     rows of ints: 0 empty, n>0 clue, -1 '?'
  masyu        rows of ints: 0 none, 1 white, 2 black
  slitherlink  rows of ints: -1 empty, 0..4 clue
  sudoku       rows of ints: 0 empty, n>0 clue
  nurimisaki   rows of ints: -1 empty, 0 circle without number ('.'), n>0 circle with number
  yajilin      rows of str: '..' empty, '??' clue cell without number, '^n' 'vn' '<n' '>n'
  heyawake     (rooms, clues)            clue -1 = none
  lits         rooms
  norinori     rooms
  compass      list of (y, x, up, left, down, right), -1 = blank, in row-major order of (y, x)
  star_battle  block-id grid (n x n rows of ints); extra['k'] = stars, extra['rooms']
  aquarium     (rooms, clue_row, clue_col)   -1 = none

ROOMS are always returned in CANONICAL ORDER: a list of rooms ordered by their smallest cell in
row-major order, every room a list of (y, x) tuples sorted row-major.  Block-id grids number the
rooms in the same order (0, 1, 2, ...).

Some well-formed pzpr bodies have no counterpart in the cspuz format (e.g. the digit '0' in
nurikabe/sudoku/nurimisaki, '?' in slitherlink/sudoku, a yajilin number without arrow).  For
those decode() raises `Unrepresentable` (a subclass of ValueError, itself distinct from the
`PzprError` raised for malformed text).

strict=True (default): the body must be exactly what some pzpr board could be written as by a
well-behaved writer: no unknown characters, no truncated items, every cell/room covered, nothing
left over, padding bits zero.  The only tolerated overshoot is the one pzprjs's own encode4Cell
produces ('5'..'9' / 'a'..'e' on the last cells).  strict=False approximates the forgiving
pzprjs reader: missing tail = empty, an unknown character skips one cell/room/outside cell
(so a '/' written between aquarium's two sections shifts every clue by one), overshooting runs
and leftovers are ignored, padding bits are ignored; truncated or non-hex multi-character items
still raise (pzprjs would store NaN).  A reader that accepts more than strict mode is therefore
not wrong with respect to pzprjs; compare against strict=False for "what would pzprjs see".

Confidence: every rule above is transcribed from memory of the pzprjs sources and then checked
against the URL/problem pairs recorded in the cspuz repository (recorded_pairs(), 13 pairs, 9
genres: all decode AND re-encode to the recorded text).  No recorded pair exists for yajilin
(rule: decodeArrowNumber16), aquarium (decodeBorder + decodeNumber16ExCell, hasexcell = 1 means
cols + rows outside cells, top ones first) and for the order of a compass cell's four numbers
(up, down, left, right = pzprjs direction numbers 1..4; the recorded 5x5 compass example has a
unique solution under this order).
"""

import re

SUPPORTED = [
    "nurikabe",
    "masyu",
    "slitherlink",
    "sudoku",
    "nurimisaki",
    "yajilin",
    "heyawake",
    "lits",
    "norinori",
    "compass",
    "star_battle",
    "aquarium",
]

# module name -> (canonical pid written by encode(), accepted pids)
PID = {
    "nurikabe": ("nurikabe", ("nurikabe",)),
    "masyu": ("masyu", ("masyu", "mashu")),
    "slitherlink": ("slither", ("slither", "slitherlink")),
    "sudoku": ("sudoku", ("sudoku",)),
    "nurimisaki": ("nurimisaki", ("nurimisaki",)),
    "yajilin": ("yajilin", ("yajilin", "yajirin")),
    "heyawake": ("heyawake", ("heyawake",)),
    "lits": ("lits", ("lits",)),
    "norinori": ("norinori", ("norinori",)),
    "compass": ("compass", ("compass",)),
    "star_battle": ("starbattle", ("starbattle",)),
    "aquarium": ("aquarium", ("aquarium",)),
}

DEFAULT_PREFIX = "https://puzz.link/p?"

EMPTY = -1  # pzprjs qnum of a cell without number
HATENA = -2  # pzprjs qnum of '?'


class PzprError(ValueError):
    """malformed URL / body"""


class Unrepresentable(ValueError):
    """well-formed pzpr data that the cspuz problem format cannot express"""


# ----------------------------------------------------------------------------------------------
# URL
# ----------------------------------------------------------------------------------------------

_URL_RE = re.compile(r"^https?://[^/?#]+/(?:p|p\.html)?\?(.*)$")


def parse_url(url):
    """-> dict(pid, pflag, cols, rows, body).  body is everything after '<cols>/<rows>/'
    (it may contain '/', as for starbattle)."""
    if not isinstance(url, str):
        raise PzprError("url must be a string")
    m = _URL_RE.match(url.strip())
    if m is None:
        raise PzprError("not a puzz.link / pzv URL: %r" % (url,))
    parts = m.group(1).split("/")
    pid = parts.pop(0)
    if pid == "" or not re.match(r"^[A-Za-z0-9_\-]+$", pid):
        raise PzprError("bad puzzle id in %r" % (url,))
    pflag = None
    if parts and not re.match(r"^\d+$", parts[0]):
        pflag = parts.pop(0)
    if len(parts) < 2:
        raise PzprError("missing board size in %r" % (url,))
    if not re.match(r"^\d+$", parts[0]) or not re.match(r"^\d+$", parts[1]):
        raise PzprError("board size is not a number in %r" % (url,))
    cols = int(parts[0])
    rows = int(parts[1])
    body = "/".join(parts[2:])
    return dict(pid=pid, pflag=pflag, cols=cols, rows=rows, body=body)


def split_url(url):
    """-> (puzzle_name, width, height, body).  For starbattle, body == '<stars>/<border data>'
    (as in pzprjs, where the body is everything after the size); a pflag, if any, is dropped
    (use parse_url to see it)."""
    d = parse_url(url)
    return d["pid"], d["cols"], d["rows"], d["body"]


# ----------------------------------------------------------------------------------------------
# item level
# ----------------------------------------------------------------------------------------------

_HEX = "0123456789abcdef"
_B36 = "0123456789abcdefghijklmnopqrstuvwxyz"
_B32 = _B36[:32]
_B27 = _B36[:27]


def _hexval(s, what):
    if s == "" or any(ch not in _HEX for ch in s):
        raise PzprError("bad hex digits %r in %s" % (s, what))
    return int(s, 16)


def read_number16(body, i, wide=True, hatena=True):
    """readNumber16: -> (value, length) ; value HATENA for '.'; (None, 0) if body[i] starts no item"""
    if i >= len(body):
        return None, 0
    ca = body[i]
    if ca in _HEX:
        return _HEX.index(ca), 1
    if ca == "-":
        if i + 3 > len(body):
            raise PzprError("truncated '-' item at %d" % i)
        return _hexval(body[i + 1 : i + 3], "'-' item"), 3
    if wide and ca in "+=%":
        if i + 4 > len(body):
            raise PzprError("truncated %r item at %d" % (ca, i))
        return _hexval(body[i + 1 : i + 4], "%r item" % ca) + {"+": 0, "=": 4096, "%": 8192}[ca], 4
    if hatena and ca == ".":
        return HATENA, 1
    return None, 0


def write_number16(qn, wide=True):
    if qn == HATENA:
        return "."
    if 0 <= qn < 16:
        return _HEX[qn]
    if 16 <= qn < 256:
        return "-%x" % qn
    if wide and 256 <= qn < 4096:
        return "+%x" % qn
    if wide and 4096 <= qn < 8192:
        return "=%03x" % (qn - 4096)
    if wide and 8192 <= qn < 8192 + 4096:
        return "%%%03x" % (qn - 8192)
    raise Unrepresentable("number %r cannot be written as a number16 item" % (qn,))


def _run_char(count, base_char_code):
    # count 1 -> chr(base_char_code)
    return _B36[count + base_char_code]


class _Runs:
    """the run-length bookkeeping shared by every pzprjs encodeXxx16 function"""

    def __init__(self, maxrun, offset):
        self.maxrun = maxrun  # 20 (g..z) or 26 (a..z)
        self.offset = offset  # 15: count 1 -> 'g' ; 9: count 1 -> 'a'
        self.out = []
        self.count = 0

    def item(self, pstr):
        if pstr == "":
            self.count += 1
        if self.count == 0:
            self.out.append(pstr)
        elif pstr != "" or self.count == self.maxrun:
            self.out.append(_B36[self.count + self.offset] + pstr)
            self.count = 0

    def finish(self):
        if self.count > 0:
            self.out.append(_B36[self.count + self.offset])
            self.count = 0
        return "".join(self.out)


def decode_number16(body, n, strict=True, start=0, wide=True, hatena=True, what="cell"):
    """decodeNumber16 over n items -> (list of qnum (EMPTY/HATENA/number), next index)"""
    vals = [EMPTY] * n
    c = 0
    i = start
    while i < len(body) and c < n:
        ca = body[i]
        v, ln = read_number16(body, i, wide=wide, hatena=hatena)
        if v is not None:
            vals[c] = v
            i += ln
            c += 1
        elif "g" <= ca <= "z":
            c += _B36.index(ca) - 15
            i += 1
            if c > n and strict:
                raise PzprError("run %r overshoots the last %s" % (ca, what))
        else:
            if strict:
                raise PzprError("unexpected character %r at %d" % (ca, i))
            i += 1
            c += 1
    if c < n and strict:
        raise PzprError("body ends after %d of %d %ss" % (c, n, what))
    return vals, i


def encode_number16(vals, wide=True):
    r = _Runs(20, 15)
    for qn in vals:
        r.item("" if qn == EMPTY else write_number16(qn, wide=wide))
    return r.finish()


def decode_4cell(body, n, strict=True, start=0):
    vals = [EMPTY] * n
    c = 0
    i = start
    while i < len(body) and c < n:
        ca = body[i]
        if "0" <= ca <= "4":
            vals[c] = int(ca)
        elif "5" <= ca <= "9":
            vals[c] = int(ca) - 5
            c += 1
        elif "a" <= ca <= "e":
            vals[c] = _HEX.index(ca) - 10
            c += 2
        elif "g" <= ca <= "z":
            c += _B36.index(ca) - 16
            if c + 1 > n and strict:
                raise PzprError("run %r overshoots the last cell" % ca)
        elif ca == ".":
            vals[c] = HATENA
        else:
            if strict:
                raise PzprError("unexpected character %r at %d" % (ca, i))
        c += 1
        i += 1
    if c < n and strict:
        raise PzprError("body ends after %d of %d cells" % (c, n))
    return vals, i


def encode_4cell(vals):
    n = len(vals)
    r = _Runs(20, 15)
    c = 0
    while c < n:
        qn = vals[c]
        pstr = ""
        if qn >= 0:
            if qn > 4:
                raise Unrepresentable("4cell number %r > 4" % (qn,))
            if c + 1 < n and vals[c + 1] != EMPTY:
                pstr = _HEX[qn]
            elif c + 2 < n and vals[c + 2] != EMPTY:
                pstr = _HEX[5 + qn]
                c += 1
            else:
                pstr = _HEX[10 + qn]
                c += 2
        elif qn == HATENA:
            pstr = "."
        r.item(pstr)
        c += 1
    return r.finish()


def decode_circle(body, n, strict=True, start=0):
    nch = (n + 2) // 3
    avail = len(body) - start
    if avail < nch:
        if strict:
            raise PzprError("circle data needs %d characters, found %d" % (nch, avail))
        nch = max(avail, 0)
    vals = [0] * n
    c = 0
    for k in range(nch):
        ca = body[start + k]
        if ca not in _B27:
            if strict:
                raise PzprError("unexpected character %r in circle data" % ca)
            c += 3
            continue
        v = _B27.index(ca)
        for w in (9, 3, 1):
            t = (v // w) % 3
            if c < n:
                vals[c] = t
            elif t != 0 and strict:
                raise PzprError("non-zero padding in the last circle character %r" % ca)
            c += 1
    return vals, start + nch


def encode_circle(vals):
    out = []
    num = 0
    acc = 0
    for v in vals:
        if v not in (0, 1, 2):
            raise Unrepresentable("circle value %r" % (v,))
        acc += v * (9, 3, 1)[num]
        num += 1
        if num == 3:
            out.append(_B27[acc])
            num = 0
            acc = 0
    if num > 0:
        out.append(_B27[acc])
    return "".join(out)


def _decode_bits(body, start, nbits, strict, what):
    nch = (nbits + 4) // 5
    avail = len(body) - start
    if avail < nch:
        if strict:
            raise PzprError("%s need %d characters, found %d" % (what, nch, max(avail, 0)))
        nch = max(avail, 0)
    bits = [0] * nbits
    k = 0
    for j in range(nch):
        ca = body[start + j]
        if ca not in _B32:
            if strict:
                raise PzprError("unexpected character %r in %s" % (ca, what))
            v = 0
        else:
            v = _B32.index(ca)
        for w in (16, 8, 4, 2, 1):
            b = 1 if v & w else 0
            if k < nbits:
                bits[k] = b
            elif b and strict:
                raise PzprError("non-zero padding bit in %s" % what)
            k += 1
    return bits, start + nch


def _encode_bits(bits):
    out = []
    num = 0
    acc = 0
    for b in bits:
        acc += (1 if b else 0) * (16, 8, 4, 2, 1)[num]
        num += 1
        if num == 5:
            out.append(_B32[acc])
            num = 0
            acc = 0
    if num > 0:
        out.append(_B32[acc])
    return "".join(out)


def decode_border(body, height, width, strict=True, start=0):
    """-> (vert, horiz, next index); vert[y][x] (x < W-1) = border between (y,x) and (y,x+1);
    horiz[y][x] (y < H-1) = border between (y,x) and (y+1,x)"""
    vb, i = _decode_bits(body, start, (width - 1) * height, strict, "vertical borders")
    hb, i = _decode_bits(body, i, width * (height - 1), strict, "horizontal borders")
    vert = [[vb[y * (width - 1) + x] for x in range(width - 1)] for y in range(height)]
    horiz = [[hb[y * width + x] for x in range(width)] for y in range(height - 1)]
    return vert, horiz, i


def encode_border(vert, horiz):
    return _encode_bits([b for row in vert for b in row]) + _encode_bits(
        [b for row in horiz for b in row]
    )


def rooms_from_borders(height, width, vert, horiz):
    """connected components -> (rooms in canonical order, room-id grid, has_redundant_border)"""
    rid = [[-1] * width for _ in range(height)]
    rooms = []
    for y0 in range(height):
        for x0 in range(width):
            if rid[y0][x0] != -1:
                continue
            k = len(rooms)
            rid[y0][x0] = k
            stack = [(y0, x0)]
            cells = []
            while stack:
                y, x = stack.pop()
                cells.append((y, x))
                nb = []
                if x + 1 < width and not vert[y][x]:
                    nb.append((y, x + 1))
                if x > 0 and not vert[y][x - 1]:
                    nb.append((y, x - 1))
                if y + 1 < height and not horiz[y][x]:
                    nb.append((y + 1, x))
                if y > 0 and not horiz[y - 1][x]:
                    nb.append((y - 1, x))
                for (yy, xx) in nb:
                    if rid[yy][xx] == -1:
                        rid[yy][xx] = k
                        stack.append((yy, xx))
            rooms.append(sorted(cells))
    redundant = False
    for y in range(height):
        for x in range(width - 1):
            if vert[y][x] and rid[y][x] == rid[y][x + 1]:
                redundant = True
    for y in range(height - 1):
        for x in range(width):
            if horiz[y][x] and rid[y][x] == rid[y + 1][x]:
                redundant = True
    return rooms, rid, redundant


def canonical_rooms(rooms):
    rs = [sorted((int(y), int(x)) for (y, x) in room) for room in rooms]
    if any(len(r) == 0 for r in rs):
        raise ValueError("empty room")
    return sorted(rs, key=lambda r: r[0])


def room_id_grid(height, width, rooms):
    """room-id grid of a room list (ids = position in the given list); checks it is a partition"""
    rid = [[-1] * width for _ in range(height)]
    for k, room in enumerate(rooms):
        for (y, x) in room:
            if not (0 <= y < height and 0 <= x < width):
                raise ValueError("cell (%r, %r) outside the board" % (y, x))
            if rid[y][x] != -1:
                raise ValueError("cell (%r, %r) belongs to several rooms" % (y, x))
            rid[y][x] = k
    for y in range(height):
        for x in range(width):
            if rid[y][x] == -1:
                raise ValueError("cell (%r, %r) belongs to no room" % (y, x))
    return rid


def borders_from_room_ids(height, width, rid):
    vert = [[1 if rid[y][x] != rid[y][x + 1] else 0 for x in range(width - 1)] for y in range(height)]
    horiz = [[1 if rid[y][x] != rid[y + 1][x] else 0 for x in range(width)] for y in range(height - 1)]
    return vert, horiz


def rooms_from_id_grid(height, width, grid):
    """a block-id grid -> canonical rooms.  A block id whose cells are not 4-connected gives
    several pzpr rooms (pzpr only knows borders)."""
    vert, horiz = borders_from_room_ids(height, width, grid)
    return rooms_from_borders(height, width, vert, horiz)[0]


def decode_room_number16(body, nrooms, strict=True, start=0):
    return decode_number16(body, nrooms, strict=strict, start=start, hatena=False, what="room")


def decode_arrow_number16(body, n, strict=True, start=0):
    """-> (list of None | (dir, qnum), next index)"""
    vals = [None] * n
    c = 0
    i = start
    while i < len(body) and c < n:
        ca = body[i]
        if "0" <= ca <= "4":
            if i + 2 > len(body):
                raise PzprError("truncated arrow item at %d" % i)
            ca1 = body[i + 1]
            if ca1 == ".":
                vals[c] = (int(ca), HATENA)
            else:
                vals[c] = (int(ca), _hexval(ca1, "arrow item"))
            i += 2
        elif "5" <= ca <= "9":
            if i + 3 > len(body):
                raise PzprError("truncated arrow item at %d" % i)
            vals[c] = (int(ca) - 5, _hexval(body[i + 1 : i + 3], "arrow item"))
            i += 3
        elif ca == "-":
            if i + 5 > len(body):
                raise PzprError("truncated arrow item at %d" % i)
            d = body[i + 1]
            if not ("0" <= d <= "4"):
                raise PzprError("bad direction %r at %d" % (d, i + 1))
            vals[c] = (int(d), _hexval(body[i + 2 : i + 5], "arrow item"))
            i += 5
        elif "a" <= ca <= "z":
            c += _B36.index(ca) - 10
            i += 1
            if c + 1 > n and strict:
                raise PzprError("run %r overshoots the last cell" % ca)
        else:
            if strict:
                raise PzprError("unexpected character %r at %d" % (ca, i))
            i += 1
        c += 1
    if c < n and strict:
        raise PzprError("body ends after %d of %d cells" % (c, n))
    return vals, i


def encode_arrow_number16(vals):
    r = _Runs(26, 9)
    for v in vals:
        if v is None:
            r.item("")
            continue
        d, qn = v
        if qn == HATENA:
            p = "%d." % d
        elif 0 <= qn < 16:
            p = "%d%x" % (d, qn)
        elif 16 <= qn < 256:
            p = "%d%x" % (d + 5, qn)
        elif 256 <= qn < 4096:
            p = "-%d%x" % (d, qn)
        else:
            raise Unrepresentable("arrow number %r" % (qn,))
        r.item(p)
    return r.finish()


def decode_compass(body, n, strict=True, start=0):
    """-> (list of None | [up, down, left, right] with EMPTY(-1) for blank, next index)"""
    vals = [None] * n
    c = 0
    i = start
    while i < len(body) and c < n:
        ca = body[i]
        if "g" <= ca <= "z":
            c += _B36.index(ca) - 15
            i += 1
            if c > n and strict:
                raise PzprError("run %r overshoots the last cell" % ca)
            continue
        nums = []
        for _ in range(4):
            v, ln = read_number16(body, i)
            if v is None:
                if strict:
                    if i >= len(body):
                        raise PzprError("truncated compass cell")
                    raise PzprError("unexpected character %r at %d" % (body[i], i))
                v, ln = HATENA, (1 if i < len(body) else 0)
            nums.append(EMPTY if v == HATENA else v)
            i += ln
        vals[c] = nums
        c += 1
    if c < n and strict:
        raise PzprError("body ends after %d of %d cells" % (c, n))
    return vals, i


def encode_compass(vals):
    r = _Runs(20, 15)
    for v in vals:
        if v is None:
            r.item("")
        else:
            r.item("".join(write_number16(HATENA if q == EMPTY else q) for q in v))
    return r.finish()


# ----------------------------------------------------------------------------------------------
# genre level
# ----------------------------------------------------------------------------------------------


def _grid(vals, height, width):
    return [list(vals[y * width : (y + 1) * width]) for y in range(height)]


def _flat(problem, height, width):
    if len(problem) != height or any(len(row) != width for row in problem):
        raise ValueError("problem is not a %d x %d grid" % (height, width))
    return [v for row in problem for v in row]


def _done(body, i, strict):
    if strict and i != len(body):
        raise PzprError("%d unread characters at the end of the body: %r" % (len(body) - i, body[i:]))


def _dec_nurikabe(h, w, body, strict):
    vals, i = decode_number16(body, h * w, strict)
    _done(body, i, strict)
    out = []
    for v in vals:
        if v == EMPTY:
            out.append(0)
        elif v == HATENA:
            out.append(-1)
        elif v == 0:
            raise Unrepresentable("nurikabe clue 0 (cspuz uses 0 for an empty cell)")
        else:
            out.append(v)
    return _grid(out, h, w), {}


def _enc_nurikabe(h, w, problem, extra):
    vals = []
    for v in _flat(problem, h, w):
        if v == 0:
            vals.append(EMPTY)
        elif v == -1:
            vals.append(HATENA)
        elif v > 0:
            vals.append(v)
        else:
            raise ValueError("bad nurikabe cell %r" % (v,))
    return encode_number16(vals)


def _dec_sudoku(h, w, body, strict):
    vals, i = decode_number16(body, h * w, strict)
    _done(body, i, strict)
    out = []
    for v in vals:
        if v == EMPTY:
            out.append(0)
        elif v == HATENA:
            raise Unrepresentable("sudoku '?' cell")
        elif v == 0:
            raise Unrepresentable("sudoku clue 0 (cspuz uses 0 for an empty cell)")
        else:
            out.append(v)
    return _grid(out, h, w), {}


def _enc_sudoku(h, w, problem, extra):
    vals = []
    for v in _flat(problem, h, w):
        if v == 0:
            vals.append(EMPTY)
        elif v > 0:
            vals.append(v)
        else:
            raise ValueError("bad sudoku cell %r" % (v,))
    return encode_number16(vals)


def _dec_nurimisaki(h, w, body, strict):
    vals, i = decode_number16(body, h * w, strict)
    _done(body, i, strict)
    out = []
    for v in vals:
        if v == EMPTY:
            out.append(-1)
        elif v == HATENA:
            out.append(0)
        elif v == 0:
            raise Unrepresentable("nurimisaki number 0 (cspuz uses 0 for the circle without number)")
        else:
            out.append(v)
    return _grid(out, h, w), {}


def _enc_nurimisaki(h, w, problem, extra):
    vals = []
    for v in _flat(problem, h, w):
        if v == -1:
            vals.append(EMPTY)
        elif v == 0:
            vals.append(HATENA)
        elif v > 0:
            vals.append(v)
        else:
            raise ValueError("bad nurimisaki cell %r" % (v,))
    return encode_number16(vals)


def _dec_masyu(h, w, body, strict):
    vals, i = decode_circle(body, h * w, strict)
    _done(body, i, strict)
    return _grid(vals, h, w), {}


def _enc_masyu(h, w, problem, extra):
    return encode_circle(_flat(problem, h, w))


def _dec_slitherlink(h, w, body, strict):
    vals, i = decode_4cell(body, h * w, strict)
    _done(body, i, strict)
    if HATENA in vals:
        raise Unrepresentable("slitherlink '?' cell")
    return _grid(vals, h, w), {}


def _enc_slitherlink(h, w, problem, extra):
    vals = _flat(problem, h, w)
    for v in vals:
        if not (-1 <= v <= 4):
            raise ValueError("bad slitherlink cell %r" % (v,))
    return encode_4cell(vals)


_YAJ_DIR = {1: "^", 2: "v", 3: "<", 4: ">"}
_YAJ_DIR_INV = {"^": 1, "v": 2, "<": 3, ">": 4}


def _dec_yajilin(h, w, body, strict):
    vals, i = decode_arrow_number16(body, h * w, strict)
    _done(body, i, strict)
    out = []
    lossy = []
    for c, v in enumerate(vals):
        if v is None:
            out.append("..")
            continue
        d, qn = v
        if qn == HATENA:
            # cspuz has a single "clue cell without information" value; the arrow of 'd.' is dropped
            if d != 0:
                lossy.append((c // w, c % w))
            out.append("??")
        elif d == 0:
            raise Unrepresentable("yajilin number %d without arrow" % qn)
        else:
            out.append("%s%d" % (_YAJ_DIR[d], qn))
    extra = {}
    if lossy:
        extra["arrow_dropped"] = lossy
    return _grid(out, h, w), extra


def _enc_yajilin(h, w, problem, extra):
    vals = []
    for v in _flat(problem, h, w):
        if v == "..":
            vals.append(None)
        elif v == "??":
            vals.append((0, HATENA))
        elif isinstance(v, str) and len(v) >= 2 and v[0] in _YAJ_DIR_INV and re.match(r"^\d+$", v[1:]):
            vals.append((_YAJ_DIR_INV[v[0]], int(v[1:])))
        else:
            raise ValueError("bad yajilin cell %r" % (v,))
    return encode_arrow_number16(vals)


def _dec_rooms_only(h, w, body, strict):
    vert, horiz, i = decode_border(body, h, w, strict)
    _done(body, i, strict)
    rooms, rid, red = rooms_from_borders(h, w, vert, horiz)
    extra = {"room_id": rid}
    if red:
        extra["redundant_border"] = True
    return rooms, extra


def _enc_rooms_only(h, w, problem, extra):
    rid = room_id_grid(h, w, problem)
    return encode_border(*borders_from_room_ids(h, w, rid))


def _dec_heyawake(h, w, body, strict):
    vert, horiz, i = decode_border(body, h, w, strict)
    rooms, rid, red = rooms_from_borders(h, w, vert, horiz)
    vals, i = decode_room_number16(body, len(rooms), strict, start=i)
    _done(body, i, strict)
    extra = {"room_id": rid}
    if red:
        extra["redundant_border"] = True
    return (rooms, [(-1 if v == EMPTY else v) for v in vals]), extra


def _enc_heyawake(h, w, problem, extra):
    rooms, clues = problem
    if len(rooms) != len(clues):
        raise ValueError("rooms and clues differ in length")
    rid = room_id_grid(h, w, rooms)
    order = sorted(range(len(rooms)), key=lambda k: min(rooms[k]))
    vals = []
    for k in order:
        if clues[k] < -1:
            raise ValueError("bad heyawake clue %r" % (clues[k],))
        vals.append(EMPTY if clues[k] == -1 else clues[k])
    return encode_border(*borders_from_room_ids(h, w, rid)) + encode_number16(vals)


def _dec_compass(h, w, body, strict):
    vals, i = decode_compass(body, h * w, strict)
    _done(body, i, strict)
    out = []
    for c, v in enumerate(vals):
        if v is not None:
            up, down, left, right = v
            out.append((c // w, c % w, up, left, down, right))
    return out, {}


def _enc_compass(h, w, problem, extra):
    vals = [None] * (h * w)
    for (y, x, up, left, down, right) in problem:
        if not (0 <= y < h and 0 <= x < w):
            raise ValueError("compass cell (%r, %r) outside the board" % (y, x))
        if vals[y * w + x] is not None:
            raise ValueError("two compasses in cell (%r, %r)" % (y, x))
        for q in (up, left, down, right):
            if q < -1:
                raise ValueError("bad compass number %r" % (q,))
        vals[y * w + x] = [up, down, left, right]
    return encode_compass(vals)


def _dec_star_battle(h, w, body, strict):
    parts = body.split("/")
    if len(parts) < 2:
        if strict or not parts or parts[0] == "":
            raise PzprError("starbattle body must be '<stars>/<borders>'")
        parts = [parts[0], ""]
    if len(parts) > 2 and strict:
        raise PzprError("too many '/' in starbattle body")
    if not re.match(r"^\d+$", parts[0]):
        raise PzprError("star count %r is not a number" % (parts[0],))
    k = int(parts[0])
    vert, horiz, i = decode_border(parts[1], h, w, strict)
    _done(parts[1], i, strict)
    rooms, rid, red = rooms_from_borders(h, w, vert, horiz)
    extra = {"k": k, "rooms": rooms}
    if red:
        extra["redundant_border"] = True
    return rid, extra


def _enc_star_battle(h, w, problem, extra):
    if "k" not in extra:
        raise ValueError("star_battle needs k=<number of stars>")
    if problem and isinstance(problem[0][0], (tuple, list)):
        rid = room_id_grid(h, w, problem)
    else:
        _flat(problem, h, w)
        rid = problem
    return "%d/%s" % (extra["k"], encode_border(*borders_from_room_ids(h, w, rid)))


def _dec_aquarium(h, w, body, strict):
    vert, horiz, i = decode_border(body, h, w, strict)
    rooms, rid, red = rooms_from_borders(h, w, vert, horiz)
    vals, i = decode_number16(body, w + h, strict, start=i, wide=False, what="outside cell")
    _done(body, i, strict)
    if HATENA in vals:
        raise Unrepresentable("aquarium '?' clue")
    clue_col = [(-1 if v == EMPTY else v) for v in vals[:w]]
    clue_row = [(-1 if v == EMPTY else v) for v in vals[w:]]
    extra = {"room_id": rid}
    if red:
        extra["redundant_border"] = True
    return (rooms, clue_row, clue_col), extra


def _enc_aquarium(h, w, problem, extra):
    rooms, clue_row, clue_col = problem
    if len(clue_row) != h or len(clue_col) != w:
        raise ValueError("aquarium clue lists have the wrong length")
    rid = room_id_grid(h, w, rooms)
    vals = []
    for v in list(clue_col) + list(clue_row):
        if v < -1:
            raise ValueError("bad aquarium clue %r" % (v,))
        vals.append(EMPTY if v == -1 else v)
    return encode_border(*borders_from_room_ids(h, w, rid)) + encode_number16(vals, wide=False)


_DEC = {
    "nurikabe": _dec_nurikabe,
    "masyu": _dec_masyu,
    "slitherlink": _dec_slitherlink,
    "sudoku": _dec_sudoku,
    "nurimisaki": _dec_nurimisaki,
    "yajilin": _dec_yajilin,
    "heyawake": _dec_heyawake,
    "lits": _dec_rooms_only,
    "norinori": _dec_rooms_only,
    "compass": _dec_compass,
    "star_battle": _dec_star_battle,
    "aquarium": _dec_aquarium,
}

_ENC = {
    "nurikabe": _enc_nurikabe,
    "masyu": _enc_masyu,
    "slitherlink": _enc_slitherlink,
    "sudoku": _enc_sudoku,
    "nurimisaki": _enc_nurimisaki,
    "yajilin": _enc_yajilin,
    "heyawake": _enc_heyawake,
    "lits": _enc_rooms_only,
    "norinori": _enc_rooms_only,
    "compass": _enc_compass,
    "star_battle": _enc_star_battle,
    "aquarium": _enc_aquarium,
}


def decode_body(module_name, height, width, body, strict=True):
    """-> (problem, extra)"""
    if module_name not in _DEC:
        raise ValueError("unsupported puzzle module %r" % (module_name,))
    if height < 1 or width < 1:
        raise PzprError("board size %d x %d" % (height, width))
    return _DEC[module_name](height, width, body, strict)


def decode(module_name, url, strict=True):
    """-> dict(height, width, problem, extra).  Raises PzprError (ValueError) on malformed URLs or
    bodies and Unrepresentable (ValueError) when the board has no cspuz counterpart."""
    if module_name not in _DEC:
        raise ValueError("unsupported puzzle module %r" % (module_name,))
    d = parse_url(url)
    if d["pid"] not in PID[module_name][1]:
        raise PzprError("URL is for %r, not for %s" % (d["pid"], module_name))
    height, width = d["rows"], d["cols"]
    problem, extra = decode_body(module_name, height, width, d["body"], strict=strict)
    extra = dict(extra)
    extra["pid"] = d["pid"]
    if d["pflag"] is not None:
        extra["pflag"] = d["pflag"]
    return dict(height=height, width=width, problem=problem, extra=extra)


def encode_body(module_name, height, width, problem, **extra):
    if module_name not in _ENC:
        raise ValueError("unsupported puzzle module %r" % (module_name,))
    return _ENC[module_name](height, width, problem, extra)


def encode(module_name, height, width, problem, prefix=DEFAULT_PREFIX, **extra):
    """the URL pzprjs writes for the board (star_battle: pass k=<stars>; problem may be a block-id
    grid or a room list).  Room lists may be given in any order."""
    body = encode_body(module_name, height, width, problem, **extra)
    return "%s%s/%d/%d/%s" % (prefix, PID[module_name][0], width, height, body)


# ----------------------------------------------------------------------------------------------
# recorded URL / problem pairs found in the cspuz repository
# ----------------------------------------------------------------------------------------------


def _rooms_of_strings(rows):
    return rooms_from_id_grid(len(rows), len(rows[0]), [list(r) for r in rows])


def _rect_rooms(problem):
    rooms, clues = [], []
    for (y0, x0, y1, x1, n) in problem:
        rooms.append([(y, x) for y in range(y0, y1) for x in range(x0, x1)])
        clues.append(n)
    order = sorted(range(len(rooms)), key=lambda k: min(rooms[k]))
    return [sorted(rooms[k]) for k in order], [clues[k] for k in order]


def recorded_pairs():
    """list of (source, module, url, height, width, problem, extra, canonical) ; canonical = True
    when the recorded URL text is what pzprjs itself writes for the board"""
    P = []
    nurikabe = [[0] * 10 for _ in range(10)]
    for (y, x, n) in [(2, 4, 7), (3, 3, 7), (3, 8, 9), (4, 7, 7), (6, 2, 7), (6, 6, 7), (7, 5, 7)]:
        nurikabe[y][x] = n
    P.append(("tests/test_serializer.py::test_nurikabe, cspuz/puzzle/nurikabe.py main", "nurikabe",
              "https://puzz.link/p?nurikabe/10/10/zj7n7j9n7t7i7n7zj", 10, 10, nurikabe, {}, True))
    masyu = [
        [0, 0, 0, 0, 2, 0, 0, 0, 0, 0],
        [0, 0, 0, 0, 0, 0, 0, 0, 0, 1],
        [0, 2, 0, 0, 0, 0, 0, 0, 2, 0],
        [1, 0, 2, 0, 0, 1, 0, 1, 0, 0],
        [0, 0, 0, 0, 0, 0, 2, 0, 0, 0],
        [0, 0, 0, 0, 0, 0, 0, 0, 0, 0],
        [0, 0, 0, 1, 0, 1, 0, 1, 0, 0],
        [0, 0, 0, 2, 0, 0, 0, 0, 0, 0],
        [0, 2, 0, 0, 0, 0, 0, 1, 0, 0],
        [0, 0, 0, 0, 1, 0, 0, 1, 0, 0],
    ]
    P.append(("tests/test_serializer.py::test_masyu, cspuz/puzzle/masyu.py _main", "masyu",
              "https://puzz.link/p?masyu/10/10/0600003i06b1300600000a30600i090330", 10, 10, masyu, {}, True))
    norinori = [
        [(0, 0), (0, 1)],
        [(0, 2), (0, 3), (0, 4), (1, 0), (1, 1), (1, 2), (1, 3), (2, 1), (3, 1)],
        [(0, 5), (1, 5)],
        [(1, 4), (2, 2), (2, 3), (2, 4), (2, 5)],
        [(2, 0), (3, 0)],
        [(3, 2), (3, 3), (3, 4), (4, 4)],
        [(3, 5), (4, 5), (5, 5)],
        [(4, 0), (4, 1), (4, 2), (4, 3), (5, 3), (5, 4)],
        [(5, 0), (5, 1), (5, 2)],
    ]
    P.append(("tests/test_serializer.py::test_norinori", "norinori",
              "https://puzz.link/p?norinori/6/6/93op35pb9vpq", 6, 6, norinori, {}, True))
    P.append(("cspuz/puzzle/norinori.py _main (block strings)", "norinori",
              "https://puzz.link/p?norinori/6/6/93op35pb9vpq", 6, 6,
              _rooms_of_strings(["001112", "111132", "413333", "415556", "777756", "888776"]), {}, True))
    slither = [[3, -1, -1, -1], [3, -1, -1, -1], [-1, 2, 2, -1], [-1, 2, -1, 1]]
    P.append(("cspuz/puzzle/slitherlink.py _main (original pzv URL)", "slitherlink",
              "http://pzv.jp/p.html?slither/4/4/dgdh2c7b", 4, 4, slither, {}, True))
    P.append(("tests/test_serializer.py::test_slitherlink (URL rewritten by cspuz)", "slitherlink",
              "https://puzz.link/p?slither/4/4/dgdh2c71", 4, 4, slither, {}, False))
    sudoku = [
        [0, 0, 0, 0, 6, 0, 0, 5, 3],
        [0, 0, 0, 0, 0, 3, 2, 0, 1],
        [0, 1, 3, 9, 0, 0, 0, 0, 0],
        [0, 8, 0, 0, 0, 6, 7, 3, 0],
        [0, 4, 0, 0, 0, 0, 0, 1, 0],
        [0, 6, 2, 4, 0, 0, 0, 8, 0],
        [0, 0, 0, 0, 0, 2, 8, 9, 0],
        [8, 0, 7, 5, 0, 0, 0, 0, 0],
        [4, 5, 0, 0, 8, 0, 0, 0, 0],
    ]
    P.append(("docs/ja/tutorial2.md", "sudoku",
              "http://pzv.jp/p.html?sudoku/9/9/j6h53k32g1g139l8i673h4k1h624i8l289g8g75k45h8j", 9, 9, sudoku, {}, True))
    heyawake = _rect_rooms([
        (0, 0, 1, 2, -1), (0, 2, 2, 4, 2), (0, 4, 1, 6, -1), (1, 0, 2, 2, -1), (1, 4, 3, 6, -1), (2, 0, 4, 3, 3),
        (2, 3, 4, 4, -1), (3, 4, 4, 6, -1), (4, 0, 6, 2, -1), (4, 2, 6, 4, -1), (4, 4, 6, 6, -1),
    ])
    P.append(("cspuz/puzzle/heyawake.py _main (original pzv URL)", "heyawake",
              "http://pzv.jp/p.html?heyawake/6/6/aa66aapv0fu0g2i3k", 6, 6, heyawake, {}, True))
    P.append(("tests/test_serializer.py::test_rooms (body d4pk, 4 rows x 3 columns)", "lits",
              "https://puzz.link/p?lits/3/4/d4pk", 4, 3,
              [[(0, 0), (0, 1)], [(0, 2), (1, 1), (1, 2)], [(1, 0), (2, 0), (3, 0), (3, 1)], [(2, 1), (2, 2), (3, 2)]],
              {}, True))
    P.append(("tests/test_serializer.py::test_valued_rooms (body b8p6120g, 4 rows x 3 columns)", "heyawake",
              "https://puzz.link/p?heyawake/3/4/b8p6120g", 4, 3,
              ([[(0, 0), (0, 1)], [(0, 2), (1, 2), (2, 1), (2, 2)], [(1, 0), (1, 1), (2, 0), (3, 0)], [(3, 1), (3, 2)]],
               [1, 2, 0, -1]), {}, True))
    P.append(("tests/puzzle/test_compass.py", "compass",
              "https://puzz.link/p?compass/4/5/k1.23k..6.g4..5l", 5, 4,
              [(1, 1, 1, 2, -1, 3), (2, 3, -1, 6, -1, -1), (3, 1, 4, -1, -1, 5)], {}, True))
    P.append(("cspuz/puzzle/compass.py _main", "compass",
              "https://puzz.link/p?compass/5/5/m..1.i25.1g53..i1..1m", 5, 5,
              [(1, 2, -1, 1, -1, -1), (2, 1, 2, -1, 5, 1), (2, 3, 5, -1, 3, -1), (3, 2, 1, -1, -1, 1)], {}, True))
    star = [
        [0, 0, 0, 0, 1, 1],
        [0, 2, 3, 0, 1, 1],
        [2, 2, 3, 3, 3, 1],
        [2, 1, 1, 1, 1, 1],
        [2, 4, 4, 1, 4, 5],
        [2, 2, 4, 4, 4, 5],
    ]
    P.append(("tests/puzzle/test_star_battle.py, cspuz/puzzle/star_battle.py _main", "star_battle",
              "http://pzv.jp/p.html?starbattle/6/6/1/2u9gn9c9jpmk", 6, 6, star, {"k": 1}, True))
    return P


# URLs recorded without the problem value (outputs of cspuz's own serializers that the benchmark
# pins); used for text round trips decode -> encode only
RECORDED_URLS = {
    "masyu": [
        "https://puzz.link/p?masyu/10/10/2051020b00010300i0i50020002696020i",
        "https://puzz.link/p?masyu/10/10/00266000600220603230i09000c00169i0",
        "https://puzz.link/p?masyu/10/10/0023i30090366000080i1326000021160i",
        "https://puzz.link/p?masyu/10/10/063o03000003oil032813601000ia9i030",
        "https://puzz.link/p?masyu/10/10/210030390600409i0182i00200010i0i20",
        "https://puzz.link/p?masyu/10/10/29602f009230300003369i20000i0306i0",
        "https://puzz.link/p?masyu/10/10/0063399k90i020i060k000029i0106300i",
        "https://puzz.link/p?masyu/10/10/31020ii0902100000006020391i1900i20",
        "https://puzz.link/p?masyu/10/10/1030602002130303i1203000000f3i0b00",
        "https://puzz.link/p?masyu/10/10/j0000i030i060007k6c000600i00006b00",
    ],
    "nurimisaki": [
        "https://puzz.link/p?nurimisaki/10/10/g.i.w.j.i.h.k.h.g.y.h.i.i.h.g.h.n.k",
        "https://puzz.link/p?nurimisaki/10/10/h.g.g.w.g.q.h.g.h.m.h.n.m.h.q.h.g.k",
        "https://puzz.link/p?nurimisaki/10/10/h.n.j.m.j.zh.h.j.n.m.m.l.g.k",
        "https://puzz.link/p?nurimisaki/10/10/w.i.j.h.h.h.m.l.j.r.g.i.j.h.h.s.",
        "https://puzz.link/p?nurimisaki/10/10/h.l.g.j.k.g.j.g.g.h.w.h.n.g.g.g.h.g.z.g",
        "https://puzz.link/p?nurimisaki/10/10/i.k.j.l.k.g.h.r.g.j.i.i.m.u.h.i.n",
        "https://puzz.link/p?nurimisaki/10/10/g.n.l.l.j.h.i.r.l.j.q.g.l.k.l.j",
        "https://puzz.link/p?nurimisaki/10/10/s.g.k.s.g.g.p.g.i.p.m.h.g.s.h.h",
        "https://puzz.link/p?nurimisaki/10/10/j.r.n.h.i.i.h.g.z.g.g.g.g.p.j.p.g",
        "https://puzz.link/p?nurimisaki/10/10/g.g.p.g.h.q.h.n.k.l.r.j.n.n.m",
    ],
    "sudoku": [
        "https://puzz.link/p?sudoku/9/9/l768g3g2g7o4h1j2h43h4g5h92h6j7h5o5g9g1g824l",
        "https://puzz.link/p?sudoku/9/9/i1k7j659h6j7j13j8g5g7g8g4g6j42j2j7h372j1k5i",
        "https://puzz.link/p?sudoku/9/9/i1g9k9j61j2h3i6h3g47j9j78g5h9i3h8j51j4k3g7i",
        "https://puzz.link/p?sudoku/9/9/h72j6g1g93q4h4i7g53j6j98g4i2h3q54g1g2j87h",
        "https://puzz.link/p?sudoku/9/9/g3m69i4l5g27h71m9g81g54g2m95h34g8l9i51m6g",
        "https://puzz.link/p?sudoku/9/9/2h4i8k15h6g7j5g1g2h3l4i2l6h9g1g2j6g6h98k4i7h5",
        "https://puzz.link/p?sudoku/9/9/4p8g2g9h21h6i8i4i5h53i47h8i9i7i3h46h5g4g7p5",
        "https://puzz.link/p?sudoku/9/9/6g8h4h9m83i6j5k2g7h5h7h4h1g4k5j9i84m1h5h2g6",
        "https://puzz.link/p?sudoku/9/9/7l3g16g9i2j65j3g6l4h8g9h7l1g6j25j8i3g65g7l2",
        "https://puzz.link/p?sudoku/9/9/n5k37g8g6g7m3h7g4i59168i9g5h2m5g6g9g82k2n",
    ],
}


def _norm(module, problem):
    """comparison form (room lists canonical, heyawake clues following their rooms)"""
    if module in ("lits", "norinori"):
        return canonical_rooms(problem)
    if module == "heyawake":
        rooms, clues = problem
        rs = [sorted(r) for r in rooms]
        order = sorted(range(len(rs)), key=lambda k: rs[k][0])
        return [rs[k] for k in order], [clues[k] for k in order]
    if module == "aquarium":
        rooms, cr, cc = problem
        return canonical_rooms(rooms), list(cr), list(cc)
    if module == "star_battle":
        return rooms_from_id_grid(len(problem), len(problem[0]), problem)
    if module == "compass":
        return sorted(tuple(t) for t in problem)
    return [list(r) for r in problem]


def selftest():
    """decode every recorded URL/problem pair, re-encode it; -> list of mismatch descriptions"""
    bad = []
    for (src, module, url, h, w, problem, extra, canonical) in recorded_pairs():
        try:
            d = decode(module, url)
        except Exception as e:  # noqa: BLE001
            bad.append("%s: decode(%s, %s) raised %r" % (src, module, url, e))
            continue
        if (d["height"], d["width"]) != (h, w):
            bad.append("%s: size %r, recorded %r" % (src, (d["height"], d["width"]), (h, w)))
        if _norm(module, d["problem"]) != _norm(module, problem):
            bad.append("%s: decode(%s) = %r, recorded %r" % (src, url, d["problem"], problem))
        for k, v in extra.items():
            if d["extra"].get(k) != v:
                bad.append("%s: extra[%s] = %r, recorded %r" % (src, k, d["extra"].get(k), v))
        try:
            prefix = url[: url.index("?") + 1]
            u2 = encode(module, h, w, problem, prefix=prefix, **extra)
        except Exception as e:  # noqa: BLE001
            bad.append("%s: encode raised %r" % (src, e))
            continue
        if canonical and u2 != url:
            bad.append("%s: encode gives %s, recorded %s" % (src, u2, url))
        if not canonical and _norm(module, decode(module, u2)["problem"]) != _norm(module, problem):
            bad.append("%s: encode/decode round trip differs" % src)
    for module, urls in RECORDED_URLS.items():
        for url in urls:
            try:
                d = decode(module, url)
                u2 = encode(module, d["height"], d["width"], d["problem"])
            except Exception as e:  # noqa: BLE001
                bad.append("bench/generator.py %s: %r" % (url, e))
                continue
            if u2 != url:
                bad.append("bench/generator.py: %s re-encodes as %s" % (url, u2))
    return bad


if __name__ == "__main__":
    _bad = selftest()
    _n = len(recorded_pairs()) + sum(len(v) for v in RECORDED_URLS.values())
    for _line in _bad:
        print("MISMATCH", _line)
    print("pzpr selftest: %d recorded items, %d mismatches; supported: %s" % (_n, len(_bad), ", ".join(SUPPORTED)))
    raise SystemExit(1 if _bad else 0)
