"""Norinori oracle, written from the published rules (Nikoli / puzz.link):

  1. Every room (region bounded by thick lines) contains exactly two black cells.
  2. Every black cell is orthogonally adjacent to exactly one other black cell, i.e. the black cells form
     dominoes (1x2 blocks) that do not touch each other by an edge; a domino may straddle a room border.

Problem format of the real solver: solve_norinori(height, width, blocks), blocks = list of rooms, each a list
of (y, x) cells.  The published puzzle always partitions the whole board into rooms, and the rooms are
orthogonally connected; instances with disconnected rooms are generated as well (the rules do not depend on
connectivity), but every generated instance partitions the whole board.  Answer: is_black[y, x].
"""

MODULE = "cspuz.puzzle.norinori"


def _blocks(inst):
    return [[(y, x) for y, x in block] for block in inst["blocks"]]


def run_real(mod, inst):
    h, w = inst["height"], inst["width"]
    is_sat, is_black = mod.solve_norinori(h, w, _blocks(inst))
    if not is_sat:
        return False, {}
    return True, {(y, x): is_black[y, x].sol for y in range(h) for x in range(w)}


def _black_neighbours(h, w, black, y, x):
    n = 0
    for ny, nx in ((y - 1, x), (y + 1, x), (y, x - 1), (y, x + 1)):
        if 0 <= ny < h and 0 <= nx < w and black[ny][nx]:
            n += 1
    return n


def check(h, w, blocks, black):
    for block in blocks:
        if sum(1 for (y, x) in block if black[y][x]) != 2:
            return False
    for y in range(h):
        for x in range(w):
            if black[y][x] and _black_neighbours(h, w, black, y, x) != 1:
                return False
    return True


def solutions(inst, limit=100000):
    h, w = inst["height"], inst["width"]
    blocks = _blocks(inst)
    bid = {}
    for i, block in enumerate(blocks):
        for c in block:
            assert c not in bid
            bid[c] = i
    assert len(bid) == h * w
    black = [[None] * w for _ in range(h)]
    count = [0] * len(blocks)
    left = [len(b) for b in blocks]
    out = []

    def settled_bad(y, x):
        # all four neighbours of (y, x) are decided: a black cell must have exactly one black neighbour
        return black[y][x] and _black_neighbours(h, w, black, y, x) != 1

    def rec(k):
        if len(out) >= limit:
            return
        if k == h * w:
            if check(h, w, blocks, black):
                out.append({(y, x): black[y][x] for y in range(h) for x in range(w)})
            return
        y, x = divmod(k, w)
        b = bid[(y, x)]
        left[b] -= 1
        for v in (False, True):
            if v and count[b] + 1 > 2:
                continue
            if not v and count[b] + left[b] < 2:
                continue
            black[y][x] = v
            count[b] += v
            ok = True
            if y > 0 and settled_bad(y - 1, x):
                ok = False
            if ok and v and _black_neighbours(h, w, black, y, x) > 1:
                ok = False
            if ok:
                rec(k + 1)
            count[b] -= v
            black[y][x] = None
        left[b] += 1

    rec(0)
    return out


def _connected(block):
    cells = set(block)
    if not cells:
        return True
    start = next(iter(cells))
    seen = {start}
    stack = [start]
    while stack:
        y, x = stack.pop()
        for n in ((y - 1, x), (y + 1, x), (y, x - 1), (y, x + 1)):
            if n in cells and n not in seen:
                seen.add(n)
                stack.append(n)
    return len(seen) == len(cells)


def classify(inst):
    h, w = inst["height"], inst["width"]
    shape = "1xN board" if h == 1 or w == 1 else ("square" if h == w else ("h>w" if h > w else "h<w"))
    blocks = _blocks(inst)
    tags = [shape]
    if len(blocks) == 1:
        tags.append("single room")
    if any(len(b) < 2 for b in blocks):
        tags.append("room smaller than 2")
    if not all(_connected(b) for b in blocks):
        tags.append("disconnected room")
    return ", ".join(tags)


def _partition(h, w, k, rnd, connected=True):
    cells = [(y, x) for y in range(h) for x in range(w)]
    k = max(1, min(k, len(cells)))
    if not connected:
        owner = {c: rnd.randrange(k) for c in cells}
        for i, c in enumerate(rnd.sample(cells, k)):
            owner[c] = i
    else:
        owner = {c: i for i, c in enumerate(rnd.sample(cells, k))}
        while len(owner) < len(cells):
            frontier = []
            for (y, x), i in owner.items():
                for n in ((y - 1, x), (y + 1, x), (y, x - 1), (y, x + 1)):
                    if 0 <= n[0] < h and 0 <= n[1] < w and n not in owner:
                        frontier.append((n, i))
            n, i = rnd.choice(frontier)
            owner[n] = i
    blocks = [[] for _ in range(k)]
    for c in cells:
        blocks[owner[c]].append([c[0], c[1]])
    return blocks


_SHAPES_QUICK = [(1, 2), (1, 3), (1, 5), (1, 8), (4, 1), (2, 2), (2, 3), (3, 2), (3, 3), (2, 5), (4, 2), (3, 4), (4, 3), (4, 4)]
_SHAPES_MORE = [(1, 4), (1, 11), (7, 1), (2, 4), (5, 2), (2, 6), (3, 5), (5, 3), (4, 5)]


def instances(tier, rnd):
    quick = tier == "quick"
    yield dict(height=1, width=1, blocks=[[[0, 0]]])
    yield dict(height=1, width=2, blocks=[[[0, 0], [0, 1]]])
    yield dict(height=2, width=1, blocks=[[[0, 0], [1, 0]]])
    yield dict(height=1, width=2, blocks=[[[0, 0]], [[0, 1]]])
    yield dict(height=1, width=3, blocks=[[[0, 0], [0, 1], [0, 2]]])
    yield dict(height=1, width=4, blocks=[[[0, 0], [0, 1]], [[0, 2], [0, 3]]])
    yield dict(height=1, width=5, blocks=[[[0, 0], [0, 1]], [[0, 2]], [[0, 3], [0, 4]]])
    yield dict(height=1, width=5, blocks=[[[0, 0], [0, 1], [0, 2]], [[0, 3], [0, 4]]])
    yield dict(height=2, width=2, blocks=[[[0, 0], [0, 1], [1, 0], [1, 1]]])
    yield dict(height=2, width=2, blocks=[[[0, 0], [1, 1]], [[0, 1], [1, 0]]])
    yield dict(height=2, width=2, blocks=[[[0, 0], [1, 0]], [[0, 1], [1, 1]]])
    yield dict(height=3, width=3, blocks=[[[y, x] for y in range(3) for x in range(3)]])
    # a domino straddling a room border: rooms {a a b b} on 1x4 -> unsat, rooms of a 2x3 board split in columns
    yield dict(height=2, width=3, blocks=[[[0, 0], [1, 0]], [[0, 1], [1, 1]], [[0, 2], [1, 2]]])
    yield dict(height=3, width=4, blocks=[[[0, 0], [0, 1], [1, 0]], [[0, 2], [0, 3], [1, 3]], [[1, 1], [1, 2], [2, 1], [2, 2]],
                                          [[2, 0]], [[2, 3]]])
    shapes = _SHAPES_QUICK if quick else _SHAPES_QUICK + _SHAPES_MORE
    want = 8 if quick else 90
    for (h, w) in shapes:
        n_sat = n_unsat = 0
        tries = 0
        while n_sat + n_unsat < want and tries < want * 30:
            tries += 1
            kmax = max(1, (h * w) // 3)
            blocks = _partition(h, w, rnd.randint(1, kmax), rnd, connected=rnd.random() < 0.85)
            inst = dict(height=h, width=w, blocks=blocks)
            sat = bool(solutions(inst, limit=1))
            # keep roughly two satisfiable instances for every unsatisfiable one (where the shape allows)
            if sat and n_sat < (want * 2 + 2) // 3:
                n_sat += 1
                yield inst
            elif not sat and n_unsat < want // 3:
                n_unsat += 1
                yield inst


# The module's own example (_main(), https://puzsq.sakura.ne.jp/main/puzzle_play.php?pid=7919; the same rooms are
# used in tests/test_serializer.py).  The repository records no answer; the answer below was computed with this
# oracle (exhaustive search, exactly one legal grid), every rule re-checked by hand on it, and validate()
# cross-checks it against the real solver.
_EX_ROOMS = ["001112", "111132", "413333", "415556", "777756", "888776"]
_EX_ANSWER = ["##.#.#", "...#.#", "#.#.#.", "#.#.#.", "...#.#", "##.#.#"]


def _example(room_rows, answer_rows):
    h, w = len(room_rows), len(room_rows[0])
    rooms = {}
    for y in range(h):
        for x in range(w):
            rooms.setdefault(room_rows[y][x], []).append([y, x])
    inst = dict(height=h, width=w, blocks=list(rooms.values()))
    return inst, {(y, x): answer_rows[y][x] == "#" for y in range(h) for x in range(w)}


EXAMPLES = [
    _example(_EX_ROOMS, _EX_ANSWER),
    # 1x2 board, one room: both cells are black (one domino)
    _example(["aa"], ["##"]),
]
