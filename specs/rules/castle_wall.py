"""Castle Wall oracle (puzz.link "Castle Wall" rules).

Rules: draw ONE closed loop (through cell centres, horizontal/vertical moves, no crossing or branching)
that does not pass through clue cells (walls).  A white clue cell lies inside the loop, a black one
outside, a gray one may be either.  A clue "arrow + number" gives the number of unit loop segments
(cell centre to neighbouring cell centre) that lie in the arrow's direction between the clue and the
board edge, in the clue's own row (for < >) or column (for ^ v), i.e. segments parallel to the arrow.
Library convention: the empty set of segments also counts as a loop (everything is then outside).

Problem format of solve_castle_wall(height, width, arrow, inside): arrow[y][x] is ".." (ordinary cell),
<dir><number> with dir one of ^ v < > , or any other two-character string such as "??" (clue cell
without a number); inside[y][x] is True (white: inside), False (black: outside) or None (gray).  The
module's generator only ever sets inside[y][x] for clue cells, so the instances do the same.
Answer: BoolGridFrame(height-1, width-1): horizontal[y, x] joins cells (y,x)-(y,x+1); vertical[y, x]
joins (y,x)-(y+1,x).
"""
import json

MODULE = "cspuz.puzzle.castle_wall"

_CYCLES = {}


def all_loops(P, Q):
    """all loops on a P x Q lattice of points: list of (H, V) with H[y][x] (P x (Q-1)) the segment
    (y,x)-(y,x+1) and V[y][x] ((P-1) x Q) the segment (y,x)-(y+1,x); includes the empty loop."""
    if (P, Q) in _CYCLES:
        return _CYCLES[(P, Q)]
    res = []

    def blank():
        return [[0] * (Q - 1) for _ in range(P)], [[0] * Q for _ in range(P - 1)]

    res.append(blank())

    def emit(path):
        H, V = blank()
        for i in range(len(path)):
            (y1, x1), (y2, x2) = path[i], path[(i + 1) % len(path)]
            if y1 == y2:
                H[y1][min(x1, x2)] = 1
            else:
                V[min(y1, y2)][x1] = 1
        res.append((H, V))

    # every simple cycle has a unique smallest point s (row-major); its two neighbours on the cycle
    # are then the point to the right and the point below.  Walk from s to the right, return from below.
    for sy in range(P - 1):
        for sx in range(Q - 1):
            s = (sy, sx)
            goal = (sy + 1, sx)
            seen = {s, (sy, sx + 1)}
            path = [s, (sy, sx + 1)]

            def dfs():
                y, x = path[-1]
                for ny, nx in ((y, x + 1), (y + 1, x), (y, x - 1), (y - 1, x)):
                    if not (0 <= ny < P and 0 <= nx < Q):
                        continue
                    if (ny, nx) <= s or (ny, nx) in seen:
                        continue
                    path.append((ny, nx))
                    if (ny, nx) == goal:
                        emit(path)
                    else:
                        seen.add((ny, nx))
                        dfs()
                        seen.discard((ny, nx))
                    path.pop()

            dfs()
    _CYCLES[(P, Q)] = res
    return res


def _dims(inst):
    return inst["height"], inst["width"]


def run_real(mod, inst):
    h, w = _dims(inst)
    is_sat, gf = mod.solve_castle_wall(h, w, inst["arrow"], inst["inside"])
    out = {}
    if is_sat:
        for y in range(h):
            for x in range(w - 1):
                out[("h", y, x)] = gf.horizontal[y, x].sol
        for y in range(h - 1):
            for x in range(w):
                out[("v", y, x)] = gf.vertical[y, x].sol
    return is_sat, out


def degree(h, w, H, V, y, x):
    d = 0
    if x > 0 and H[y][x - 1]:
        d += 1
    if x < w - 1 and H[y][x]:
        d += 1
    if y > 0 and V[y - 1][x]:
        d += 1
    if y < h - 1 and V[y][x]:
        d += 1
    return d


def outside_squares(h, w, H, V):
    """The loop is a closed curve on the lattice of cell centres.  The unit squares between four
    neighbouring centres, (fy, fx) with corners (fy,fx),(fy,fx+1),(fy+1,fx),(fy+1,fx+1), are flooded
    from the unbounded region; two squares (or a border square and the unbounded region) communicate
    unless a loop segment separates them.  Returns the set of squares reachable from outside."""
    fh, fw = h - 1, w - 1
    out = set()
    stack = []

    def push(fy, fx):
        if (fy, fx) not in out:
            out.add((fy, fx))
            stack.append((fy, fx))

    for fx in range(fw):
        if fh > 0:
            if not H[0][fx]:
                push(0, fx)
            if not H[h - 1][fx]:
                push(fh - 1, fx)
    for fy in range(fh):
        if fw > 0:
            if not V[fy][0]:
                push(fy, 0)
            if not V[fy][w - 1]:
                push(fy, fw - 1)
    while stack:
        fy, fx = stack.pop()
        if fy > 0 and not H[fy][fx]:
            push(fy - 1, fx)
        if fy < fh - 1 and not H[fy + 1][fx]:
            push(fy + 1, fx)
        if fx > 0 and not V[fy][fx]:
            push(fy, fx - 1)
        if fx < fw - 1 and not V[fy][fx + 1]:
            push(fy, fx + 1)
    return out


def is_inside(h, w, H, V, out, y, x):
    """is the centre of cell (y, x), which is not on the loop, enclosed by the loop?"""
    for fy, fx in ((y - 1, x - 1), (y - 1, x), (y, x - 1), (y, x)):
        if not (0 <= fy < h - 1 and 0 <= fx < w - 1):
            return False          # the cell is on the border of the board: touches the unbounded region
        if (fy, fx) in out:
            return False
    return True


def segments_seen(h, w, H, V, y, x, d):
    if d == "^":
        return sum(V[yy][x] for yy in range(0, y))
    if d == "v":
        return sum(V[yy][x] for yy in range(y, h - 1))
    if d == "<":
        return sum(H[y][xx] for xx in range(0, x))
    if d == ">":
        return sum(H[y][xx] for xx in range(x, w - 1))
    raise ValueError(d)


def obeys(inst, H, V):
    h, w = _dims(inst)
    a, ins = inst["arrow"], inst["inside"]
    out = None
    for y in range(h):
        for x in range(w):
            c = a[y][x]
            if c == "..":
                continue
            if degree(h, w, H, V, y, x):
                return False
            if c[0] in "^v<>":
                if segments_seen(h, w, H, V, y, x, c[0]) != int(c[1:]):
                    return False
            if ins[y][x] is not None:
                if out is None:
                    out = outside_squares(h, w, H, V)
                if is_inside(h, w, H, V, out, y, x) != ins[y][x]:
                    return False
    return True


def _as_dict(H, V):
    d = {}
    for y, row in enumerate(H):
        for x, v in enumerate(row):
            d[("h", y, x)] = bool(v)
    for y, row in enumerate(V):
        for x, v in enumerate(row):
            d[("v", y, x)] = bool(v)
    return d


def solutions(inst):
    h, w = _dims(inst)
    return [_as_dict(H, V) for (H, V) in all_loops(h, w) if obeys(inst, H, V)]


def _points_off_board(inst):
    h, w = _dims(inst)
    a = inst["arrow"]
    for y in range(h):
        for x in range(w):
            c = a[y][x]
            if (c[0] == "^" and y == 0) or (c[0] == "v" and y == h - 1) or \
                    (c[0] == "<" and x == 0) or (c[0] == ">" and x == w - 1):
                return True
    return False


def classify(inst):
    h, w = _dims(inst)
    if h == 1 and w == 1:
        shape = "1x1 board"
    elif h == 1 or w == 1:
        shape = "1xN board"
    else:
        shape = "square" if h == w else ("h>w" if h > w else "h<w")
    if (h == 1 or w == 1) and any(v is not None for row in inst["inside"] for v in row):
        shape += ", white/black clue"
    if _points_off_board(inst):
        shape += ", arrow on the edge pointing off the board"
    return shape


def _derive(h, w, H, V, rnd, allow_off):
    """a puzzle that has the given loop as one solution"""
    off = [(y, x) for y in range(h) for x in range(w) if degree(h, w, H, V, y, x) == 0]
    out = outside_squares(h, w, H, V)
    a = [[".."] * w for _ in range(h)]
    ins = [[None] * w for _ in range(h)]
    dens = rnd.choice([0.2, 0.4, 0.7, 1.0])
    for (y, x) in off:
        if rnd.random() >= dens:
            continue
        ds = [d for d in "^v<>" if allow_off or not (
            (d == "^" and y == 0) or (d == "v" and y == h - 1) or (d == "<" and x == 0) or (d == ">" and x == w - 1))]
        if not ds or rnd.random() < 0.2:
            a[y][x] = "??"
        else:
            d = rnd.choice(ds)
            a[y][x] = "%s%d" % (d, segments_seen(h, w, H, V, y, x, d))
        if rnd.random() < 0.6:
            ins[y][x] = is_inside(h, w, H, V, out, y, x)
    return a, ins


def _instances(tier, rnd):
    quick = tier == "quick"
    sizes = [(1, 1), (1, 2), (1, 3), (3, 1), (2, 2), (2, 3), (3, 2), (3, 3), (3, 4), (4, 3), (4, 4)]
    if not quick:
        sizes += [(2, 1), (1, 4), (4, 1), (2, 4), (4, 2), (2, 5), (5, 2), (3, 5), (5, 3), (4, 5), (5, 4), (5, 5)]
    per = 10 if quick else 100
    for (h, w) in sizes:
        yield dict(height=h, width=w, arrow=[[".."] * w for _ in range(h)], inside=[[None] * w for _ in range(h)])
        for col in (None, False, True):
            # a single numberless clue in the last cell (gray / black / white)
            a = [[".."] * w for _ in range(h)]
            ins = [[None] * w for _ in range(h)]
            a[h - 1][w - 1] = "??"
            ins[h - 1][w - 1] = col
            yield dict(height=h, width=w, arrow=a, inside=ins)
        if h >= 3 and w >= 3:
            for col in (False, True):
                a = [[".."] * w for _ in range(h)]
                ins = [[None] * w for _ in range(h)]
                a[1][1] = "??"
                ins[1][1] = col
                yield dict(height=h, width=w, arrow=a, inside=ins)
        loops = all_loops(h, w)
        for i in range(per if h * w > 1 else 0):
            H, V = rnd.choice(loops) if i % 6 else loops[0]
            allow_off = (i % 5 == 4)
            a, ins = _derive(h, w, H, V, rnd, allow_off)
            clues = [(y, x) for y in range(h) for x in range(w) if a[y][x] != ".."]
            nums = [(y, x) for (y, x) in clues if a[y][x][0] in "^v<>"]
            mode = i % 4
            if mode == 1 and nums:
                y, x = rnd.choice(nums)
                a[y][x] = a[y][x][0] + str(max(0, int(a[y][x][1:]) + rnd.choice([-1, 1, 1, 2])))
            elif mode == 2 and clues:
                y, x = rnd.choice(clues)
                ins[y][x] = rnd.choice([True, False])
            elif mode == 3 and i % 8 == 3:
                y, x = rnd.randrange(h), rnd.randrange(w)
                if a[y][x] == "..":
                    a[y][x] = "??"
                    ins[y][x] = rnd.choice([True, False, None])
            yield dict(height=h, width=w, arrow=a, inside=ins)


def instances(tier, rnd):
    """the instances of _instances() without repetitions"""
    seen = set()
    for inst in _instances(tier, rnd):
        key = json.dumps(inst, sort_keys=True)
        if key not in seen:
            seen.add(key)
            yield inst


def _from_picture(rows):
    """rows: 2h-1 strings of width 2w-1; '-' / '|' between cells mark loop segments"""
    h = (len(rows) + 1) // 2
    w = (len(rows[0]) + 1) // 2
    H = [[1 if rows[2 * y][2 * x + 1] == "-" else 0 for x in range(w - 1)] for y in range(h)]
    V = [[1 if rows[2 * y + 1][2 * x] == "|" else 0 for x in range(w)] for y in range(h - 1)]
    return _as_dict(H, V)


# The module has no recorded example (_main without arguments does nothing, no tests, no bench entry), so
# two hand-made puzzles are used; uniqueness argued by hand:
#  (a) 3x3, a white (inside) numberless clue in the centre: the centre is enclosed only if all four unit
#      squares around it are enclosed, i.e. the loop is the outer ring.
#  (b) 4x4, white "v0" at (1,1) and white "^1" at (2,2).  Both clue cells are inside, so the seven unit
#      squares touching them are inside; only the squares (0,2) (top right) and (2,0) (bottom left) are
#      open.  "v0": no vertical segment in column 1 below the clue, in particular not (2,1)-(3,1), which
#      separates square (2,0) from the inside square (2,1): so (2,0) is inside.  "^1": the only possible
#      vertical segment above the clue is (0,2)-(1,2), which separates square (0,2) from the inside
#      square (0,1): so (0,2) is outside.  The loop is the boundary of the other eight squares.
_N = None
_EX_A = dict(height=3, width=3, arrow=[["..", "..", ".."], ["..", "??", ".."], ["..", "..", ".."]],
             inside=[[_N, _N, _N], [_N, True, _N], [_N, _N, _N]])
_SOL_A = _from_picture([
    "o-o-o",
    "|   |",
    "o ? o",
    "|   |",
    "o-o-o",
])
_EX_B = dict(height=4, width=4,
             arrow=[["..", "..", "..", ".."], ["..", "v0", "..", ".."], ["..", "..", "^1", ".."], ["..", "..", "..", ".."]],
             inside=[[_N, _N, _N, _N], [_N, True, _N, _N], [_N, _N, True, _N], [_N, _N, _N, _N]])
_SOL_B = _from_picture([
    "o-o-o o",
    "|   |  ",
    "o v o-o",
    "|     |",
    "o o ^ o",
    "|     |",
    "o-o-o-o",
])
EXAMPLES = [(_EX_A, _SOL_A), (_EX_B, _SOL_B)]
