"""Creek oracle (puzz.link / Janko rules).

1. Shade some cells.
2. A number on a grid point (corner of cells) is the number of shaded cells among the (up to four)
   cells that touch this point.
3. All unshaded cells form one orthogonally connected area.

Problem format (solve_creek(height, width, problem)): problem is (height+1) x (width+1), indexed by
grid point; -1 = no clue, 0..4 = clue.  Answer: is_white[y, x] (True = unshaded).

Interpretation decision: the answer that shades every cell has no unshaded cell at all and obeys
rule 3 vacuously.
"""

MODULE = "cspuz.puzzle.creek"


def run_real(mod, inst):
    h, w = inst["height"], inst["width"]
    is_sat, ans = mod.solve_creek(h, w, inst["problem"])
    if not is_sat:
        return is_sat, {}
    return is_sat, {(y, x): ans[y, x].sol for y in range(h) for x in range(w)}


def _touching(h, w, py, px):
    """cells touching grid point (py, px)"""
    return [(y, x) for y in (py - 1, py) for x in (px - 1, px) if 0 <= y < h and 0 <= x < w]


def _connected(h, w, white):
    ws = [c for c in white if white[c]]
    if not ws:
        return True
    comp = {ws[0]}
    st = [ws[0]]
    while st:
        y, x = st.pop()
        for d in ((y - 1, x), (y + 1, x), (y, x - 1), (y, x + 1)):
            if white.get(d) and d not in comp:
                comp.add(d)
                st.append(d)
    return len(comp) == len(ws)


def solutions(inst):
    h, w = inst["height"], inst["width"]
    p = inst["problem"]
    cells = [(y, x) for y in range(h) for x in range(w)]
    clues = [(py, px, p[py][px]) for py in range(h + 1) for px in range(w + 1) if p[py][px] >= 0]
    out = []
    for mask in range(1 << len(cells)):
        white = {c: not (mask >> i & 1) for i, c in enumerate(cells)}
        ok = True
        for (py, px, n) in clues:
            if sum(1 for c in _touching(h, w, py, px) if not white[c]) != n:
                ok = False
                break
        if ok and _connected(h, w, white):
            out.append(white)
    return out


def classify(inst):
    h, w = inst["height"], inst["width"]
    return "1x1" if h * w == 1 else "1xN" if h == 1 else "Nx1" if w == 1 else "square" if h == w else "h>w" if h > w else "w>h"


def _clues_of(h, w, white):
    return [[sum(1 for c in _touching(h, w, py, px) if not white[c]) for px in range(w + 1)] for py in range(h + 1)]


def instances(tier, rnd):
    quick = tier == "quick"
    shapes = [(1, 1), (1, 2), (2, 1), (1, 4), (4, 1), (2, 2), (2, 3), (3, 2), (3, 3), (2, 4), (4, 2)]
    if not quick:
        shapes += [(1, 3), (3, 1), (1, 6), (6, 1), (2, 5), (5, 2), (3, 4), (4, 3)]
    per = 10 if quick else 110
    for (h, w) in shapes:
        yield dict(height=h, width=w, problem=[[-1] * (w + 1) for _ in range(h + 1)])
        cells = [(y, x) for y in range(h) for x in range(w)]
        points = [(y, x) for y in range(h + 1) for x in range(w + 1)]
        n = min(per, 3 + 2 * h * w) if quick else min(per, 4 + 10 * h * w)
        for i in range(n):
            mode = i % 6
            if mode <= 3:
                # clues read off a random grid with connected unshaded cells
                for _ in range(200):
                    dens = rnd.choice([0.2, 0.4, 0.6])
                    white = {c: rnd.random() >= dens for c in cells}
                    if _connected(h, w, white):
                        break
                else:
                    white = {c: True for c in cells}
                full = _clues_of(h, w, white)
                k = rnd.randint(0, len(points))
                prob = [[-1] * (w + 1) for _ in range(h + 1)]
                for (y, x) in rnd.sample(points, k):
                    prob[y][x] = full[y][x]
                if mode == 3:
                    y, x = rnd.choice(points)       # perturbed clue: frequently unsatisfiable
                    prob[y][x] = rnd.randint(0, 4)
            elif mode == 4:
                # clues of an arbitrary (maybe disconnected) shading: tests rule 3
                white = {c: rnd.random() < 0.5 for c in cells}
                prob = _clues_of(h, w, white)
                for (y, x) in rnd.sample(points, rnd.randint(0, len(points) // 2)):
                    prob[y][x] = -1
            else:
                prob = [[rnd.choice([-1, -1, 0, 1, 2, 3, 4]) for _ in range(w + 1)] for _ in range(h + 1)]
            yield dict(height=h, width=w, problem=prob)


# --- recorded example ---------------------------------------------------------------------------
# creek._main() holds no example and there is none in /repo/tests or /repo/bench.  Hand-made 3x3
# puzzle (clues on the 4x4 grid points) with a hand-verified unique solution:
#     . . . .          # . .
#     . 3 1 .          # # .       ('#' shaded, '.' unshaded)
#     . . 3 .   ->     # # #
#     . . . .
# Hand check: point (1,1) touches cells (0,0),(0,1),(1,0),(1,1); point (1,2) touches (0,1),(0,2),(1,1),
# (1,2); point (2,2) touches (1,1),(1,2),(2,1),(2,2).  If (1,1) were unshaded, the two 3s would shade
# (0,1) and (1,2), which is 2 around the 1.  So (1,1) is shaded and is the single shaded cell around the
# 1: (0,1),(0,2),(1,2) unshaded; the 3s then shade (0,0),(1,0) and (2,1),(2,2).  Cell (2,0) has only the
# shaded neighbours (1,0),(2,1), so it must be shaded too (rule 3).
_EX_PROBLEM = [[-1, -1, -1, -1], [-1, 3, 1, -1], [-1, -1, 3, -1], [-1, -1, -1, -1]]
_EX_ANSWER = ["#..", "##.", "###"]
EXAMPLES = [
    (dict(height=3, width=3, problem=_EX_PROBLEM),
     {(y, x): _EX_ANSWER[y][x] == "." for y in range(3) for x in range(3)}),
]


def obeys(inst, answer):
    """rule checker for one answer {str((y, x)): is_white}"""
    h, w = inst["height"], inst["width"]
    p = inst["problem"]
    white = {(y, x): bool(answer[str((y, x))]) for y in range(h) for x in range(w)}
    for py in range(h + 1):
        for px in range(w + 1):
            if p[py][px] >= 0 and sum(1 for c in _touching(h, w, py, px) if not white[c]) != p[py][px]:
                return False
    return _connected(h, w, white)


def _serpentine(h, w):
    """unshaded cells: a corridor winding through every other row (the farthest cell is about h*w/2 steps from the first)"""
    white = {(y, x): False for y in range(h) for x in range(w)}
    for y in range(0, h, 2):
        for x in range(w):
            white[(y, x)] = True
        if y + 1 < h and y + 2 < h:
            white[(y + 1, (w - 1) if (y // 2) % 2 == 0 else 0)] = True
    return white


def witness_instances(tier):
    """boards too large for the brute force, fully clued from a winding corridor (needs a long chain inside the region,
    longer than height + width) and from its transpose"""
    shapes = [(5, 7), (7, 5)] + ([(7, 7), (5, 9)] if tier != "quick" else [])
    for (h, w) in shapes:
        white = _serpentine(h, w)
        yield dict(height=h, width=w, problem=_clues_of(h, w, white), _witness={str(k): v for k, v in white.items()})
