"""Compass oracle.

Published rules (puzz.link "Compass"): divide the grid into (orthogonally connected) regions so that every
region contains exactly one compass.  A number in the upper / left / lower / right quarter of a compass is the
number of cells of its region that lie strictly above / to the left of / below / to the right of the compass
cell, i.e. in a row with a smaller index, a column with a smaller index, and so on (not only the cells in the
same column / row).  A blank quarter is no constraint.

Problem format of solve_compass(height, width, problem): problem is a list of compasses
(y, x, up, left, down, right), -1 = blank quarter.  Answer: height x width ints, the index (in `problem`) of
the compass whose region holds the cell.
"""
import itertools

MODULE = "cspuz.puzzle.compass"


def _problem(inst):
    return [tuple(c) for c in inst["problem"]]


def run_real(mod, inst):
    h, w = inst["height"], inst["width"]
    is_sat, ans = mod.solve_compass(h, w, _problem(inst))
    return is_sat, {(y, x): ans[y, x].sol for y in range(h) for x in range(w)}


def _counts(region, y0, x0):
    up = sum(1 for (y, x) in region if y < y0)
    lf = sum(1 for (y, x) in region if x < x0)
    dw = sum(1 for (y, x) in region if y > y0)
    rg = sum(1 for (y, x) in region if x > x0)
    return up, lf, dw, rg


def _connected(region):
    region = set(region)
    if not region:
        return False
    start = next(iter(region))
    seen = {start}
    stack = [start]
    while stack:
        y, x = stack.pop()
        for c in ((y + 1, x), (y - 1, x), (y, x + 1), (y, x - 1)):
            if c in region and c not in seen:
                seen.add(c)
                stack.append(c)
    return len(seen) == len(region)


def _region_ok(region, clue):
    """the rule for one region and its compass (exactness of the compass count is checked by the caller)"""
    y0, x0 = clue[0], clue[1]
    if (y0, x0) not in region or not _connected(region):
        return False
    got = _counts(region, y0, x0)
    return all(want < 0 or want == g for want, g in zip(clue[2:], got))


def _connected_supersets(root, free, clue):
    """all connected cell sets that contain `root` plus cells of `free`; sets exceeding a clue are skipped
    early (they could never pass _region_ok)"""
    y0, x0 = clue[0], clue[1]
    limits = [c if c >= 0 else 10 ** 9 for c in clue[2:]]

    def within(region):
        return all(g <= lim for g, lim in zip(_counts(region, y0, x0), limits))

    def rec(region, excluded):
        cand = None
        for (y, x) in sorted(region):
            for c in ((y + 1, x), (y - 1, x), (y, x + 1), (y, x - 1)):
                if c in free and c not in region and c not in excluded:
                    cand = c
                    break
            if cand:
                break
        if cand is None:
            yield frozenset(region)
            return
        bigger = region | {cand}
        if within(bigger):
            yield from rec(bigger, excluded)
        yield from rec(region, excluded | {cand})

    yield from rec(frozenset([root]), frozenset())


def solutions(inst, limit=20000):
    h, w = inst["height"], inst["width"]
    prob = _problem(inst)
    k = len(prob)
    cells = [(y, x) for y in range(h) for x in range(w)]
    roots = [(c[0], c[1]) for c in prob]
    if k == 0 or len(set(roots)) != k or any(not (0 <= y < h and 0 <= x < w) for (y, x) in roots):
        return []          # cells without a compass / two compasses in a cell: no legal division
    # handle the compasses with most numbers first (only an ordering heuristic)
    order = sorted(range(k), key=lambda i: -sum(1 for v in prob[i][2:] if v >= 0))
    out = []

    def rec(pos, free, owner):
        if len(out) >= limit:
            return
        i = order[pos]
        if pos == k - 1:
            # the last compass has to take every cell that is left
            region = frozenset(free) | {roots[i]}
            if _region_ok(region, prob[i]):
                full = dict(owner)
                full.update({c: i for c in region})
                out.append({c: full[c] for c in cells})
            return
        for region in _connected_supersets(roots[i], free, prob[i]):
            if not _region_ok(region, prob[i]):
                continue
            nxt = dict(owner)
            nxt.update({c: i for c in region})
            rec(pos + 1, free - region, nxt)

    rec(0, frozenset(cells) - set(roots), {})
    return out


def _naive_solutions(inst):
    """plain enumeration of all assignments cell -> compass (used to cross-check `solutions` on tiny boards)"""
    h, w = inst["height"], inst["width"]
    prob = _problem(inst)
    k = len(prob)
    cells = [(y, x) for y in range(h) for x in range(w)]
    out = []
    if k == 0:
        return out
    for assign in itertools.product(range(k), repeat=len(cells)):
        regions = [set() for _ in range(k)]
        for c, a in zip(cells, assign):
            regions[a].add(c)
        # exactly one compass per region: compass i in region i and no other compass there
        ok = all(_region_ok(regions[i], prob[i]) for i in range(k)) and \
            all(sum(1 for c in prob if (c[0], c[1]) in regions[i]) == 1 for i in range(k))
        if ok:
            out.append(dict(zip(cells, assign)))
    return out


def classify(inst):
    h, w = inst["height"], inst["width"]
    shape = "1x1" if h == w == 1 else "1xN" if h == 1 else "Nx1" if w == 1 else \
        "square" if h == w else "h>w" if h > w else "w>h"
    if len(inst["problem"]) == 1:
        shape += " single compass"
    off_board = False      # a number (necessarily 0 in any solution) for a direction that has no cells at all
    for (y, x, up, lf, dw, rg) in inst["problem"]:
        if (y == 0 and up == 0) or (x == 0 and lf == 0) or (y == h - 1 and dw == 0) or (x == w - 1 and rg == 0):
            off_board = True
    if off_board:
        shape += " with 0 towards the board edge"
    elif any(v == 0 for c in inst["problem"] for v in c[2:]):
        shape += " with 0 clue"
    return shape


def _random_division(h, w, k, rnd):
    cells = [(y, x) for y in range(h) for x in range(w)]
    seeds = rnd.sample(cells, k)
    owner = {c: i for i, c in enumerate(seeds)}
    while len(owner) < len(cells):
        frontier = []
        for (y, x), i in owner.items():
            for c in ((y + 1, x), (y - 1, x), (y, x + 1), (y, x - 1)):
                if 0 <= c[0] < h and 0 <= c[1] < w and c not in owner:
                    frontier.append((c, i))
        c, i = rnd.choice(frontier)
        owner[c] = i
    return owner


def instances(tier, rnd):
    quick = tier == "quick"
    shapes = [(1, 1), (1, 2), (2, 1), (1, 5), (5, 1), (2, 2), (2, 3), (3, 2), (3, 3), (2, 5), (5, 2), (3, 4), (4, 3)]
    if not quick:
        shapes += [(1, 8), (8, 1), (2, 4), (4, 2), (2, 6), (6, 2), (4, 4)]
    per = 10 if quick else 150
    for (h, w) in shapes:
        n = h * w
        for i in range(per if n > 2 else 4):
            k = rnd.randint(1, min(n, 4 if n > 6 else 3))
            owner = _random_division(h, w, k, rnd)
            regions = [[c for c in owner if owner[c] == j] for j in range(k)]
            prob = []
            keep = rnd.choice([0.0, 0.3, 0.6, 1.0])
            for j in range(k):
                y0, x0 = rnd.choice(regions[j])         # compass anywhere in its region, board edge included
                clue = [v if rnd.random() < keep else -1 for v in _counts(regions[j], y0, x0)]
                prob.append([y0, x0] + clue)
            mode = i % 5
            if mode == 0 and k >= 1:       # perturb a number (may become unsatisfiable or change the answer)
                j, q = rnd.randrange(k), rnd.randrange(2, 6)
                prob[j][q] = rnd.randint(0, max(h, w))
            elif mode == 1:                # all numbers random
                for j in range(k):
                    for q in range(2, 6):
                        prob[j][q] = rnd.choice([-1, -1, 0, 1, 2, 3])
            yield dict(height=h, width=w, problem=prob)


# /repo/cspuz/puzzle/compass.py _main(): https://puzz.link/p?compass/5/5/m..1.i25.1g53..i1..1m
# (solution below checked by hand: every region connected, one compass each, all eight numbers right)
_EX_GRID = [
    [1, 2, 2, 2, 2],
    [1, 0, 0, 0, 2],
    [1, 1, 3, 2, 2],
    [1, 1, 3, 3, 2],
    [1, 1, 1, 2, 2],
]
EXAMPLES = [
    (dict(height=5, width=5, problem=[[1, 2, -1, 1, -1, -1], [2, 1, 2, -1, 5, 1], [2, 3, 5, -1, 3, -1],
                                      [3, 2, 1, -1, -1, 1]]),
     {(y, x): _EX_GRID[y][x] for y in range(5) for x in range(5)}),
]
