"""Doppelblock oracle.

Published rules (Janko "Doppelblock", puzz.link "Doppelblock"): in an n x n grid blacken exactly two cells
in every row and every column and write the numbers 1..n-2 into the remaining cells so that every row and
every column holds each number exactly once; a number outside the grid is the sum of the numbers standing
between the two black cells of that row / column.

Problem format of solve_doppelblock(n, clue_row, clue_column): clue_row[y] is the clue of row y,
clue_column[x] the clue of column x, a negative value means "no clue" (0 is a real clue: the two
black cells are neighbours).  Answer: n x n ints, 0 = black cell.
"""
import itertools

MODULE = "cspuz.puzzle.doppelblock"


def run_real(mod, inst):
    n = inst["n"]
    is_sat, ans = mod.solve_doppelblock(n, inst["row"], inst["col"])
    return is_sat, {(y, x): ans[y, x].sol for y in range(n) for x in range(n)}


def _between(line):
    a, b = [i for i, v in enumerate(line) if v == 0]
    return sum(line[a + 1:b])


def _lines(n):
    """all legal rows: two blacks (0) and 1..n-2 once each"""
    return sorted(set(itertools.permutations([0, 0] + list(range(1, n - 1)))))


def _grids(n, row):
    lines = _lines(n)
    cand = [[ln for ln in lines if row[y] < 0 or _between(ln) == row[y]] for y in range(n)]
    rows = []
    want = sorted([0, 0] + list(range(1, n - 1)))

    def rec():
        y = len(rows)
        if y == n:
            yield [list(r) for r in rows]
            return
        for ln in cand[y]:
            ok = True
            for x in range(n):
                colv = [r[x] for r in rows] + [ln[x]]
                nz = [v for v in colv if v != 0]
                if len(nz) != len(set(nz)) or colv.count(0) > 2:
                    ok = False
                    break
            if ok:
                rows.append(ln)
                yield from rec()
                rows.pop()

    for g in rec():
        if all(sorted(g[y][x] for y in range(n)) == want for x in range(n)):
            yield g


def solutions(inst):
    n = inst["n"]
    out = []
    for g in _grids(n, inst["row"]):
        if all(inst["col"][x] < 0 or _between([g[y][x] for y in range(n)]) == inst["col"][x] for x in range(n)):
            out.append({(y, x): g[y][x] for y in range(n) for x in range(n)})
    return out


def classify(inst):
    n = inst["n"]
    allc = inst["row"] + inst["col"]
    if all(c < 0 for c in allc):
        return "n=%d no clues" % n
    if any(c == 0 for c in allc):
        return "n=%d with 0 clue" % n
    return "n=%d" % n


def _clues_of(g):
    n = len(g)
    return [_between(g[y]) for y in range(n)], [_between([g[y][x] for y in range(n)]) for x in range(n)]


def instances(tier, rnd):
    quick = tier == "quick"
    # n = 2: all cells are black, the only possible clue value is 0
    for c in itertools.product([-1, 0, 1], repeat=4):
        if quick and rnd.random() < 0.7 and c != (-1, -1, -1, -1):
            continue
        yield dict(n=2, row=list(c[:2]), col=list(c[2:]))
    for n, cnt in ((3, 30 if quick else 300), (4, 45 if quick else 700), (5, 8 if quick else 150)):
        mx = (n - 2) * (n - 1) // 2
        if n <= 4 or not quick:
            yield dict(n=n, row=[-1] * n, col=[-1] * n)
        base = list(_grids(n, [-1] * n)) if n <= 4 else None
        for i in range(cnt):
            if base is not None:
                g = rnd.choice(base)
            else:
                # n = 5: a random solution grid by restarting the row search with shuffled candidates
                g = _random_grid(n, rnd)
            r, c = _clues_of(g)
            keep = rnd.choice([0.2, 0.4, 0.6, 1.0]) if n <= 4 else rnd.choice([0.6, 0.8, 1.0])
            r = [v if rnd.random() < keep else -1 for v in r]
            c = [v if rnd.random() < keep else -1 for v in c]
            mode = i % 6
            if mode == 0:
                if rnd.random() < 0.5:
                    r[rnd.randrange(n)] = rnd.randint(0, mx + 1)
                else:
                    c[rnd.randrange(n)] = rnd.randint(0, mx + 1)
            elif mode == 1 and n <= 4:
                r = [rnd.choice([-1, -1] + list(range(0, mx + 1))) for _ in range(n)]
                c = [rnd.choice([-1, -1] + list(range(0, mx + 1))) for _ in range(n)]
            yield dict(n=n, row=r, col=c)


def _random_grid(n, rnd):
    lines = _lines(n)
    while True:
        rows = []
        for y in range(n):
            rnd.shuffle(lines)
            for ln in lines:
                ok = True
                for x in range(n):
                    colv = [r[x] for r in rows] + [ln[x]]
                    nz = [v for v in colv if v != 0]
                    if len(nz) != len(set(nz)) or colv.count(0) > 2:
                        ok = False
                        break
                if ok:
                    rows.append(ln)
                    break
            else:
                break
        if len(rows) == n and all(sorted(r[x] for r in rows) == sorted([0, 0] + list(range(1, n - 1))) for x in range(n)):
            lines.sort()
            return [list(r) for r in rows]


# /repo/cspuz/puzzle/doppelblock.py _main(): https://puzsq.jp/main/puzzle_play.php?pid=10025
# (solution checked by hand against the four clues and the row / column contents)
_EX_GRID = [
    [1, 0, 3, 2, 0],
    [2, 1, 0, 3, 0],
    [0, 3, 2, 0, 1],
    [3, 0, 0, 1, 2],
    [0, 2, 1, 0, 3],
]
EXAMPLES = [
    (dict(n=5, row=[5, -1, 5, -1, -1], col=[3, -1, -1, 1, -1]),
     {(y, x): _EX_GRID[y][x] for y in range(5) for x in range(5)}),
]
# NOTE (observed with the z3 backend of the pinned tree): solve_doppelblock raises Z3Exception for every
# instance that has at least one clue, including the example above, because sequence_constraint builds
# fold_or(cells[:0] == 0), a constant-only BoolExpr that cspuz/backend/z3.py:_convert_expr turns into None.
# Until that is repaired, validate('doppelblock') reports the exception on the module's own example.
