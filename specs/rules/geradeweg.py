"""Geradeweg oracle (puzz.link "Geradeweg" rules).

Rules: draw ONE closed loop (through cell centres, horizontal/vertical moves, no crossing or branching);
the loop need not visit every cell but must pass through every numbered cell.  A number gives the
length (in cell-to-cell steps) of the straight line segment running through that cell; when the loop
turns on a numbered cell, both straight segments that meet there must have that length.
Library convention: the empty set of segments also counts as a loop (possible only without numbers).

Problem format of solve_geradeweg(height, width, problem): problem[y][x] >= 1 is a numbered cell,
0 an ordinary cell.  Answer: BoolGridFrame(height-1, width-1): horizontal[y, x] joins cells
(y,x)-(y,x+1); vertical[y, x] joins (y,x)-(y+1,x).
"""
import json

MODULE = "cspuz.puzzle.geradeweg"

_CYCLES = {}


def all_loops(P, Q):
    """all loops on a P x Q lattice of points: list of (H, V) with H[y][x] (P x (Q-1)) the segment
    (y,x)-(y,x+1) and V[y][x] ((P-1) x Q) the segment (y,x)-(y+1,x); includes the empty loop."""
    if (P, Q) in _CYCLES:
        return _CYCLES[(P, Q)]
    res = []

    def blank():
        return [[0] * (Q - 1) for _ in range(P)], [[0] * Q for _ in range(P - 1)]

    res.append(blank())

    def emit(path):
        H, V = blank()
        for i in range(len(path)):
            (y1, x1), (y2, x2) = path[i], path[(i + 1) % len(path)]
            if y1 == y2:
                H[y1][min(x1, x2)] = 1
            else:
                V[min(y1, y2)][x1] = 1
        res.append((H, V))

    # every simple cycle has a unique smallest point s (row-major); its two neighbours on the cycle
    # are then the point to the right and the point below.  Walk from s to the right, return from below.
    for sy in range(P - 1):
        for sx in range(Q - 1):
            s = (sy, sx)
            goal = (sy + 1, sx)
            seen = {s, (sy, sx + 1)}
            path = [s, (sy, sx + 1)]

            def dfs():
                y, x = path[-1]
                for ny, nx in ((y, x + 1), (y + 1, x), (y, x - 1), (y - 1, x)):
                    if not (0 <= ny < P and 0 <= nx < Q):
                        continue
                    if (ny, nx) <= s or (ny, nx) in seen:
                        continue
                    path.append((ny, nx))
                    if (ny, nx) == goal:
                        emit(path)
                    else:
                        seen.add((ny, nx))
                        dfs()
                        seen.discard((ny, nx))
                    path.pop()

            dfs()
    _CYCLES[(P, Q)] = res
    return res


def _dims(inst):
    return inst["height"], inst["width"]


def run_real(mod, inst):
    h, w = _dims(inst)
    is_sat, gf = mod.solve_geradeweg(h, w, inst["problem"])
    out = {}
    if is_sat:
        for y in range(h):
            for x in range(w - 1):
                out[("h", y, x)] = gf.horizontal[y, x].sol
        for y in range(h - 1):
            for x in range(w):
                out[("v", y, x)] = gf.vertical[y, x].sol
    return is_sat, out


def arms(h, w, H, V, y, x):
    """lengths of the straight runs of loop segments leaving cell (y, x): (left, right, up, down)"""
    left = 0
    while x - 1 - left >= 0 and H[y][x - 1 - left]:
        left += 1
    right = 0
    while x + right < w - 1 and H[y][x + right]:
        right += 1
    up = 0
    while y - 1 - up >= 0 and V[y - 1 - up][x]:
        up += 1
    down = 0
    while y + down < h - 1 and V[y + down][x]:
        down += 1
    return left, right, up, down


def clue_value(h, w, H, V, y, x):
    """the number that could be written into cell (y, x) for this loop, or None"""
    left, right, up, down = arms(h, w, H, V, y, x)
    hor, ver = left + right, up + down
    if hor == 0 and ver == 0:
        return None                 # not on the loop
    if ver == 0:
        return hor                  # straight, horizontal
    if hor == 0:
        return ver                  # straight, vertical
    return hor if hor == ver else None   # a turn: both segments must be equally long


def obeys(inst, H, V):
    h, w = _dims(inst)
    p = inst["problem"]
    for y in range(h):
        for x in range(w):
            if p[y][x] >= 1 and clue_value(h, w, H, V, y, x) != p[y][x]:
                return False
    return True


def _as_dict(H, V):
    d = {}
    for y, row in enumerate(H):
        for x, v in enumerate(row):
            d[("h", y, x)] = bool(v)
    for y, row in enumerate(V):
        for x, v in enumerate(row):
            d[("v", y, x)] = bool(v)
    return d


def solutions(inst):
    h, w = _dims(inst)
    return [_as_dict(H, V) for (H, V) in all_loops(h, w) if obeys(inst, H, V)]


def classify(inst):
    h, w = _dims(inst)
    if h == 1 and w == 1:
        return "1x1 board"
    if h == 1 or w == 1:
        return "1xN board"
    return "square" if h == w else ("h>w" if h > w else "h<w")


def _instances(tier, rnd):
    quick = tier == "quick"
    sizes = [(1, 1), (1, 2), (1, 3), (3, 1), (2, 2), (2, 3), (3, 2), (3, 3), (3, 4), (4, 3), (4, 4)]
    if not quick:
        sizes += [(2, 1), (1, 4), (4, 1), (2, 4), (4, 2), (2, 5), (5, 2), (3, 5), (5, 3), (4, 5), (5, 4), (5, 5)]
    per = 10 if quick else 90
    for (h, w) in sizes:
        yield dict(height=h, width=w, problem=[[0] * w for _ in range(h)])
        if h * w <= 3:
            for y in range(h):
                for x in range(w):
                    for n in (1, 2):
                        p = [[0] * w for _ in range(h)]
                        p[y][x] = n
                        yield dict(height=h, width=w, problem=p)
        loops = all_loops(h, w)
        for i in range(per if h * w > 3 else 0):
            H, V = rnd.choice(loops)
            dens = rnd.choice([0.15, 0.3, 0.6, 1.0])
            p = [[0] * w for _ in range(h)]
            for y in range(h):
                for x in range(w):
                    c = clue_value(h, w, H, V, y, x)
                    if c is not None and rnd.random() < dens:
                        p[y][x] = c
            mode = i % 4
            if mode == 1:
                y, x = rnd.randrange(h), rnd.randrange(w)
                p[y][x] = rnd.randint(1, max(h, w))        # extra / changed number, often contradictory
            elif mode == 2:
                p = [[rnd.choice([0, 0, 0, 0, 1, 2, 3]) for x in range(w)] for y in range(h)]
            elif mode == 3 and i % 8 == 3:
                # a single number on the board edge or in a corner
                p = [[0] * w for _ in range(h)]
                p[rnd.choice([0, h - 1])][rnd.randrange(w)] = rnd.randint(1, max(h, w) - 1)
            yield dict(height=h, width=w, problem=p)


def instances(tier, rnd):
    """the instances of _instances() without repetitions"""
    seen = set()
    for inst in _instances(tier, rnd):
        key = json.dumps(inst, sort_keys=True)
        if key not in seen:
            seen.add(key)
            yield inst


def _from_picture(rows):
    """rows: 2h-1 strings of width 2w-1; '-' / '|' between cells mark loop segments"""
    h = (len(rows) + 1) // 2
    w = (len(rows[0]) + 1) // 2
    H = [[1 if rows[2 * y][2 * x + 1] == "-" else 0 for x in range(w - 1)] for y in range(h)]
    V = [[1 if rows[2 * y + 1][2 * x] == "|" else 0 for x in range(w)] for y in range(h - 1)]
    return _as_dict(H, V)


# The module's own example (_main, 10x10, puzsq pid 8864) is far beyond exhaustive enumeration, so two
# hand-made puzzles are recorded; uniqueness argued by hand:
#  (a) 3x3 with 2 at (0,0) and 2 at (1,2).  The corner must turn with both arms of length 2, i.e. the
#      whole top row and left column; (0,2) and (2,0) must turn.  At (1,2) a turn would give two arms of
#      length 1, so the loop runs straight (0,2)-(1,2)-(2,2) and closes along the bottom row.
#  (b) 4x4 with 3 at (0,1), 1 at (1,3), 3 at (3,0).  (0,1) cannot turn (its arms are at most 1 and 2
#      long) nor run vertically, so the whole top row is drawn; the corner (3,0) turns with arms of
#      length 3: left column and bottom row.  (1,3) is entered from (0,3); running straight would give
#      length >= 2, so it turns to (1,2) and that arm stops there: (1,2) goes down to (2,2) [(0,2) is
#      complete].  (3,3) turns up to (2,3), whose only free neighbour is then (2,2): loop closed.
_EX_A = dict(height=3, width=3, problem=[[2, 0, 0], [0, 0, 2], [0, 0, 0]])
_SOL_A = _from_picture([
    "2-o-o",
    "|   |",
    "o . 2",
    "|   |",
    "o-o-o",
])
_EX_B = dict(height=4, width=4, problem=[[0, 3, 0, 0], [0, 0, 0, 1], [0, 0, 0, 0], [3, 0, 0, 0]])
_SOL_B = _from_picture([
    "o-3-o-o",
    "|     |",
    "o o o-1",
    "|   |  ",
    "o o o-o",
    "|     |",
    "3-o-o-o",
])
EXAMPLES = [(_EX_A, _SOL_A), (_EX_B, _SOL_B)]
