"""LITS oracle, written from the published rules (Nikoli / puzz.link):

  1. In every room exactly four cells are black and they form a tetromino (four orthogonally connected cells
     inside the room).
  2. No 2x2 block of cells is entirely black (so the O tetromino can never be used: only L, I, T, S remain).
  3. All black cells of the board form one orthogonally connected group.
  4. Two tetrominoes of the same shape (rotations and reflections count as the same shape) never share an edge.

Problem format of the real solver: solve_lits(height, width, blocks), blocks = list of rooms, each a list of
(y, x) cells; the rooms partition the board.  Answer: is_black[y, x].
Generated instances always partition the whole board; rooms are connected except for a few deliberately
disconnected ones (the rules still make sense: the tetromino must lie inside the room).
"""
import itertools

MODULE = "cspuz.puzzle.lits"


def _blocks(inst):
    return [[(y, x) for y, x in block] for block in inst["blocks"]]


def run_real(mod, inst):
    h, w = inst["height"], inst["width"]
    is_sat, is_black = mod.solve_lits(h, w, _blocks(inst))
    if not is_sat:
        return False, {}
    return True, {(y, x): is_black[y, x].sol for y in range(h) for x in range(w)}


def _connected(cells):
    cells = set(cells)
    if not cells:
        return True
    start = next(iter(cells))
    seen = {start}
    stack = [start]
    while stack:
        y, x = stack.pop()
        for n in ((y - 1, x), (y + 1, x), (y, x - 1), (y, x + 1)):
            if n in cells and n not in seen:
                seen.add(n)
                stack.append(n)
    return len(seen) == len(cells)


def _shape(cells):
    """canonical form of a cell set under translation, rotation and reflection"""
    best = None
    for t in range(8):
        pts = []
        for (y, x) in cells:
            if t & 1:
                y = -y
            if t & 2:
                x = -x
            if t & 4:
                y, x = x, y
            pts.append((y, x))
        my = min(p[0] for p in pts)
        mx = min(p[1] for p in pts)
        norm = tuple(sorted((p[0] - my, p[1] - mx) for p in pts))
        if best is None or norm < best:
            best = norm
    return best


_NAMES = {
    _shape([(0, 0), (0, 1), (0, 2), (0, 3)]): "I",
    _shape([(0, 0), (1, 0), (2, 0), (2, 1)]): "L",
    _shape([(0, 0), (0, 1), (0, 2), (1, 1)]): "T",
    _shape([(0, 0), (0, 1), (1, 1), (1, 2)]): "S",
    _shape([(0, 0), (0, 1), (1, 0), (1, 1)]): "O",
}
assert len(_NAMES) == 5


def check(h, w, blocks, black):
    """black: set of cells"""
    pieces = []
    for block in blocks:
        piece = [c for c in block if c in black]
        if len(piece) != 4 or not _connected(piece):
            return False
        pieces.append(piece)
    if len(black) != 4 * len(blocks):
        return False        # (cannot happen when the rooms partition the board)
    for y in range(h - 1):
        for x in range(w - 1):
            if (y, x) in black and (y, x + 1) in black and (y + 1, x) in black and (y + 1, x + 1) in black:
                return False
    if not _connected(black):
        return False
    owner = {}
    for i, piece in enumerate(pieces):
        for c in piece:
            owner[c] = i
    names = [_NAMES[_shape(p)] for p in pieces]
    for (y, x), i in owner.items():
        for n in ((y + 1, x), (y, x + 1)):
            j = owner.get(n)
            if j is not None and j != i and names[i] == names[j]:
                return False
    return True


def solutions(inst, limit=100000):
    h, w = inst["height"], inst["width"]
    blocks = _blocks(inst)
    seen = set()
    for b in blocks:
        for c in b:
            assert c not in seen and 0 <= c[0] < h and 0 <= c[1] < w
            seen.add(c)
    assert len(seen) == h * w
    cands = []
    for block in blocks:
        cs = []
        for comb in itertools.combinations(sorted(block), 4):
            if _connected(comb):
                cs.append((comb, _shape(comb)))
        cands.append(cs)
    out = []
    if any(not c for c in cands):
        return out
    order = sorted(range(len(blocks)), key=lambda i: len(cands[i]))
    black = {}          # cell -> shape of the piece covering it

    def clash(comb, shape):
        cells = set(comb)
        for (y, x) in comb:
            for n in ((y - 1, x), (y + 1, x), (y, x - 1), (y, x + 1)):
                if n not in cells and black.get(n) == shape:
                    return True
            # 2x2 blocks that contain (y, x)
            for oy in (y - 1, y):
                for ox in (x - 1, x):
                    if all(((a, b) in cells or (a, b) in black) for a in (oy, oy + 1) for b in (ox, ox + 1)):
                        return True
        return False

    def rec(k):
        if len(out) >= limit:
            return
        if k == len(order):
            if check(h, w, blocks, set(black)):
                out.append({(y, x): (y, x) in black for y in range(h) for x in range(w)})
            return
        for comb, shape in cands[order[k]]:
            if clash(comb, shape):
                continue
            for c in comb:
                black[c] = shape
            rec(k + 1)
            for c in comb:
                del black[c]

    rec(0)
    return out


def classify(inst):
    """board shape plus ONE geometric tag of the rooms (the tags decide whether solve_lits builds empty folds)"""
    h, w = inst["height"], inst["width"]
    shape = "1xN board" if h == 1 or w == 1 else ("square" if h == w else ("h>w" if h > w else "h<w"))
    blocks = _blocks(inst)
    if h * w == 100:
        return shape + ", module's own example"
    lonely = no_straight = no_three = False
    for b in blocks:
        cells = set(b)

        def nb(y, x):
            return [c for c in ((y - 1, x), (y + 1, x), (y, x - 1), (y, x + 1)) if c in cells]

        if any(not nb(y, x) for (y, x) in b):
            lonely = True
        if not any(len(nb(y, x)) >= 3 for (y, x) in b):
            no_three = True
        if not any(((y - 1, x) in cells and (y + 1, x) in cells) or ((y, x - 1) in cells and (y, x + 1) in cells)
                   for (y, x) in b):
            no_straight = True
    if lonely:
        tag = "cell without same-room neighbour"
    elif no_straight:
        tag = "room without straight triple"
    elif no_three:
        tag = "room without 3-neighbour cell"
    elif not all(_connected(b) for b in blocks):
        tag = "fat but disconnected room"
    else:
        tag = "fat rooms"
    return shape + ", " + tag


def _partition(h, w, k, rnd, connected=True):
    cells = [(y, x) for y in range(h) for x in range(w)]
    k = max(1, min(k, len(cells)))
    if not connected:
        owner = {c: rnd.randrange(k) for c in cells}
        for i, c in enumerate(rnd.sample(cells, k)):
            owner[c] = i
    else:
        owner = {c: i for i, c in enumerate(rnd.sample(cells, k))}
        while len(owner) < len(cells):
            frontier = []
            for (y, x), i in owner.items():
                for n in ((y - 1, x), (y + 1, x), (y, x - 1), (y, x + 1)):
                    if 0 <= n[0] < h and 0 <= n[1] < w and n not in owner:
                        frontier.append((n, i))
            n, i = rnd.choice(frontier)
            owner[n] = i
    blocks = [[] for _ in range(k)]
    for c in cells:
        blocks[owner[c]].append([c[0], c[1]])
    return blocks


def _rows(room_rows):
    h, w = len(room_rows), len(room_rows[0])
    rooms = {}
    for y in range(h):
        for x in range(w):
            rooms.setdefault(room_rows[y][x], []).append([y, x])
    return dict(height=h, width=w, blocks=list(rooms.values()))


_SHAPES_QUICK = [(1, 4), (1, 8), (5, 1), (2, 2), (2, 3), (2, 4), (4, 2), (3, 3), (2, 6), (3, 4), (4, 3), (4, 4), (3, 5), (2, 8)]
_SHAPES_MORE = [(1, 5), (1, 12), (8, 1), (3, 2), (2, 5), (5, 2), (6, 2), (5, 3), (4, 5), (5, 4), (3, 6), (6, 3)]


def instances(tier, rnd):
    quick = tier == "quick"
    fixed = [
        ["a"], ["aaa"], ["aaaa"], ["aaaaa"], ["a", "a", "a", "a"],
        ["aaaabbbb"],                 # I next to I -> illegal
        ["aaaaabbbb"],                # I, gap, I -> disconnected
        ["aa", "aa"],                 # only the O fits
        ["aaa", "aaa"], ["aab", "abb"],
        ["aaaa", "bbbb"],             # two I pieces side by side
        ["aaab", "abbb"],             # two L pieces -> illegal
        ["aaa", "aaa", "aaa"],
        ["aaaab", "abbbb"],
        ["aaabbb", "abbbba"],         # room a is disconnected
        ["aaaa", "abbb", "cccb", "cddd"],
        ["aabb", "aabb", "ccdd", "ccdd"],
        ["aaab", "acab", "ccbb", "cddd", "dddd"],
        # rooms that contain a full plus (a cell with all four neighbours in its own room): a T can be centred there
        ["aaabb", "aaabb", "aaabb"],
        ["aaab", "aaab", "aaab", "bbbb"],
        ["aaabbb", "aaabbb", "aaabbb"],
        ["baaab", "baaab", "baaab", "bbbbb"],
        ["aaacc", "aaacc", "aaabb", "bbbbb"],
    ]
    yield _rows(_EX_ROOMS)           # the module's own 10x10 example, see the note above EXAMPLES
    for rows in fixed:
        yield _rows(rows)
    # few LARGE rooms on boards of 20-25 cells (rooms wide enough to hold a tetromino in every orientation around an inner cell)
    for (h, w, k) in ((5, 5, 4), (4, 5, 3), (3, 6, 3), (5, 5, 3)) + (((5, 6, 4), (4, 6, 3)) if not quick else ()):
        got = 0
        tries = 0
        while got < (6 if quick else 40) and tries < 400:
            tries += 1
            blocks = _partition(h, w, k, rnd, connected=True)
            if min(len(b) for b in blocks) < 4:
                continue
            got += 1
            yield dict(height=h, width=w, blocks=blocks)
    for rows in (["bbbaa", "bbbaa", "bdaac", "dddac", "ddccc"], ["acccc", "acccc", "acccb", "abbbb"], ["accccb", "acccbb", "accbbb"]):
        yield _rows(rows)
    shapes = _SHAPES_QUICK if quick else _SHAPES_QUICK + _SHAPES_MORE
    want = 9 if quick else 80
    seen = set()
    for (h, w) in shapes:
        n_sat = n_unsat = 0
        tries = 0
        while n_sat + n_unsat < want and tries < want * 30:
            tries += 1
            kmax = max(1, (h * w) // 4)
            k = rnd.randint(1, kmax)
            if rnd.random() < 0.1:
                k += 1            # forces at least one room to be too small sometimes
            blocks = _partition(h, w, k, rnd, connected=rnd.random() < 0.9)
            inst = dict(height=h, width=w, blocks=blocks)
            key = (h, w, tuple(sorted(tuple(map(tuple, b)) for b in blocks)))
            if key in seen:
                continue
            seen.add(key)
            sat = bool(solutions(inst, limit=1))
            if sat and n_sat < (want * 2 + 2) // 3:
                n_sat += 1
                yield inst
            elif not sat and n_unsat < want // 3:
                n_unsat += 1
                yield inst


_EX_ROOMS = [
    "0000000222",
    "0010002222",
    "1113332222",
    "5563444288",
    "5663422228",
    "5663223338",
    "5633333338",
    "6673339aaa",
    "6773999aab",
    "77bbbbbbbb",
]
# The module's own example (_main()) is the 10x10 board _EX_ROOMS.  The repository records no answer for it; this
# oracle finds exactly one legal grid (_EX_ANSWER, exhaustive search over all tetromino placements).  It is
# deliberately NOT listed in EXAMPLES: on trees whose z3 backend does not translate constant expressions (before
# /repo commit "fix: z3 backend did not translate constant expressions") solve_lits answers "no solution" for it
# - several rooms have no cell with three neighbours in the same room, so solve_lits builds fold_or([]) /
# count_true([]).  Listing it would block the whole puzzle in validate() on such a tree and hide the defect;
# instead it is the first instance yielded by instances(), so a disagreement is reported as an ordinary
# violation (on a fixed tree the real solver reproduces _EX_ANSWER).
_EX_ANSWER = [
    "....#..#..",
    "..######..",
    "###...#...",
    "#.#.###..#",
    "###.#....#",
    "#.##.....#",
    "#..#.....#",
    "...#..####",
    ".######.#.",
    "##....####",
]


def _example(room_rows, answer_rows):
    inst = _rows(room_rows)
    return inst, {(y, x): answer_rows[y][x] == "#" for y in range(inst["height"]) for x in range(inst["width"])}


# Hand-made examples (rooms "fat" enough that solve_lits builds no empty fold, so they work on either tree).  Uniqueness was
# established by this oracle's exhaustive enumeration; the recorded answers were re-checked by hand rule by rule:
#   A)  a a a a a     # # # . .    a: L {(0,0),(0,1),(0,2),(1,0)}   b: S {(1,2),(1,3),(2,1),(2,2)}
#       a a b b b     # . # # .    c: L {(2,4),(3,2),(3,3),(3,4)};  a-b and b-c touch (L/S differ), a-c do not
#       b b b c c     . # # . #    touch; every 2x2 block has a white cell; black cells connected through
#       b b c c c     . . # # #    (0,2)-(1,2) and (2,2)-(3,2).
#   B)  a a a c c     # # # . .    a: L {(0,0),(0,1),(0,2),(1,0)}   c: S {(1,2),(1,3),(2,1),(2,2)}
#       a a c c c     # . # # .    b: L {(2,4),(3,2),(3,3),(3,4)}
#       c c c b b     . # # . #
#       c b b b b     . . # # #
EXAMPLES = [
    _example(["aaaaa", "aabbb", "bbbcc", "bbccc"], ["###..", "#.##.", ".##.#", "..###"]),
    _example(["aaacc", "aaccc", "cccbb", "cbbbb"], ["###..", "#.##.", ".##.#", "..###"]),
]

# the module's own example with the oracle's unique answer (kept out of EXAMPLES, see the note above)
REPO_EXAMPLE = [_example(_EX_ROOMS, _EX_ANSWER)]
