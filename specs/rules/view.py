"""View oracle.

Published rules (puzz.link "View", invented by Jun Mikuriya): write numbers into some of the cells.  A number
tells how many EMPTY cells can be seen from it in the four orthogonal directions together, looking in a straight
line up to (not including) the next number or the edge of the grid.  Orthogonally adjacent cells may not hold
the same number.  All cells with numbers form one orthogonally connected area.  Given numbers are numbers
of the solution.  (A grid with no number at all has nothing to connect; it is accepted when there is no given
number - see the interpretation notes of the report.)

Problem format of solve_view(height, width, problem): problem[y][x] >= 0 is a given number, -1 an undecided
cell.  The solver returns (is_sat, nums, has_number): has_number[y, x] says whether the cell holds a number,
nums[y, x] is that number (0 for cells without a number).
Oracle keys: ("has", y, x) -> bool and ("num", y, x) -> int.
"""
import itertools

MODULE = "cspuz.puzzle.view"


def run_real(mod, inst):
    h, w = inst["height"], inst["width"]
    is_sat, nums, has_number = mod.solve_view(h, w, inst["problem"])
    res = {}
    for y in range(h):
        for x in range(w):
            res[("has", y, x)] = has_number[y, x].sol
            res[("num", y, x)] = nums[y, x].sol
    return is_sat, res


def _seen(numbered, h, w, y, x):
    total = 0
    for dy, dx in ((1, 0), (-1, 0), (0, 1), (0, -1)):
        yy, xx = y + dy, x + dx
        while 0 <= yy < h and 0 <= xx < w and (yy, xx) not in numbered:
            total += 1
            yy, xx = yy + dy, xx + dx
    return total


def _connected(cells):
    cells = set(cells)
    if not cells:
        return True
    start = next(iter(cells))
    seen = {start}
    stack = [start]
    while stack:
        y, x = stack.pop()
        for c in ((y + 1, x), (y - 1, x), (y, x + 1), (y, x - 1)):
            if c in cells and c not in seen:
                seen.add(c)
                stack.append(c)
    return len(seen) == len(cells)


def solutions(inst):
    h, w, p = inst["height"], inst["width"], inst["problem"]
    cells = [(y, x) for y in range(h) for x in range(w)]
    given = [c for c in cells if p[c[0]][c[1]] >= 0]
    free = [c for c in cells if p[c[0]][c[1]] < 0]
    out = []
    for mask in itertools.product([False, True], repeat=len(free)):
        numbered = set(given) | {c for c, m in zip(free, mask) if m}
        if not _connected(numbered):
            continue
        val = {c: _seen(numbered, h, w, c[0], c[1]) for c in numbered}
        if any(val[c] != p[c[0]][c[1]] for c in given):
            continue
        ok = True
        for (y, x) in numbered:
            for c in ((y + 1, x), (y, x + 1)):
                if c in numbered and val[c] == val[(y, x)]:
                    ok = False
        if not ok:
            continue
        sol = {}
        for (y, x) in cells:
            sol[("has", y, x)] = (y, x) in numbered
            sol[("num", y, x)] = val.get((y, x), 0)
        out.append(sol)
    return out


def classify(inst):
    h, w, p = inst["height"], inst["width"], inst["problem"]
    shape = "1x1" if h == w == 1 else "1xN" if h == 1 else "Nx1" if w == 1 else \
        "square" if h == w else "h>w" if h > w else "w>h"
    vals = [v for row in p for v in row if v >= 0]
    if not vals:
        shape += " no clues"
    elif 0 in vals:
        shape += " with 0 clue"
    return shape


def instances(tier, rnd):
    quick = tier == "quick"
    shapes = [(1, 1), (1, 2), (2, 1), (1, 3), (3, 1), (1, 6), (6, 1), (2, 2), (2, 3), (3, 2), (3, 3), (2, 5), (5, 2),
              (3, 4), (4, 3)]
    if not quick:
        shapes += [(1, 9), (9, 1), (2, 4), (4, 2), (2, 6), (6, 2), (2, 7), (7, 2), (3, 5), (5, 3)]
    per = 8 if quick else 110
    for (h, w) in shapes:
        n = h * w
        empty = [[-1] * w for _ in range(h)]
        yield dict(height=h, width=w, problem=empty)
        base = solutions(dict(height=h, width=w, problem=empty))
        cells = [(y, x) for y in range(h) for x in range(w)]
        for i in range(per if n > 2 else 3):
            p = [row[:] for row in empty]
            mode = i % 5
            if mode in (0, 1, 2) and base:
                sol = rnd.choice(base)
                numbered = [c for c in cells if sol[("has",) + c]]
                if numbered:
                    for c in rnd.sample(numbered, rnd.randint(1, min(len(numbered), 4))):
                        p[c[0]][c[1]] = sol[("num",) + c]
                if mode == 2:      # perturb / add one given number
                    c = rnd.choice(cells)
                    p[c[0]][c[1]] = rnd.randint(0, h + w - 1)
            else:
                for c in rnd.sample(cells, rnd.randint(1, min(n, 3))):
                    p[c[0]][c[1]] = rnd.randint(0, h + w - 2) if rnd.random() < 0.9 else h + w + rnd.randint(0, 1)
            yield dict(height=h, width=w, problem=p)


# The only recorded instance in /repo (view.py _main(), https://twitter.com/semiexp/status/1210955179270393856) is
# 8x8 = 2^64 candidate grids and its solution is not recorded, so a hand-made 3x3 puzzle is used instead:
#     0 3 .
#     . . .
#     . . .
# By hand: the 0 at (0,0) sees no empty cell, so (1,0) holds a number.  The 3 at (0,1) can see at most (0,2),
# (1,1), (2,1) (its left neighbour is a number), so all three are empty.  (1,2) and (2,2) then touch only empty
# cells and each other, so they cannot join the numbered area: empty.  If (2,0) held a number, it would see
# (2,1),(2,2) = 2 and (1,0) would see (1,1),(1,2) = 2: equal neighbours, forbidden.  So (2,0) is empty and (1,0)
# sees (1,1),(1,2),(2,0) = 3.  Numbered cells (0,0),(0,1),(1,0) are connected, neighbours differ (0-3, 0-3).
_EX_NUM = [[0, 3, None], [3, None, None], [None, None, None]]
_EX_SOL = {}
for _y in range(3):
    for _x in range(3):
        _EX_SOL[("has", _y, _x)] = _EX_NUM[_y][_x] is not None
        _EX_SOL[("num", _y, _x)] = _EX_NUM[_y][_x] or 0
EXAMPLES = [
    (dict(height=3, width=3, problem=[[0, 3, -1], [-1, -1, -1], [-1, -1, -1]]), _EX_SOL),
]
