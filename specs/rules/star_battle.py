"""Star Battle oracle, written from the published rules (puzz.link "Star Battle"):

  1. Every row, every column and every region contains exactly k stars.
  2. Stars never touch each other, not even diagonally (no two stars in cells sharing an edge or a corner).

Problem format of the real solver: solve_star_battle(n, blocks, k) on an n x n board; blocks[y][x] is the region
id of the cell, the regions are numbered 0..n-1 (a Star Battle board of size n has exactly n regions).
Answer: has_star[y, x].
Generated instances always use exactly the ids 0..n-1, every id at least once; regions are connected except
for a few deliberately disconnected ones (the rules do not depend on connectivity).  k = 0 is allowed by the
format (answer: empty board).
"""
import itertools

MODULE = "cspuz.puzzle.star_battle"


def run_real(mod, inst):
    n = inst["n"]
    is_sat, has_star = mod.solve_star_battle(n, inst["blocks"], inst["k"])
    if not is_sat:
        return False, {}
    return True, {(y, x): has_star[y, x].sol for y in range(n) for x in range(n)}


def check(n, blocks, k, star):
    """star[y][x] booleans"""
    for i in range(n):
        if sum(1 for x in range(n) if star[i][x]) != k:
            return False
        if sum(1 for y in range(n) if star[y][i]) != k:
            return False
    regions = {}
    for y in range(n):
        for x in range(n):
            regions.setdefault(blocks[y][x], []).append((y, x))
    for cells in regions.values():
        if sum(1 for (y, x) in cells if star[y][x]) != k:
            return False
    for y in range(n):
        for x in range(n):
            if not star[y][x]:
                continue
            for dy in (-1, 0, 1):
                for dx in (-1, 0, 1):
                    if (dy, dx) != (0, 0) and 0 <= y + dy < n and 0 <= x + dx < n and star[y + dy][x + dx]:
                        return False
    return True


def solutions(inst, limit=100000):
    n, blocks, k = inst["n"], inst["blocks"], inst["k"]
    ids = sorted({blocks[y][x] for y in range(n) for x in range(n)})
    assert ids == list(range(n)), "instances must use exactly the region ids 0..n-1"
    star = [[False] * n for _ in range(n)]
    col = [0] * n
    reg = {i: 0 for i in ids}
    out = []
    if k < 0:
        return out
    row_choices = [c for c in itertools.combinations(range(n), k) if all(b - a >= 2 for a, b in zip(c, c[1:]))]

    def rec(y):
        if len(out) >= limit:
            return
        if y == n:
            if check(n, blocks, k, star):
                out.append({(a, b): star[a][b] for a in range(n) for b in range(n)})
            return
        for choice in row_choices:
            ok = True
            for x in choice:
                if col[x] + 1 > k:
                    ok = False
                if y > 0 and (star[y - 1][x] or (x > 0 and star[y - 1][x - 1]) or (x + 1 < n and star[y - 1][x + 1])):
                    ok = False
            if not ok:
                continue
            for x in choice:
                star[y][x] = True
                col[x] += 1
                reg[blocks[y][x]] += 1
            if all(v <= k for v in reg.values()):
                rec(y + 1)
            for x in choice:
                star[y][x] = False
                col[x] -= 1
                reg[blocks[y][x]] -= 1

    rec(0)
    return out


def _region_connected(n, blocks, g):
    cells = {(y, x) for y in range(n) for x in range(n) if blocks[y][x] == g}
    start = next(iter(cells))
    seen = {start}
    stack = [start]
    while stack:
        y, x = stack.pop()
        for c in ((y - 1, x), (y + 1, x), (y, x - 1), (y, x + 1)):
            if c in cells and c not in seen:
                seen.add(c)
                stack.append(c)
    return len(seen) == len(cells)


def classify(inst):
    n, k = inst["n"], inst["k"]
    tags = ["n=%d" % n, "k=%d" % k]
    if not all(_region_connected(n, inst["blocks"], g) for g in range(n)):
        tags.append("disconnected region")
    return ", ".join(tags)


def _grow(n, seeds, rnd):
    """regions grown orthogonally from the given seed cells (one region per seed)"""
    owner = {c: i for i, c in enumerate(seeds)}
    while len(owner) < n * n:
        frontier = []
        for (y, x), i in owner.items():
            for c in ((y - 1, x), (y + 1, x), (y, x - 1), (y, x + 1)):
                if 0 <= c[0] < n and 0 <= c[1] < n and c not in owner:
                    frontier.append((c, i))
        c, i = rnd.choice(frontier)
        owner[c] = i
    return [[owner[(y, x)] for x in range(n)] for y in range(n)]


def _random_blocks(n, rnd, mode):
    cells = [(y, x) for y in range(n) for x in range(n)]
    if mode == "scatter":                     # arbitrary (mostly disconnected) regions, every id used
        blocks = [[rnd.randrange(n) for _ in range(n)] for _ in range(n)]
        for i, (y, x) in enumerate(rnd.sample(cells, n)):
            blocks[y][x] = i
        # make sure every id is still present
        present = {blocks[y][x] for (y, x) in cells}
        if present != set(range(n)):
            return _random_blocks(n, rnd, mode)
        return blocks
    if mode == "around-solution":             # regions grown around the stars of a legal 1-star placement
        perms = [p for p in itertools.permutations(range(n)) if all(abs(p[i] - p[i + 1]) >= 2 for i in range(n - 1))]
        if perms:
            p = rnd.choice(perms)
            return _grow(n, [(y, p[y]) for y in range(n)], rnd)
    if mode == "bands":
        rows = [[y] * n for y in range(n)]
        if rnd.random() < 0.5:
            return rows
        return [[x for x in range(n)] for _ in range(n)]
    return _grow(n, rnd.sample(cells, n), rnd)


def instances(tier, rnd):
    quick = tier == "quick"
    for k in (0, 1, 2):
        yield dict(n=1, k=k, blocks=[[0]])
    for k in (0, 1):
        yield dict(n=2, k=k, blocks=[[0, 0], [1, 1]])
        yield dict(n=2, k=k, blocks=[[0, 1], [0, 1]])
        yield dict(n=3, k=k, blocks=[[0, 0, 0], [1, 1, 1], [2, 2, 2]])
        yield dict(n=3, k=k, blocks=[[0, 1, 2], [0, 1, 2], [0, 1, 2]])
        yield dict(n=4, k=k, blocks=[[0, 0, 0, 0], [1, 1, 1, 1], [2, 2, 2, 2], [3, 3, 3, 3]])
        yield dict(n=4, k=k, blocks=[[0, 0, 1, 1], [0, 0, 1, 1], [2, 2, 3, 3], [2, 2, 3, 3]])
    yield dict(n=4, k=2, blocks=[[0, 0, 0, 0], [1, 1, 1, 1], [2, 2, 2, 2], [3, 3, 3, 3]])
    yield dict(n=5, k=2, blocks=[[y] * 5 for y in range(5)])
    plan = [(2, 3), (3, 5), (4, 30), (5, 30), (6, 12)] if quick else [(2, 10), (3, 60), (4, 500), (5, 600), (6, 200), (7, 40)]
    modes = ["grow", "around-solution", "grow", "scatter", "around-solution", "bands", "grow", "around-solution"]
    for n, count in plan:
        for i in range(count):
            blocks = _random_blocks(n, rnd, modes[i % len(modes)])
            k = 1
            r = rnd.random()
            if r < 0.06:
                k = 0
            elif r < 0.12:
                k = 2
            yield dict(n=n, k=k, blocks=blocks)


# The module's own example (_main() and tests/puzzle/test_star_battle.py,
# http://pzv.jp/p.html?starbattle/6/6/1/2u9gn9c9jpmk).  The repository records no answer; the answer below was
# computed with this oracle (exhaustive search, exactly one legal placement), re-checked by hand (one star in
# every row, column and region, no two stars touching) and validate() cross-checks it against the real solver.
_EX_BLOCKS = [
    [0, 0, 0, 0, 1, 1],
    [0, 2, 3, 0, 1, 1],
    [2, 2, 3, 3, 3, 1],
    [2, 1, 1, 1, 1, 1],
    [2, 4, 4, 1, 4, 5],
    [2, 2, 4, 4, 4, 5],
]
_EX_ANSWER = [".*....", "....*.", "..*...", "*.....", ".....*", "...*.."]
EXAMPLES = [
    (dict(n=6, k=1, blocks=_EX_BLOCKS), {(y, x): _EX_ANSWER[y][x] == "*" for y in range(6) for x in range(6)}),
    # 1x1 board with one star
    (dict(n=1, k=1, blocks=[[0]]), {(0, 0): True}),
]
