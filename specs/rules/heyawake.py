"""Heyawake oracle, written from the published rules (Nikoli / puzz.link):

  1. Black cells are never orthogonally adjacent.
  2. All white cells form one orthogonally connected group.
  3. A room with a number contains exactly that many black cells (rooms without number: any amount).
  4. A straight (horizontal or vertical) line of consecutive white cells never stretches over more than two
     rooms, i.e. it crosses at most one room border.

Interpretation decisions:
  * rule 4 is implemented as "a maximal straight run of white cells crosses at most one room border" (this is
    the puzz.link/pzprjs checker's reading).  For the rectangular rooms of a real Heyawake this is the same
    as "touches at most two rooms"; for non-rectangular rooms (accepted by the (rooms, clues) input form) a
    run A|B|A counts as two crossings.
  * rule 2 with zero white cells (only possible on the 1x1 board) counts as satisfied (vacuous).

Problem format of the real solver: solve_heyawake(height, width, [(y0, x0, y1, x1, n), ...]) (half-open
rectangles) or solve_heyawake(height, width, rooms, clues) with rooms = lists of (y, x); n = -1 means no
number, n >= 0 is a number (0 is a legal clue).  Answer: is_black[y, x].
"""

MODULE = "cspuz.puzzle.heyawake"


def _rooms_clues(inst):
    if "rect" in inst:
        rooms, clues = [], []
        for y0, x0, y1, x1, n in inst["rect"]:
            rooms.append([(y, x) for y in range(y0, y1) for x in range(x0, x1)])
            clues.append(n)
        return rooms, clues
    return [[(y, x) for y, x in room] for room in inst["rooms"]], list(inst["clues"])


def run_real(mod, inst):
    h, w = inst["height"], inst["width"]
    if "rect" in inst:
        is_sat, is_black = mod.solve_heyawake(h, w, [tuple(r) for r in inst["rect"]])
    else:
        rooms, clues = _rooms_clues(inst)
        is_sat, is_black = mod.solve_heyawake(h, w, rooms, clues)
    if not is_sat:
        return False, {}
    return True, {(y, x): is_black[y, x].sol for y in range(h) for x in range(w)}


def _room_id(h, w, rooms):
    rid = [[None] * w for _ in range(h)]
    for i, room in enumerate(rooms):
        for (y, x) in room:
            assert rid[y][x] is None
            rid[y][x] = i
    assert all(rid[y][x] is not None for y in range(h) for x in range(w))
    return rid


def _line_ok(cells, black, rid):
    """cells: one full row or column in order; every maximal white run crosses <= 1 room border"""
    crossings = 0
    prev = None
    for (y, x) in cells:
        if black[y][x]:
            prev = None
            crossings = 0
            continue
        if prev is not None and rid[prev[0]][prev[1]] != rid[y][x]:
            crossings += 1
            if crossings >= 2:
                return False
        prev = (y, x)
    return True


def check(h, w, rooms, clues, rid, black):
    for y in range(h):
        for x in range(w):
            if black[y][x]:
                if y + 1 < h and black[y + 1][x]:
                    return False
                if x + 1 < w and black[y][x + 1]:
                    return False
    whites = [(y, x) for y in range(h) for x in range(w) if not black[y][x]]
    if whites:
        seen = {whites[0]}
        stack = [whites[0]]
        while stack:
            y, x = stack.pop()
            for ny, nx in ((y - 1, x), (y + 1, x), (y, x - 1), (y, x + 1)):
                if 0 <= ny < h and 0 <= nx < w and not black[ny][nx] and (ny, nx) not in seen:
                    seen.add((ny, nx))
                    stack.append((ny, nx))
        if len(seen) != len(whites):
            return False
    for room, n in zip(rooms, clues):
        if n >= 0 and sum(1 for (y, x) in room if black[y][x]) != n:
            return False
    for y in range(h):
        if not _line_ok([(y, x) for x in range(w)], black, rid):
            return False
    for x in range(w):
        if not _line_ok([(y, x) for y in range(h)], black, rid):
            return False
    return True


def solutions(inst, limit=100000):
    h, w = inst["height"], inst["width"]
    rooms, clues = _rooms_clues(inst)
    rid = _room_id(h, w, rooms)
    black = [[None] * w for _ in range(h)]
    count = [0] * len(rooms)
    left = [len(r) for r in rooms]          # undecided cells per room
    out = []

    def run_bad(y, x):
        # the (decided) white run ending at (y, x), looking left and up, already crosses two borders
        c, px = 0, x
        while px - 1 >= 0 and not black[y][px - 1]:
            if rid[y][px - 1] != rid[y][px]:
                c += 1
            px -= 1
        if c >= 2:
            return True
        c, py = 0, y
        while py - 1 >= 0 and not black[py - 1][x]:
            if rid[py - 1][x] != rid[py][x]:
                c += 1
            py -= 1
        return c >= 2

    def rec(k):
        if len(out) >= limit:
            return
        if k == h * w:
            if check(h, w, rooms, clues, rid, black):
                out.append({(y, x): black[y][x] for y in range(h) for x in range(w)})
            return
        y, x = divmod(k, w)
        r = rid[y][x]
        left[r] -= 1
        for v in (False, True):
            if v:
                if (y > 0 and black[y - 1][x]) or (x > 0 and black[y][x - 1]):
                    continue
                if clues[r] >= 0 and count[r] + 1 > clues[r]:
                    continue
            else:
                if clues[r] >= 0 and count[r] + left[r] < clues[r]:
                    continue
            black[y][x] = v
            if v:
                count[r] += 1
            if v or not run_bad(y, x):
                rec(k + 1)
            if v:
                count[r] -= 1
            black[y][x] = None
        left[r] += 1

    rec(0)
    return out


def classify(inst):
    h, w = inst["height"], inst["width"]
    shape = "1xN board" if h == 1 or w == 1 else ("square" if h == w else ("h>w" if h > w else "h<w"))
    rooms, clues = _rooms_clues(inst)
    tags = [shape, "rectangles" if "rect" in inst else "free-form rooms"]
    if 0 in clues:
        tags.append("zero clue")
    if all(c < 0 for c in clues):
        tags.append("no clue")
    return ", ".join(tags)


# ---------------------------------------------------------------- instance generation

def _rect_partition(y0, x0, y1, x1, rnd, p_split):
    hh, ww = y1 - y0, x1 - x0
    cuts = [("h", y) for y in range(y0 + 1, y1)] + [("v", x) for x in range(x0 + 1, x1)]
    if not cuts or rnd.random() > p_split:
        return [(y0, x0, y1, x1)]
    kind, c = rnd.choice(cuts)
    if kind == "h":
        return _rect_partition(y0, x0, c, x1, rnd, p_split * 0.8) + _rect_partition(c, x0, y1, x1, rnd, p_split * 0.8)
    return _rect_partition(y0, x0, y1, c, rnd, p_split * 0.8) + _rect_partition(y0, c, y1, x1, rnd, p_split * 0.8)


def _free_partition(h, w, rnd):
    """random partition of the board into orthogonally connected rooms (lists of [y, x])"""
    cells = [(y, x) for y in range(h) for x in range(w)]
    k = rnd.randint(1, max(1, min(len(cells), 5)))
    seeds = rnd.sample(cells, k)
    owner = {c: i for i, c in enumerate(seeds)}
    while len(owner) < len(cells):
        frontier = []
        for (y, x), i in owner.items():
            for n in ((y - 1, x), (y + 1, x), (y, x - 1), (y, x + 1)):
                if 0 <= n[0] < h and 0 <= n[1] < w and n not in owner:
                    frontier.append((n, i))
        n, i = rnd.choice(frontier)
        owner[n] = i
    rooms = [[] for _ in range(k)]
    for c in cells:
        rooms[owner[c]].append([c[0], c[1]])
    return rooms


def _with_clues(inst, rnd, mode):
    """fill the clue slots: derive them from a random legal grid of the clue-less board, then perturb"""
    rooms, clues = _rooms_clues(inst)
    sols = solutions(inst, limit=400)
    n = len(rooms)
    if sols:
        sol = rnd.choice(sols)
        new = [sum(1 for c in room if sol[c]) for room in rooms]
    else:
        new = [rnd.randint(0, 1) for _ in rooms]
    if mode == "all":
        pass
    elif mode == "some":
        new = [c if rnd.random() < 0.5 else -1 for c in new]
    elif mode == "perturb":
        i = rnd.randrange(n)
        new[i] = max(0, new[i] + rnd.choice([-1, 1, 1, 2]))
        new = [c if (j == i or rnd.random() < 0.5) else -1 for j, c in enumerate(new)]
    elif mode == "random":
        new = [rnd.choice([-1, -1, 0, 1, 2, 3]) for _ in rooms]
    inst = dict(inst)
    if "rect" in inst:
        inst["rect"] = [[r[0], r[1], r[2], r[3], c] for r, c in zip(inst["rect"], new)]
    else:
        inst["clues"] = new
    return inst


_SHAPES_QUICK = [(1, 1), (1, 2), (1, 4), (1, 7), (3, 1), (2, 2), (2, 3), (3, 2), (3, 3), (2, 5), (4, 2), (3, 4), (4, 3)]
_SHAPES_MORE = [(1, 3), (1, 5), (1, 10), (6, 1), (2, 4), (5, 2), (2, 6), (4, 4), (3, 5)]


def instances(tier, rnd):
    quick = tier == "quick"
    # fixed corner cases
    yield dict(height=1, width=1, rect=[[0, 0, 1, 1, -1]])
    yield dict(height=1, width=1, rect=[[0, 0, 1, 1, 0]])
    yield dict(height=1, width=1, rect=[[0, 0, 1, 1, 1]])
    yield dict(height=1, width=1, rect=[[0, 0, 1, 1, 2]])
    yield dict(height=1, width=2, rect=[[0, 0, 1, 2, 1]])
    yield dict(height=1, width=3, rect=[[0, 0, 1, 1, -1], [0, 1, 1, 2, -1], [0, 2, 1, 3, -1]])
    yield dict(height=1, width=3, rect=[[0, 0, 1, 1, 0], [0, 1, 1, 2, 0], [0, 2, 1, 3, 0]])
    yield dict(height=3, width=1, rect=[[0, 0, 1, 1, -1], [1, 0, 2, 1, -1], [2, 0, 3, 1, -1]])
    yield dict(height=1, width=3, rect=[[0, 0, 1, 3, 2]])
    yield dict(height=2, width=2, rect=[[0, 0, 2, 2, 2]])
    yield dict(height=2, width=2, rect=[[0, 0, 2, 2, 3]])
    yield dict(height=2, width=2, rooms=[[[0, 0], [1, 1]], [[0, 1], [1, 0]]], clues=[2, 0])
    yield dict(height=3, width=3, rect=[[0, 0, 3, 3, 5]])
    yield dict(height=3, width=3, rect=[[0, 0, 3, 3, 4]])
    yield dict(height=3, width=3, rect=[[0, 0, 1, 3, -1], [1, 0, 2, 3, -1], [2, 0, 3, 3, -1]])
    yield dict(height=3, width=3, rect=[[0, 0, 3, 1, 0], [0, 1, 3, 2, 0], [0, 2, 3, 3, 0]])
    # a U-shaped room: the run (0,0)-(0,1)-(0,2) leaves and re-enters room 0
    yield dict(height=2, width=3, rooms=[[[0, 0], [1, 0], [1, 1], [1, 2], [0, 2]], [[0, 1]]], clues=[-1, -1])
    yield dict(height=2, width=3, rooms=[[[0, 0], [1, 0], [1, 1], [1, 2], [0, 2]], [[0, 1]]], clues=[-1, 0])
    shapes = _SHAPES_QUICK if quick else _SHAPES_QUICK + _SHAPES_MORE
    per_shape = 7 if quick else 70
    modes = ["all", "some", "perturb", "random", "none", "perturb", "some"]
    for (h, w) in shapes:
        for i in range(per_shape):
            if i % 3 == 2:
                base = dict(height=h, width=w, rooms=_free_partition(h, w, rnd), clues=None)
                base["clues"] = [-1] * len(base["rooms"])
            else:
                rects = _rect_partition(0, 0, h, w, rnd, rnd.choice([0.7, 0.9, 1.0]))
                base = dict(height=h, width=w, rect=[[a, b, c, d, -1] for (a, b, c, d) in rects])
            mode = modes[i % len(modes)]
            yield base if mode == "none" else _with_clues(base, rnd, mode)


def history_instances(tier, rnd):
    """sequences for the history pass of the driver (a caller that keeps its rooms/clues lists and edits them in
    place between calls): free-form room layouts of one board size in a row, so that consecutive calls differ in
    the layout only"""
    n = 10 if tier == "quick" else 60
    for (h, w) in ((3, 4), (4, 3), (2, 5), (1, 5)):
        for i in range(n):
            base = dict(height=h, width=w, rooms=_free_partition(h, w, rnd), clues=None)
            base["clues"] = [-1] * len(base["rooms"])
            yield base if i % 3 == 0 else _with_clues(base, rnd, ["some", "random", "all"][i % 3])


# The module's own example (_main(), http://pzv.jp/p.html?heyawake/6/6/aa66aapv0fu0g2i3k).  The repository records
# no answer for it; the answer below was computed with this oracle (exhaustive search: exactly one legal grid)
# and every rule was re-checked by hand on it:
#     # . # . . #      rooms (rows of room letters):   a a b b c c
#     . . . # . .                                      d d b b e e
#     . # . . # .                                      f f f g e e
#     # . # . . .                                      f f f g h h
#     . . . # . #                                      i i j j k k
#     . # . . . .                                      i i j j k k     b = 2, f = 3
_EX_RECT = [
    [0, 0, 1, 2, -1], [0, 2, 2, 4, 2], [0, 4, 1, 6, -1], [1, 0, 2, 2, -1], [1, 4, 3, 6, -1], [2, 0, 4, 3, 3],
    [2, 3, 4, 4, -1], [3, 4, 4, 6, -1], [4, 0, 6, 2, -1], [4, 2, 6, 4, -1], [4, 4, 6, 6, -1],
]
_EX_ANSWER = ["#.#..#", "...#..", ".#..#.", "#.#...", "...#.#", ".#...."]
EXAMPLES = [
    (dict(height=6, width=6, rect=_EX_RECT),
     {(y, x): _EX_ANSWER[y][x] == "#" for y in range(6) for x in range(6)}),
]
