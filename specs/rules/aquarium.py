"""Aquarium oracle (puzz.link rules, default variant).

The board is divided into regions (tanks).
1. Fill some cells with water.
2. A number outside the grid is the number of water cells in its row / column.
3. Water is level and does not float inside a tank:
   a. two horizontally adjacent cells of the same region are both water or both empty
      ("a body of water has one surface level");
   b. if a cell is water, the cell directly below it is water too when it belongs to the same region.

Variant note (interpretation decision).  The original rule text of the puzzle's inventor says "the water
level in each aquarium is one and the same across its full width"; puzz.link offers this as the optional
variant "water levels are equal across a whole region" and uses the local rule 3a/3b by default (its
error messages: "a body of water has different surface levels", "a water cell has an empty cell
underneath").  The two readings differ only for regions that hold two cells of one row which are not
joined inside that row (U-shaped tanks etc.).  solve_aquarium / problem_to_url produce default-variant
puzz.link URLs, so the default variant is the reference here; `solutions(inst, regional=True)` gives the
other reading, and classify() marks instances on which the two readings differ as "variant-sensitive".

Problem format (solve_aquarium(height, width, blocks, clue_row, clue_col)): blocks is a list of regions,
each a list of (y, x) cells, together covering the board; clue_row[y], clue_col[x] are -1 (no clue) or the
count.  Answer: is_water[y, x].
"""

MODULE = "cspuz.puzzle.aquarium"


def run_real(mod, inst):
    h, w = inst["height"], inst["width"]
    blocks = [[(y, x) for (y, x) in b] for b in inst["blocks"]]
    is_sat, ans = mod.solve_aquarium(h, w, blocks, inst["clue_row"], inst["clue_col"])
    if not is_sat:
        return is_sat, {}
    return is_sat, {(y, x): ans[y, x].sol for y in range(h) for x in range(w)}


def solutions(inst, regional=False):
    h, w = inst["height"], inst["width"]
    cells = [(y, x) for y in range(h) for x in range(w)]
    region = {}
    for i, b in enumerate(inst["blocks"]):
        for (y, x) in b:
            region[(y, x)] = i
    assert len(region) == h * w, "blocks must cover the board"
    cr, cc = inst["clue_row"], inst["clue_col"]
    out = []
    for mask in range(1 << len(cells)):
        water = {c: bool(mask >> i & 1) for i, c in enumerate(cells)}
        ok = True
        for y in range(h):
            if cr[y] >= 0 and sum(1 for x in range(w) if water[(y, x)]) != cr[y]:
                ok = False
                break
        if not ok:
            continue
        for x in range(w):
            if cc[x] >= 0 and sum(1 for y in range(h) if water[(y, x)]) != cc[x]:
                ok = False
                break
        if not ok:
            continue
        if regional:
            # one level per region: water exactly in the rows at or below the level
            for c in cells:
                if water[c]:
                    for d in cells:
                        if region[d] == region[c] and d[0] >= c[0] and not water[d]:
                            ok = False
                            break
                if not ok:
                    break
        else:
            for (y, x) in cells:
                if x + 1 < w and region[(y, x)] == region[(y, x + 1)] and water[(y, x)] != water[(y, x + 1)]:
                    ok = False
                    break
                if y + 1 < h and region[(y, x)] == region[(y + 1, x)] and water[(y, x)] and not water[(y + 1, x)]:
                    ok = False
                    break
        if ok:
            out.append(water)
    return out


def _key(sols):
    return sorted(tuple(sorted(s.items())) for s in sols)


def classify(inst):
    h, w = inst["height"], inst["width"]
    k = "1x1" if h * w == 1 else "1xN" if h == 1 else "Nx1" if w == 1 else "square" if h == w else "h>w" if h > w else "w>h"
    if _key(solutions(inst)) != _key(solutions(inst, regional=True)):
        k += ",variant-sensitive"
    return k


def _random_blocks(h, w, rnd):
    """random division into orthogonally connected regions: start from single cells, merge neighbours"""
    cells = [(y, x) for y in range(h) for x in range(w)]
    rid = {c: i for i, c in enumerate(cells)}
    pairs = []
    for (y, x) in cells:
        if x + 1 < w:
            pairs.append(((y, x), (y, x + 1)))
        if y + 1 < h:
            pairs.append(((y, x), (y + 1, x)))
    rnd.shuffle(pairs)
    merges = rnd.randint(0, len(cells) - 1)
    for (a, b) in pairs:
        if merges == 0:
            break
        if rid[a] != rid[b]:
            old, new = rid[b], rid[a]
            for c in cells:
                if rid[c] == old:
                    rid[c] = new
            merges -= 1
    groups = {}
    for c in cells:
        groups.setdefault(rid[c], []).append([c[0], c[1]])
    blocks = list(groups.values())
    rnd.shuffle(blocks)
    return blocks


def instances(tier, rnd):
    quick = tier == "quick"
    shapes = [(1, 1), (1, 2), (2, 1), (1, 4), (4, 1), (2, 2), (2, 3), (3, 2), (3, 3), (2, 4), (4, 2)]
    if not quick:
        shapes += [(1, 3), (3, 1), (1, 6), (6, 1), (2, 5), (5, 2), (3, 4), (4, 3)]
    per = 10 if quick else 110
    # U-shaped tanks (the two readings of rule 3 differ here), width >= height so that the real solver runs
    for (h, w, lay) in ((2, 3, ["ABA", "AAA"]), (2, 4, ["ABBA", "AAAA"]), (3, 3, ["ABA", "ABA", "AAA"]),
                        (3, 4, ["ABCA", "ABAA", "AAAB"]), (2, 5, ["ABACA", "AAAAA"])):
        regs = {}
        for y in range(h):
            for x in range(w):
                regs.setdefault(lay[y][x], []).append([y, x])
        # (tanks need not be connected in the problem format: the last layout has a two-part tank B)
        for j in range(3 if quick else 12):
            yield dict(height=h, width=w, blocks=list(regs.values()),
                       clue_row=[rnd.choice([-1, -1, rnd.randint(0, w)]) for _ in range(h)],
                       clue_col=[rnd.choice([-1, -1, rnd.randint(0, h)]) for _ in range(w)])
    for (h, w) in shapes:
        cells = [(y, x) for y in range(h) for x in range(w)]
        yield dict(height=h, width=w, blocks=[[[y, x] for (y, x) in cells]], clue_row=[-1] * h, clue_col=[-1] * w)
        yield dict(height=h, width=w, blocks=[[[y, x]] for (y, x) in cells], clue_row=[-1] * h, clue_col=[-1] * w)
        n = min(per, 3 + 2 * h * w) if quick else min(per, 4 + 10 * h * w)
        for i in range(n):
            blocks = _random_blocks(h, w, rnd)
            inst = dict(height=h, width=w, blocks=blocks, clue_row=[-1] * h, clue_col=[-1] * w)
            mode = i % 5
            if mode <= 2:
                sols = solutions(inst)
                sol = rnd.choice(sols)
                rows = [sum(1 for x in range(w) if sol[(y, x)]) for y in range(h)]
                cols = [sum(1 for y in range(h) if sol[(y, x)]) for x in range(w)]
                inst["clue_row"] = [rows[y] if rnd.random() < 0.7 else -1 for y in range(h)]
                inst["clue_col"] = [cols[x] if rnd.random() < 0.7 else -1 for x in range(w)]
                if mode == 2:
                    if rnd.random() < 0.5:
                        inst["clue_row"][rnd.randrange(h)] = rnd.randint(0, w)
                    else:
                        inst["clue_col"][rnd.randrange(w)] = rnd.randint(0, h)
            else:
                inst["clue_row"] = [rnd.choice([-1, rnd.randint(0, w)]) for _ in range(h)]
                inst["clue_col"] = [rnd.choice([-1, rnd.randint(0, h)]) for _ in range(w)]
            yield inst


# --- recorded example ---------------------------------------------------------------------------
# aquarium._main() holds no example and there is none in /repo/tests or /repo/bench.  Hand-made 3x3
# puzzle with a hand-verified unique solution (tanks A, B, C; row clues on the left, column clues on top,
# '-' = no clue):
#         - - 1
#       2 A A B          # # .
#       1 A C B    ->    # . .       ('#' water)
#       3 A C B          # # #
# Hand check: row 2 holds 3 water cells: all of it.  Column 2 holds exactly 1, which is (2,2), so (0,2) and
# (1,2) are empty.  Row 0 then needs (0,0) and (0,1) (level in tank A), and water in (0,0) forces (1,0)
# (and (2,0)) below it in the same tank.  Row 1 holds exactly 1: (1,0), so (1,1) is empty.
_EX_BLOCKS = [[[0, 0], [0, 1], [1, 0], [2, 0]], [[0, 2], [1, 2], [2, 2]], [[1, 1], [2, 1]]]
_EX_ANSWER = ["##.", "#..", "###"]
EXAMPLES = [
    (dict(height=3, width=3, blocks=_EX_BLOCKS, clue_row=[2, 1, 3], clue_col=[-1, -1, 1]),
     {(y, x): _EX_ANSWER[y][x] == "#" for y in range(3) for x in range(3)}),
]
