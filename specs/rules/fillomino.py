"""Fillomino oracle (Nikoli rules).

1. Divide the grid into blocks (polyominoes) along the cell borders.
2. A number is the size (cell count) of the block containing it; a block may hold several (equal)
   numbers or none.
3. Two blocks of the same size do not share a border segment.
Answer reported by the solver: the size of the block of every cell.  (Because of rule 3 the blocks
are exactly the connected components of equal answer values, so the size grid determines the division.)
Variant `checkered` ("Checkered Fillomino"): additionally the blocks can be coloured with two colours
such that blocks sharing a border segment have different colours.

Problem format (solve_fillomino(height, width, problem, checkered=False)): problem[y][x] >= 1 is a
clue, anything else (0, -1) is an empty cell.
"""

MODULE = "cspuz.puzzle.fillomino"


def run_real(mod, inst):
    h, w = inst["height"], inst["width"]
    if inst.get("checkered"):
        is_sat, ans = mod.solve_fillomino(h, w, inst["problem"], checkered=True)
    else:
        is_sat, ans = mod.solve_fillomino(h, w, inst["problem"])
    if not is_sat:
        return is_sat, {}
    return is_sat, {(y, x): ans[y, x].sol for y in range(h) for x in range(w)}


def _nbrs(h, w, c):
    y, x = c
    if y > 0:
        yield (y - 1, x)
    if y < h - 1:
        yield (y + 1, x)
    if x > 0:
        yield (y, x - 1)
    if x < w - 1:
        yield (y, x + 1)


def solutions(inst, limit=200000):
    h, w = inst["height"], inst["width"]
    p = inst["problem"]
    checkered = bool(inst.get("checkered"))
    clue = {(y, x): p[y][x] for y in range(h) for x in range(w) if p[y][x] >= 1}
    cells = [(y, x) for y in range(h) for x in range(w)]
    size = {}     # cell -> size of its (placed) block
    owner = {}    # cell -> block index
    blocks = []
    out = []

    def bipartite():
        nb = len(blocks)
        adj = [set() for _ in range(nb)]
        for c in cells:
            for d in _nbrs(h, w, c):
                if owner[c] != owner[d]:
                    adj[owner[c]].add(owner[d])
        col = [None] * nb
        for s in range(nb):
            if col[s] is not None:
                continue
            col[s] = 0
            st = [s]
            while st:
                u = st.pop()
                for v in adj[u]:
                    if col[v] is None:
                        col[v] = 1 - col[u]
                        st.append(v)
                    elif col[v] == col[u]:
                        return False
        return True

    def place(S):
        s = len(S)
        # every clue inside equals the size
        for c in S:
            if c in clue and clue[c] != s:
                return False
        # rule 3 against the blocks placed so far
        for c in S:
            for d in _nbrs(h, w, c):
                if d not in S and d in size and size[d] == s:
                    return False
        return True

    def rec():
        if len(out) >= limit:
            return
        root = None
        for c in cells:
            if c not in size:
                root = c
                break
        if root is None:
            if checkered and not bipartite():
                return
            out.append(dict(size))
            return
        free = sum(1 for c in cells if c not in size)

        # enumerate every connected set of unplaced cells containing root (each exactly once)
        def grow(S, cand, banned, want):
            # want: the clue value the set is committed to (or None)
            if want is None or len(S) == want:
                if place(S):
                    idx = len(blocks)
                    blocks.append(S)
                    for c in S:
                        size[c] = len(S)
                        owner[c] = idx
                    rec()
                    for c in S:
                        del size[c]
                        del owner[c]
                    blocks.pop()
            if want is not None and len(S) >= want:
                return
            if len(S) >= free:
                return
            cand = list(cand)
            banned = set(banned)
            while cand:
                c = cand.pop()
                nw = want
                if c in clue:
                    if want is not None and clue[c] != want:
                        banned.add(c)
                        continue
                    nw = clue[c]
                    if nw < len(S) + 1:
                        banned.add(c)
                        continue
                S2 = S | {c}
                ext = [d for d in _nbrs(h, w, c) if d not in size and d not in S2 and d not in banned and d not in cand]
                grow(S2, cand + ext, banned, nw)
                banned.add(c)

        S0 = frozenset([root])
        ext0 = [d for d in _nbrs(h, w, root) if d not in size]
        grow(S0, ext0, set(), clue.get(root))

    rec()
    return out


def classify(inst):
    h, w = inst["height"], inst["width"]
    k = "1x1" if h * w == 1 else "1xN" if h == 1 else "Nx1" if w == 1 else "square" if h == w else "h>w" if h > w else "w>h"
    if inst.get("checkered"):
        k += ",checkered"
    mx = max(max(r) for r in inst["problem"])
    if mx > h * w:
        k += ",clue>cells"
    return k


_CACHE = {}


def _all(h, w, checkered=False):
    key = (h, w, checkered)
    if key not in _CACHE:
        _CACHE[key] = solutions(dict(height=h, width=w, problem=[[0] * w for _ in range(h)], checkered=checkered))
    return _CACHE[key]


def instances(tier, rnd):
    quick = tier == "quick"
    shapes = [(1, 1), (1, 2), (2, 1), (1, 3), (3, 1), (1, 5), (4, 1), (2, 2), (2, 3), (3, 2), (3, 3), (2, 4), (4, 2)]
    if not quick:
        shapes += [(1, 6), (6, 1), (2, 5), (5, 2), (3, 4), (4, 3)]
    per = 8 if quick else 70
    for (h, w) in shapes:
        yield dict(height=h, width=w, problem=[[0] * w for _ in range(h)])
        base = _all(h, w)
        cells = [(y, x) for y in range(h) for x in range(w)]
        n = min(per, 3 + 2 * h * w) if quick else min(per, 2 + 8 * h * w)
        for i in range(n):
            sol = rnd.choice(base)
            k = rnd.randint(0, len(cells))
            chosen = rnd.sample(cells, k)
            empty = 0 if rnd.random() < 0.8 else -1
            prob = [[empty] * w for _ in range(h)]
            for (y, x) in chosen:
                prob[y][x] = sol[(y, x)]
            mode = i % 6
            if mode == 4:
                # perturb one cell: possibly contradictory
                y, x = rnd.choice(cells)
                prob[y][x] = rnd.randint(1, h * w + 1)
            elif mode == 5:
                # clues unrelated to any solution
                prob = [[rnd.choice([0, 0, 0, rnd.randint(1, min(h * w, 5))]) for _ in range(w)] for _ in range(h)]
            inst = dict(height=h, width=w, problem=prob)
            if i % 7 == 3:
                inst["checkered"] = True
            yield inst


# --- recorded example ---------------------------------------------------------------------------
# The example in fillomino._main() is 8x8 (too large for this brute force; there is no smaller one in
# /repo/tests or /repo/bench).  Hand-made 3x3 puzzle with a hand-verified unique solution:
#     3 . .        3 3 1
#     . 1 .   ->   3 1 4
#     4 . .        4 4 4
# Hand check: (1,1) is a monomino.  The 3-block of (0,0) cannot use (1,1) or (2,0), so it is the top
# row or the corner {(0,0),(0,1),(1,0)}.  Top row: five cells remain around the monomino, the 4-block
# of (2,0) takes four of them, the fifth is a monomino; the only leftover not touching the monomino
# (1,1) is (2,2), but then {(1,0),(2,0),(2,1),(1,2)} is disconnected -> impossible.  Corner: remaining
# cells (0,2),(1,2),(2,0),(2,1),(2,2); the 4-block must leave out one cell as a monomino and stay
# connected, which only works when (0,2) is left out.
_EX_PROBLEM = [[3, 0, 0], [0, 1, 0], [4, 0, 0]]
_EX_ANSWER = [[3, 3, 1], [3, 1, 4], [4, 4, 4]]
EXAMPLES = [
    (dict(height=3, width=3, problem=_EX_PROBLEM),
     {(y, x): _EX_ANSWER[y][x] for y in range(3) for x in range(3)}),
]
