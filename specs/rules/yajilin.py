"""Yajilin oracle (Nikoli rules).

Rules: blacken some cells and draw ONE closed loop (through cell centres, horizontal/vertical moves, no
crossing or branching) that passes through every cell that is neither black nor a clue cell.  The loop
never enters black cells or clue cells.  Black cells may not be orthogonally adjacent.  Clue cells are
never blackened; a clue "arrow + number" gives the number of black cells in the arrow's direction
between the clue and the board edge.
Library convention: the empty set of segments also counts as a loop (then every non-clue cell has to be
black).

Problem format of solve_yajilin(height, width, problem): problem[y][x] is ".." (ordinary cell), "??"
(clue cell without information) or <dir><number> with dir one of ^ v < > (e.g. "^0", ">12").
Returns (is_sat, grid_frame, black_cell); answer keys: BoolGridFrame(height-1, width-1) (horizontal[y, x]
joins cells (y,x)-(y,x+1), vertical[y, x] joins (y,x)-(y+1,x)) and black_cell[y, x] for every cell.
"""
import json

MODULE = "cspuz.puzzle.yajilin"

_CYCLES = {}


def all_loops(P, Q):
    """all loops on a P x Q lattice of points: list of (H, V) with H[y][x] (P x (Q-1)) the segment
    (y,x)-(y,x+1) and V[y][x] ((P-1) x Q) the segment (y,x)-(y+1,x); includes the empty loop."""
    if (P, Q) in _CYCLES:
        return _CYCLES[(P, Q)]
    res = []

    def blank():
        return [[0] * (Q - 1) for _ in range(P)], [[0] * Q for _ in range(P - 1)]

    res.append(blank())

    def emit(path):
        H, V = blank()
        for i in range(len(path)):
            (y1, x1), (y2, x2) = path[i], path[(i + 1) % len(path)]
            if y1 == y2:
                H[y1][min(x1, x2)] = 1
            else:
                V[min(y1, y2)][x1] = 1
        res.append((H, V))

    # every simple cycle has a unique smallest point s (row-major); its two neighbours on the cycle
    # are then the point to the right and the point below.  Walk from s to the right, return from below.
    for sy in range(P - 1):
        for sx in range(Q - 1):
            s = (sy, sx)
            goal = (sy + 1, sx)
            seen = {s, (sy, sx + 1)}
            path = [s, (sy, sx + 1)]

            def dfs():
                y, x = path[-1]
                for ny, nx in ((y, x + 1), (y + 1, x), (y, x - 1), (y - 1, x)):
                    if not (0 <= ny < P and 0 <= nx < Q):
                        continue
                    if (ny, nx) <= s or (ny, nx) in seen:
                        continue
                    path.append((ny, nx))
                    if (ny, nx) == goal:
                        emit(path)
                    else:
                        seen.add((ny, nx))
                        dfs()
                        seen.discard((ny, nx))
                    path.pop()

            dfs()
    _CYCLES[(P, Q)] = res
    return res


def _dims(inst):
    return inst["height"], inst["width"]


def run_real(mod, inst):
    h, w = _dims(inst)
    is_sat, gf, black = mod.solve_yajilin(h, w, inst["problem"])
    out = {}
    if is_sat:
        for y in range(h):
            for x in range(w - 1):
                out[("h", y, x)] = gf.horizontal[y, x].sol
        for y in range(h - 1):
            for x in range(w):
                out[("v", y, x)] = gf.vertical[y, x].sol
        for y in range(h):
            for x in range(w):
                out[("b", y, x)] = black[y, x].sol
    return is_sat, out


def degree(h, w, H, V, y, x):
    d = 0
    if x > 0 and H[y][x - 1]:
        d += 1
    if x < w - 1 and H[y][x]:
        d += 1
    if y > 0 and V[y - 1][x]:
        d += 1
    if y < h - 1 and V[y][x]:
        d += 1
    return d


def blacks_of(inst, H, V):
    """the black cells implied by a loop (every non-clue cell off the loop), or None if the loop is
    not a rule-obeying answer"""
    h, w = _dims(inst)
    p = inst["problem"]
    B = [[False] * w for _ in range(h)]
    for y in range(h):
        for x in range(w):
            on = degree(h, w, H, V, y, x) > 0
            if p[y][x] != "..":
                if on:
                    return None       # loop through a clue cell
            else:
                B[y][x] = not on
    for y in range(h):
        for x in range(w):
            if B[y][x]:
                if x + 1 < w and B[y][x + 1]:
                    return None
                if y + 1 < h and B[y + 1][x]:
                    return None
    for y in range(h):
        for x in range(w):
            c = p[y][x]
            if c == ".." or c == "??":
                continue
            n = int(c[1:])
            if c[0] == "^":
                cells = [(yy, x) for yy in range(y - 1, -1, -1)]
            elif c[0] == "v":
                cells = [(yy, x) for yy in range(y + 1, h)]
            elif c[0] == "<":
                cells = [(y, xx) for xx in range(x - 1, -1, -1)]
            elif c[0] == ">":
                cells = [(y, xx) for xx in range(x + 1, w)]
            else:
                raise ValueError(c)
            if sum(1 for (yy, xx) in cells if B[yy][xx]) != n:
                return None
    return B


def _as_dict(H, V, B):
    d = {}
    for y, row in enumerate(H):
        for x, v in enumerate(row):
            d[("h", y, x)] = bool(v)
    for y, row in enumerate(V):
        for x, v in enumerate(row):
            d[("v", y, x)] = bool(v)
    for y, row in enumerate(B):
        for x, v in enumerate(row):
            d[("b", y, x)] = bool(v)
    return d


def solutions(inst):
    h, w = _dims(inst)
    out = []
    for (H, V) in all_loops(h, w):
        B = blacks_of(inst, H, V)
        if B is not None:
            out.append(_as_dict(H, V, B))
    return out


def _points_off_board(inst):
    h, w = _dims(inst)
    p = inst["problem"]
    for y in range(h):
        for x in range(w):
            c = p[y][x]
            if (c[0] == "^" and y == 0) or (c[0] == "v" and y == h - 1) or \
                    (c[0] == "<" and x == 0) or (c[0] == ">" and x == w - 1):
                return True
    return False


def classify(inst):
    h, w = _dims(inst)
    if h == 1 and w == 1:
        shape = "1x1 board"
    elif h == 1 or w == 1:
        shape = "1xN board"
    else:
        shape = "square" if h == w else ("h>w" if h > w else "h<w")
    if _points_off_board(inst):
        shape += ", arrow on the edge pointing off the board"
    return shape


def _count(B, h, w, y, x, d):
    if d == "^":
        return sum(B[yy][x] for yy in range(0, y))
    if d == "v":
        return sum(B[yy][x] for yy in range(y + 1, h))
    if d == "<":
        return sum(B[y][xx] for xx in range(0, x))
    return sum(B[y][xx] for xx in range(x + 1, w))


def _derive(h, w, H, V, rnd, allow_off):
    """a puzzle that has the given loop as one solution: off-loop cells become black cells (where
    allowed) or clue cells whose numbers are read off the resulting picture"""
    off = [(y, x) for y in range(h) for x in range(w) if degree(h, w, H, V, y, x) == 0]
    rnd.shuffle(off)
    B = [[False] * w for _ in range(h)]
    clue = []
    pb = rnd.choice([0.3, 0.6, 0.9])
    for (y, x) in off:
        adj = any(0 <= y + dy < h and 0 <= x + dx < w and B[y + dy][x + dx]
                  for dy, dx in ((0, 1), (1, 0), (0, -1), (-1, 0)))
        if not adj and rnd.random() < pb:
            B[y][x] = True
        else:
            clue.append((y, x))
    p = [[".."] * w for _ in range(h)]
    for (y, x) in clue:
        ds = [d for d in "^v<>" if allow_off or not (
            (d == "^" and y == 0) or (d == "v" and y == h - 1) or (d == "<" and x == 0) or (d == ">" and x == w - 1))]
        if not ds or rnd.random() < 0.15:
            p[y][x] = "??"
        else:
            d = rnd.choice(ds)
            p[y][x] = "%s%d" % (d, _count(B, h, w, y, x, d))
    return p


def _instances(tier, rnd):
    quick = tier == "quick"
    sizes = [(1, 1), (1, 2), (1, 3), (3, 1), (2, 2), (2, 3), (3, 2), (3, 3), (3, 4), (4, 3), (4, 4)]
    if not quick:
        sizes += [(2, 1), (1, 4), (4, 1), (2, 4), (4, 2), (2, 5), (5, 2), (3, 5), (5, 3), (4, 5), (5, 4)]
    per = 10 if quick else 100
    for (h, w) in sizes:
        yield dict(height=h, width=w, problem=[[".."] * w for _ in range(h)])
        yield dict(height=h, width=w, problem=[["??"] * w for _ in range(h)])
        loops = all_loops(h, w)
        for i in range(per if h * w > 1 else 2):
            H, V = rnd.choice(loops) if i % 5 else loops[0]
            # arrows that point off the board (count over no cells) only in a minority of instances
            allow_off = (i % 5 == 4)
            p = _derive(h, w, H, V, rnd, allow_off)
            mode = i % 4
            clues = [(y, x) for y in range(h) for x in range(w) if p[y][x] not in ("..", "??")]
            if mode == 1 and clues:
                y, x = rnd.choice(clues)
                p[y][x] = p[y][x][0] + str(max(0, int(p[y][x][1:]) + rnd.choice([-1, 1, 1, 2])))
            elif mode == 2:
                y, x = rnd.randrange(h), rnd.randrange(w)
                if p[y][x] == "..":
                    ds = [d for d in "^v<>" if not ((d == "^" and y == 0) or (d == "v" and y == h - 1) or
                                                    (d == "<" and x == 0) or (d == ">" and x == w - 1))]
                    if ds:
                        p[y][x] = rnd.choice(ds) + str(rnd.randint(0, 2))
                else:
                    p[y][x] = ".."
            elif mode == 3 and clues and i % 8 == 3:
                y, x = rnd.choice(clues)
                p[y][x] = "??"
            yield dict(height=h, width=w, problem=p)


def instances(tier, rnd):
    """the instances of _instances() without repetitions"""
    seen = set()
    for inst in _instances(tier, rnd):
        key = json.dumps(inst, sort_keys=True)
        if key not in seen:
            seen.add(key)
            yield inst


def _from_picture(rows):
    """rows: 2h-1 strings of width 2w-1; cells at even positions ('#' = black cell), '-' / '|' between
    cells mark loop segments"""
    h = (len(rows) + 1) // 2
    w = (len(rows[0]) + 1) // 2
    H = [[1 if rows[2 * y][2 * x + 1] == "-" else 0 for x in range(w - 1)] for y in range(h)]
    V = [[1 if rows[2 * y + 1][2 * x] == "|" else 0 for x in range(w)] for y in range(h - 1)]
    B = [[rows[2 * y][2 * x] == "#" for x in range(w)] for y in range(h)]
    return _as_dict(H, V, B)


# The module's own example (_main, 10x10) is far beyond exhaustive enumeration; a hand-made 4x4 puzzle is
# recorded instead.  Uniqueness by hand: ">1" at (3,2) sees only (3,3), so (3,3) is black; then (2,3) is
# white and its only free neighbours are (1,3) and (2,2), so both segments are drawn; (1,3) is on the loop,
# so the ">1" at (1,1) makes (1,2) black.  (1,3), (0,3), (0,2), (0,1), (0,0), (1,0) then each have exactly
# two usable neighbours, which draws (2,3)-(1,3)-(0,3)-(0,2)-(0,1)-(0,0)-(1,0)-(2,0); (2,2) can only go
# on to (2,1).  Joining (2,1)-(2,0) would leave (3,0),(3,1) as adjacent black cells, so the loop runs
# (2,1)-(3,1)-(3,0)-(2,0).
_EX = dict(height=4, width=4, problem=[
    ["..", "..", "..", ".."],
    ["..", ">1", "..", ".."],
    ["..", "..", "..", ".."],
    ["..", "..", ">1", ".."],
])
_SOL = _from_picture([
    "o-o-o-o",
    "|     |",
    "o > # o",
    "|     |",
    "o o-o-o",
    "| |    ",
    "o-o > #",
])
EXAMPLES = [(_EX, _SOL)]
